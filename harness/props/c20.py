"""C20 — passwords never reach the logs.

Correspondence of coq/Model/LogCensor.v with the real aioftp, and the secrecy oracle on the
real code.  Every LogRecord of loggers aioftp.client, aioftp.server, aioftp, asyncio and root
(DEBUG) is captured as an object: record.msg, record.args, record.getMessage() and the
formatted traceback are all inspected.

Streams
  F1  Server.parse_command on single lines (real StreamReader), model fn 0
  F2  BaseClient.command(cmd, censor_after=k), model fn 1
  S1  whole logins with the real Client against the real Server on simnet (accepted, rejected,
      unknown user, anonymous, user without password), model fn 4 (both loggers); + a user manager whose
      authenticate() raises (the error path of PASS: dispatcher traceback), oracle only
  S2  raw control-channel scripts (simnet.Raw) with odd verb spellings: PASS before USER, wrong
      then right then repeated PASS, PASS after an unknown USER, bare PASS; model fn 2; + authenticate() raising (oracle only)
  S3  Client.login's state machine against SCRIPTED servers: the real aioftp.Client (connect + login)
      on simnet against a peer that sends a fixed script of reply lines whatever it is told --
      bounded-exhaustive over words of continuing replies {331, 332, multi-line 331} followed by a
      final one {230, multi-line 230 with a free continuation line, 530, 421, 333, nothing (EOF)},
      plus malformed scripts; passwords with marker twins, several users / accounts; model fn 6
      (client_login_run on the login PROGRAM regenerated from client.py by gen_logging)
  U   verb spellings from the full Unicode case-mapping closure of "pass" (every character that lower / casefold /
      upper / NFKC / NFKD send to a piece of "pass", computed from the interpreter), sent as raw lines after
      USER; judged by "answered as a login (not 502) => censored"; compared with model fn 2
  A   alias spellings of EVERY verb of the server (x+verb, verb+x, truncations, suffixes, doubled; lower/upper case)
      carrying a marker argument, in three login contexts (after USER, logged in, no user); judged by where the line
      ends up -- argument handed to authenticate() or the reply a genuine PASS gets in that context => censored;
      compared with model fn 2 (a non-verb is answered 502)
  M   several control connections on one server with connection limits (User.maximum_connections = 1..3,
      Server.maximum_connections): full / pending / released slots, two limited users, anonymous, the real client;
      oracle over the records of all connections + the refusal reply predicted
  X   outside the property's domain, observed and reported, never a violation: TAB separator,
      leading blank, LF inside the password, undecodable bytes, over-long line (for the last two
      the marker oracle is still evaluated: the traceback must not carry the content)

Secrecy oracle (independent of the model), evaluated on the implementation:
  (i)  marker passwords are built from a private-use alphabet (U+E000..U+E03F) that occurs in
       no fixed text: NO captured record (msg, args, message, traceback; raw, repr-escaped or
       as UTF-8 byte escapes) may contain a single marker character;
  (ii) every session / call is run twice, with the generated password p and with its marker
       twin (same length, same whitespace skeleton, every other character replaced by a random
       marker character): the two canonicalised log transcripts must be equal.
"""
import asyncio
import inspect
import logging
import pathlib
import re

import aioftp

from .. import simnet, sx
from .. import core

ID = "C20"
EXTRACT = "ExC20"
TECHNIQUE = (
    "Coq proof of non-interference (equal log records for passwords of equal length) about an executable model of "
    "Server.parse_command / write_line / USER+PASS handlers and Client.command / parse_line / parse_response / login (login as a "
    "program regenerated from the source: loop mask, censor_after as loop-carried variable, one branch per reply code), parametric in "
    "facts regenerated from the source by an ast taint pass over every logging call (Gen/Logging.v: argument sources, "
    "censor tuple, PASS prefix + censor index, PASS reply literals, flows of `rest`), closed whitelist obligation by "
    "vm_compute with a soundness proof; tied to the code by differential correspondence on LogRecord objects "
    "(function level + real client/server login sessions on an in-memory network, incl. a user manager that raises, + the real "
    "Client.login against bounded-exhaustive scripted servers) and a marker/twin secrecy oracle"
)
LEVEL_TEXT = (
    "Theorems C20_server_log_hides_password, C20_server_stream_hides_password, C20_server_session_hides_password, "
    "C20_client_log_hides_password, C20_client_login_records_hide_password, C20_client_login_hides_password_any_server (the login "
    "program regenerated from client.py against every script of reply lines), C20_login_program_condition_suffices, C20_login_session_hides_password, "
    "C20_outcome_independent, C20_pass_reply_fixed, C20_censored_args_are_stars, C20_pass_spellings, C20_other_verbs_are_not_logins and the checker "
    "soundness theorems C20_every_site_hides_server/client are proved for every verb spelling the server dispatches as "
    "PASS, every password string (LF-free at stream level), every line ending, every session prefix/suffix and user table "
    "(Closed under the global context); C20_check_log_sites, C20_modelled_sites_match, C20_no_secret_object_logged and C20_pass_facts (incl. 'the handler of a line is commands_mapping.get(<the verb parse_command returned>) and nothing else') are closed "
    "obligations over the logging-site inventory regenerated from /repo on every run, C20_login_program_ok over the regenerated login program. The model is hand-written; its "
    "tie to the code is the regenerated inventory plus a differential correspondence on captured LogRecord objects, so "
    "the assurance is a proof about the model plus regenerated structure plus sampled agreement of model and code."
)
LEVEL_NOTE = (
    "Trusted: Coq kernel; tools/py2v/gen_logging.py (ast taint pass, fail-closed); extraction cross-checked with vm_compute; "
    "harness + simnet. Modelled not verified: CPython str.rstrip/partition/lower (tables regenerated from the interpreter), "
    "logging's msg % args for %s, that tracebacks carry no local values, codec round trip (utf-8). Outside the domain and "
    "reported as observations: TAB or leading blank instead of 'PASS<SP>' (not a PASS command for this server, answered 502), "
    "LF inside a password, a PASS line that does not decode in the server's encoding (one byte value appears in the "
    "UnicodeDecodeError text), asyncio debug output of third-party code."
)
TRUSTED = [
    "tools/py2v/gen_logging.py: intra-procedural taint pass over every logging call of server.py/client.py/common.py/pathio.py "
    "(fail-closed on aliasing of logger objects, *args, computed levels, logging calls in lambdas/comprehensions/class bodies; locals named by role, "
    "objects of classes whose __repr__/__str__ prints the password found by use and treated as password sources)",
    "logging.LogRecord.getMessage formats msg % args only when args is non-empty; logging.Formatter.formatException prints "
    "exception type, str(exception) and source lines, never local values (exercised: undecodable and over-long PASS lines)",
    "text-level model: decode(encode(t)) = t for utf-8; readline() splits at LF only (exercised)",
]
ASSUMPTIONS = [
    "domain: a PASS command is V ++ ' ' ++ p with lower(V) = 'pass' (the server's own verb grammar); p is LF-free at stream "
    "level (an LF ends the command); the password decodes in the server's encoding",
    "modelled, not verified: CPython str.rstrip/partition/lower, logging %-formatting of '%s', MemoryUserManager without connection limits "
    "(the limits are exercised on the real code by stream M: oracle and refusal prediction, no Coq model)",
    "the reply texts of the model are literals; Gen/Logging.v re-extracts them and checks they are literals in the source, "
    "the correspondence compares them byte for byte",
]

MARK = [chr(c) for c in range(0xE000, 0xE040)]
MARK_RE = re.compile(
    "[\ue000-\ue03f]"  # the character itself
    r"|\\u[eE]0[0-3][0-9a-fA-F]"  # repr/ascii escape
    r"|\\x[eE][eE]\\x80\\x[89abAB][0-9a-fA-F]"  # bytes repr of its UTF-8 form
    r"|[eE][eE]80[89abAB][0-9a-fA-F]"  # hex dump of its UTF-8 form
)
ADDR_FMTS = ("serving on %s:%s", "new connection from %s:%s", "closing connection from %s:%s")
SPELLINGS = ["PASS", "pass", "PaSs", "pASS", "Pass", "paSS"]
OTHER_PW = "ZZ-configured-other"

PW_FIXED = [
    "x", "", " ", "   ", "  x", "x  ", " x y ", "a b", "%s", "%(x)s", "{}", "{0}", "%", "%%", "%d%n%r", "%s%s%s", "100%",
    "*", "***", "a*b", "é", "пароль", "密码", "ß", "İK", " x", "x ", "x\x85", "\tx", "x\ty", "x\t", "\x0bx\x0c",
    "PASS x", "pass", "USER root", "'", '"', "\\", "a'b\"c\\d", "x\ry", "\rx", "-", "230 ok", "\x00x", "\x7f", "x" * 64,
    "p@ss w0rd!", "  %(pw)s  ", "{}{}%s**", "\U0001f511key",
]
ALPHA = list("abXY09 %*{}s()\\'\"-é密\t\xa0") + [" ", " ", "%", "*"]


def gen_password(rng, long_ok=True):
    r = rng.random()
    if r < 0.45:
        return rng.choice(PW_FIXED)
    if r < 0.5 and long_ok:
        n = rng.choice([200, 1000, 5000, 20000])
        return "".join(rng.choice("abc%s *é") for _ in range(n))
    return "".join(rng.choice(ALPHA) for _ in range(rng.randint(1, 9)))


def twin(rng, p):
    """same length, same whitespace skeleton, every other character a random marker character"""
    return "".join(c if c.isspace() else rng.choice(MARK) for c in p)


WIDTH_POOLS = {1: "abcdefghjkmnpqrtuvwxyzBCDEFGHJKLMNQRTVWXYZ2345678", 2: "\u00e9\u00fc\u00f1\u00f8\u0416\u0449\u03bb\u03a9", 3: "\u5bc6\u7801\u6c34\u706b\u5c71\u20ac", 4: "\U0001f511\U0001f600\U00010348"}
WIDTH_OBS = {"n": 0, "example": None}


def peer(rng, p):
    """same length, same whitespace skeleton and the same UTF-8 width character by character, every non-blank
    character replaced by a different plain character of its width"""
    out = []
    for c in p:
        if c.isspace():
            out.append(c)
            continue
        try:
            w = len(c.encode("utf-8"))
        except UnicodeEncodeError:
            out.append(c)
            continue
        out.append(rng.choice([x for x in WIDTH_POOLS[w] if x != c]))
    return "".join(out)


def only_byte_length(rng, p, base, rerun):
    """p and its marker twin logged differently.  The twin has the same number of characters but (markers are 3
    bytes wide) usually another ENCODED length, and "at most its length is revealed" allows a record to depend on
    the length of the password as sent (e.g. a byte count of the line).  Adjudicate with a third run on a peer
    of p with the same character widths: equal to p's -> the difference is attributable to the encoded length
    alone (counted as an observation); different -> the log depends on the characters: violation."""
    q = peer(rng, p)
    if q == p or len(q.encode("utf-8", "surrogatepass")) != len(p.encode("utf-8", "surrogatepass")):
        return False
    try:
        other = rerun(q)
    except Exception:
        return False
    if other != base:
        return False
    WIDTH_OBS["n"] += 1
    WIDTH_OBS["example"] = WIDTH_OBS["example"] or {"password": p, "peer": q}
    return True


# ---------------------------------------------------------------------------- capture
TRACE = 1  # the lowest level a record can have: "at any log level" quantifies over the logger configuration


class Capture(logging.Handler):
    """handler AND loggers at level 1 (not DEBUG): a record emitted at a custom level below DEBUG, or behind
    `logger.isEnabledFor(<custom level>)`, is captured too.  Every logger of the aioftp namespace that exists
    when the capture starts (aioftp.client, aioftp.server, any new aioftp.<module>) is switched to level 1."""

    NAMES = ("aioftp.client", "aioftp.server", "aioftp", "asyncio")

    def __init__(self):
        super().__init__(TRACE)
        self.records = []
        self._seen = set()

    def emit(self, record):
        if id(record) not in self._seen:
            self._seen.add(id(record))
            self.records.append(record)

    def __enter__(self):
        self.saved = []
        root = logging.getLogger()
        names = list(self.NAMES) + [
            n for n, lg in logging.root.manager.loggerDict.items()
            if isinstance(lg, logging.Logger) and n.startswith("aioftp.") and n not in self.NAMES
        ]
        for lg in [root] + [logging.getLogger(n) for n in names]:
            self.saved.append((lg, lg.level, lg.propagate, lg.disabled))
            lg.setLevel(TRACE)
            lg.disabled = False
            lg.propagate = True
            if lg.name in self.NAMES or lg is root:
                lg.addHandler(self)
        self.saved_disable = logging.root.manager.disable
        logging.disable(logging.NOTSET)
        return self

    def __exit__(self, *a):
        for lg, level, prop, dis in self.saved:
            lg.removeHandler(self)
            lg.setLevel(level)
            lg.disabled = dis
            lg.propagate = prop
        logging.disable(self.saved_disable)


_FMT = logging.Formatter()


def canon(r):
    """LogRecord -> (logger, level, msg, args, message, exception class, traceback text)"""
    args = r.args if isinstance(r.args, tuple) else ((r.args,) if r.args else ())
    try:
        message = r.getMessage()
    except Exception as e:  # a record that cannot be formatted is reported, not hidden
        message = f"<unformattable {type(e).__name__}: {e}>"
    exc_name, exc_text = None, ""
    if r.exc_info and r.exc_info[0] is not None:
        exc_name = r.exc_info[0].__name__
        exc_text = _FMT.formatException(r.exc_info)
    return (r.name, r.levelname, str(r.msg), tuple(str(a) for a in args), message, exc_name, exc_text, r.funcName)


def blob(c):
    name, level, msg, args, message, exc_name, exc_text = c[:7]
    return "\x1f".join([msg, repr(msg), message, repr(message), exc_text, repr(exc_text)] + list(args) + [repr(a) for a in args])


def has_marker(cs):
    for c in cs:
        m = MARK_RE.search(blob(c))
        if m:
            return c, m.group(0)
    return None


TASK_RE = re.compile(r"\bTask-\d+\b")


def transcript(cs, with_asyncio=False):
    """canonical transcript for the twin comparison: addresses -> placeholders, asyncio's default task names
    (Task-<global counter>: differ from run to run whatever the password is) -> Task-N, traceback text dropped
    (it contains only source locations; it is inspected by the marker oracle)"""
    out = []
    for name, level, msg, args, message, exc_name, exc_text, func in cs:
        if name == "asyncio" and not with_asyncio:
            continue
        if msg in ADDR_FMTS:
            args = ("<host>", "<port>")
            message = msg % args
        msg, message = TASK_RE.sub("Task-N", msg), TASK_RE.sub("Task-N", message)
        args = tuple(TASK_RE.sub("Task-N", a) for a in args)
        out.append((name, level, msg, args, message, exc_name))
    return out


def is_eof_record(c):
    return c[0] == "aioftp.server" and c[2] == "dispatcher caught exception" and c[5] == "ConnectionResetError"


def mrec(o):
    """model record (decoded sx) -> (msg, args, message)"""
    return (sx.txt(o[0]), tuple(sx.txts(o[1])), sx.txt(o[2]))


def irec(c):
    return (c[2], c[3], c[4])


def recs_match(model, impl):
    """model records vs implementation records; a model text of '\\x00' (repr escaping the model does not
    reproduce) matches any '502 ...' reply line"""
    if len(model) != len(impl):
        return False
    for m, i in zip(model, impl):
        if m == i:
            continue
        if m[0].startswith("502 \x00") and i[0].startswith("502 ") and not i[1]:
            continue
        return False
    return True


# ---------------------------------------------------------------------------- function level
class NullWriter:
    def close(self):
        pass

    def get_extra_info(self, name, default=None):
        return ("127.0.0.1", 50000) if name in ("peername", "sockname") else default

    def write(self, b):
        pass

    async def drain(self):
        pass


class CapStream:
    socket_timeout = None

    def __init__(self):
        self.data = b""

    async def write(self, b):
        self.data += b

    def close(self):
        pass


def impl_parse_command(loop, server, data):
    """feed `data` + EOF to the real Server.parse_command; returns (kind, canon records)"""

    async def go():
        reader = asyncio.StreamReader(limit=2**16)
        stream = aioftp.StreamIO(reader, NullWriter())
        reader.feed_data(data)
        reader.feed_eof()
        try:
            return ("ok", await server.parse_command(stream))
        except ConnectionResetError:
            return ("reset", None)
        except UnicodeDecodeError:
            return ("decode", None)
        except ValueError:
            return ("toolong", None)
        except Exception as e:  # whatever a modified implementation raises is an observation
            return ("raised:" + type(e).__name__, None)

    with Capture() as cap:
        res = loop.run_until_complete(go())
    return res, [canon(r) for r in cap.records]


def impl_client_command(loop, client, cmd, k):
    async def go():
        client.stream = CapStream()
        try:
            await client.command(cmd, censor_after=k)
            return "ok"
        except UnicodeEncodeError:
            return "encode"
        except Exception as e:
            return "raised:" + type(e).__name__

    with Capture() as cap:
        res = loop.run_until_complete(go())
    return res, [canon(r) for r in cap.records]


# ---------------------------------------------------------------------------- sessions on simnet
def mk_users(spec):
    us = []
    for login, pw in spec:
        us.append(aioftp.User(login, pw, base_path=pathlib.PurePosixPath("/")))
    return us


class FaultyUserManager(aioftp.MemoryUserManager):
    """an application-supplied user manager whose password check fails (backend down): the error path of PASS.
    The exception text carries no secret."""

    async def authenticate(self, user, password):
        raise RuntimeError("auth backend unavailable")


def mk_manager(spec, fault):
    return FaultyUserManager(mk_users(spec)) if fault else mk_users(spec)


def session_setup(kd, q):
    """login outcome kind -> (users, user name, authenticate raises?); SESSION_LOGINS gives the number of login() calls"""
    conf = q.rstrip()
    return {
        "relogin": ([("u", conf)], "u", False),
        "accepted": ([("u", conf)], "u", False),
        "rejected": ([("u", OTHER_PW)], "u", False),
        "unknown-user": ([("u", conf)], "nobody", False),
        "anonymous": ([(None, None)], "anyone", False),
        "no-password-user": ([("u", None)], "u", False),
        "auth-fault": ([("u", OTHER_PW)], "u", True),
    }[kd]


SESSION_LOGINS = {"relogin": 2}


def raw_spec(seq, q):
    """user table of a raw sequence: the marker password is always the CONFIGURED password of user u"""
    return [("u", q.rstrip())] + ([("v", OTHER_PW)] if seq == "switch-user" else [])


def raw_script(seq, V, q):
    return {
        # USER again on the same control connection: after a completed login, towards another user, before PASS
        "relogin-same-user": ["USER u", f"{V} {q}", "USER u", f"{V} {q}"],
        "switch-user": ["USER u", f"{V} {q}", "USER v", f"{V} {q}", "USER nobody", "USER u"],
        "user-user-pass": ["USER u", "USER u", f"{V} {q}", "USER u"],
        "pass-before-user": [f"{V} {q}"],
        "wrong-right-again": ["USER u", f"{V} {OTHER_PW}", f"{V} {q}", f"{V} {q}", f"{V} {OTHER_PW}"],
        "unknown-user-then-pass": ["USER nobody", f"{V} {q}"],
        "bare-pass": ["USER u", V, f"{V} ", f"{V} {q}"],
        "auth-fault": ["USER u", f"{V} {q}", "NOOP"],
    }[seq]


def run_client_session(users_spec, user, password, debug=False, fault=False, logins=1):
    """real Server + real Client.login (`logins` times on the same control connection) on simnet;
    returns (outcome, canon records)"""

    async def main(net):
        if debug:
            asyncio.get_running_loop().set_debug(True)
        server = aioftp.Server(mk_manager(users_spec, fault), path_io_factory=aioftp.MemoryPathIO)
        await server.start("127.0.0.1", 2121)
        client = aioftp.Client()
        await client.connect("127.0.0.1", 2121)
        outs = []
        for _ in range(logins):
            try:
                await client.login(user, password)
                outs.append("logged-in")
            except aioftp.StatusCodeError as e:
                outs.append("status:" + ",".join(str(c) for c in e.received_codes))
            except UnicodeEncodeError:
                outs.append("unencodable")
            except Exception as e:  # e.g. the server dropped the connection: an outcome, not an abort
                outs.append("raised:" + type(e).__name__)
                break
        outcome = "+".join(outs)
        client.close()
        await net.settle()
        await server.close()
        await net.settle()
        return outcome

    with Capture() as cap:
        try:
            outcome = simnet.run(main, wall_timeout=20)
        except Exception as e:  # a hang (wall timeout) or crash of the implementation: an outcome, never an abort
            outcome = "harness:" + type(e).__name__
    return outcome, [canon(r) for r in cap.records]


def run_raw_session(users_spec, chunks, debug=False, fault=False):
    """real Server, raw peer sending `chunks` (bytes, EOL included) one at a time; returns (replies, canon records)"""

    async def main(net):
        if debug:
            asyncio.get_running_loop().set_debug(True)
        server = aioftp.Server(mk_manager(users_spec, fault), path_io_factory=aioftp.MemoryPathIO)
        await server.start("127.0.0.1", 2121)
        raw = await simnet.Raw.connect(net, 2121)
        replies = [await raw.drain_replies()]
        for ch in chunks:
            if raw.eof:
                break
            raw.writer.write(ch)
            replies.append(await raw.drain_replies())
        raw.close()
        await net.settle()
        await server.close()
        await net.settle()
        return replies

    with Capture() as cap:
        try:
            replies = simnet.run(main, wall_timeout=20)
        except Exception as e:  # hang / crash: an outcome, never an abort
            replies = [["harness:" + type(e).__name__]]
    return replies, [canon(r) for r in cap.records]


def split_loggers(cs):
    srv = [c for c in cs if c[0] == "aioftp.server"]
    cli = [c for c in cs if c[0] == "aioftp.client"]
    other = [c for c in cs if c[0] not in ("aioftp.server", "aioftp.client")]
    return srv, cli, other


def session_body(srv):
    """the server records the model reproduces: those emitted by the modelled sites (parse_command, write_line,
    the dispatcher's two connection records).  Records of other sites ('serving on', 'waiting for', the EOF
    traceback, any site added later) are not compared with the model; the secrecy oracle still sees them."""
    return [
        c
        for c in srv
        if c[7] in ("parse_command", "write_line")
        or (c[7] == "dispatcher" and c[2] in ("new connection from %s:%s", "closing connection from %s:%s"))
    ]


def client_body(cli):
    return [c for c in cli if c[7] in ("command", "parse_line")]


def conn_addr(srv):
    for c in srv:
        if c[2] == "new connection from %s:%s":
            return c[3]
    return ("?", "?")


def enc_users(spec):
    """[(login|None, password|None)] -> sx value: None -> (), text t -> (t)"""
    return [[None if l is None else [l], None if pw is None else [pw]] for l, pw in spec]


def real_censor():
    d = inspect.signature(aioftp.Server.parse_command).parameters.get("censor_commands")
    if d is None or d.default is inspect.Parameter.empty:
        return ["pass"]
    return list(d.default)


def in_domain_line(verb, sep):
    return verb.lower() == "pass" and sep.startswith(" ")



# ---------------------------------------------------------------------------- S3: scripted servers
CONT = [["331 password, please"], ["332 account, please"], ["331-two", "331 lines"]]
FINAL = [["230 welcome"], ["230-hello", "free text 230 inside", " 230 indented", "230 done"], ["530 no"], ["421 too busy"], ["333 odd"], None]
MALFORMED = [
    [["230-a", "231 b"]],  # continuation with another code: StatusCodeError after both lines are logged
    [["hello"], ["331 pw"], ["230 ok"]],  # a non-numeric first line is continued by the next reply
    [["33"], ["230 ok"]],  # Code('33').matches('33x'); no branch for it
    [[""], ["331 pw"], ["230 ok"]],
    [["331"], ["230"]],  # bare codes
    [["332 acct"], ["332 again"], ["331 \u00e9\u5bc6 %s %(pw)s"], ["331 twice"], ["230-"], ["230 x"]],
    [["331 pw"], ["331 pw"], ["331 pw"], ["331 pw"], ["331 pw"], ["530 enough"]],
    [["120 wait"], ["230 ok"]],
    [["331 pw  \t "], ["230 ok\x85"]],
]
S3_USERS = ["u", "anonymous", "x y"]
S3_ACCOUNTS = ["acct", "", "a b", "%s{}", "ACCT"]
ARGS = {"ArgUser": 0, "ArgPassword": 1, "ArgAccount": 2}
STD_PROGRAM = {
    "first": ("", "USER ", "ArgUser", None), "expected": ["230", "33x"], "mask": "33x", "init": None, "reset": 0,
    "branches": [("331", "PASS ", "ArgPassword", 5), ("332", "ACCT ", "ArgAccount", None)],
}


def login_program():
    """Client.login as gen_logging translates it from the source under test; (program, None) or
    (today's program, reason) when login() no longer has the translated shape"""
    try:
        from tools.py2v import gen_logging

        import shutil

        from tools.py2v.normalize import normalized_src

        nsrc = normalized_src(pathlib.Path(aioftp.__file__).parent)  # the same pre-pass `python -m tools.py2v` applies
        try:
            m = gen_logging.Module(nsrc / "client.py")
            return gen_logging.client_login_program(m), None
        finally:
            shutil.rmtree(nsrc.parent, ignore_errors=True)
    except Exception as e:
        return STD_PROGRAM, f"{type(e).__name__}: {e}"


def enc_program(lp):
    oz = lambda v: [] if v is None else [v]
    br = lambda b: [b[0], b[1], ARGS[b[2]], oz(b[3])]
    return [br(lp["first"]), list(lp["expected"]), lp["mask"], oz(lp["init"]), oz(lp["reset"]), [br(b) for b in lp["branches"]]]


def login_scripts(depth):
    """every word of at most `depth` continuing replies followed by one final reply (None: the peer hangs up)"""
    words = [[]]
    out = []
    for _ in range(depth + 1):
        for w in words:
            for f in FINAL:
                out.append(w + ([f] if f is not None else []))
        words = [w + [c] for w in words for c in CONT]
    return out


def is_delay(g):
    return isinstance(g, dict)


def delayed_scripts(depth, timeout):
    """every script of at most `depth` continuing replies with a silence longer than the client's socket_timeout
    inserted at every position (before the reply to USER, to ACCT, to PASS, inside nothing: groups are atomic), and
    every script of depth <= 1 with a silence shorter than the timeout before every reply"""
    out = []
    for groups in login_scripts(depth):
        for j in range(len(groups) + 1):
            out.append(groups[:j] + [{"delay": 2 * timeout}] + groups[j:])
    for groups in login_scripts(min(depth, 1)):
        out.append([x for g in groups for x in ({"delay": timeout / 2}, g)])
    return out


def effective_lines(groups, timeout):
    """the wire lines the client gets to read: everything before the first silence that outlasts its socket_timeout"""
    out = []
    for g in groups:
        if is_delay(g):
            if timeout is not None and g["delay"] > timeout:
                break
            continue
        out += [l + "\r\n" for l in g]
    return out


def run_scripted_login(groups, user, password, account, debug=False, timeout=None):
    """the REAL aioftp.Client (connect, login) against a scripted peer on simnet.  A group {"delay": d} is d seconds
    of silence (virtual time); `timeout` is the client's socket_timeout.  The peer greets, then sends
    the next group of reply lines whenever the client has gone quiet (so the client sees the flat line
    stream whatever it sent), and hangs up when the script is exhausted while the client still waits.
    Returns (outcome, commands received by the peer, canon records logged during login())."""
    state = {}

    async def main(net):
        if debug:
            asyncio.get_running_loop().set_debug(True)
        peer = {}
        got = asyncio.Event()

        async def handler(reader, writer):
            peer["r"], peer["w"] = reader, writer
            writer.write(b"220 scripted peer\r\n")
            got.set()

        srv = await asyncio.start_server(handler, "127.0.0.1", 2121)
        client = aioftp.Client(socket_timeout=timeout)
        await client.connect("127.0.0.1", 2121)
        await got.wait()
        await net.settle()
        state["n0"] = len(cap.records)

        async def login():
            try:
                await client.login(user, password, account)
                return "logged-in"
            except aioftp.StatusCodeError as e:
                return "status:" + ",".join(str(c) for c in e.received_codes)
            except ConnectionResetError:
                return "reset"
            except UnicodeEncodeError:
                return "unencodable"
            except Exception as e:  # whatever a modified client raises is an outcome, not an abort
                return "raised:" + type(e).__name__

        task = asyncio.ensure_future(login())
        await net.settle()
        for g in groups:
            if task.done():
                break
            if is_delay(g):
                await asyncio.sleep(g["delay"])
            else:
                peer["w"].write("".join(l + "\r\n" for l in g).encode("utf-8"))
            await net.settle()
        if not task.done():
            peer["w"].close()
            await net.settle()
        if not task.done():
            task.cancel()
            outcome = "hung"
        else:
            outcome = task.result()
        state["n1"] = len(cap.records)
        sent = bytes(peer["r"]._buffer).decode("utf-8", "replace").split("\r\n")
        client.close()
        peer["w"].close()
        srv.close()
        await net.settle()
        return outcome, [l for l in sent if l]

    with Capture() as cap:
        outcome, sent = simnet.run(main, wall_timeout=20)
    return outcome, sent, [canon(r) for r in cap.records[state["n0"] :]]


def scripted_pair(rng, groups, user, p, account, debug=False, timeout=None):
    """run one script with p and with its marker twin; returns (runs, oracle failures)"""
    runs = []
    for q in (p, twin(rng, p)):
        try:
            outcome, sent, cs = run_scripted_login(groups, user, q, account, debug=debug, timeout=timeout)
        except Exception as e:  # harness-level failure: an observation, the search goes on
            outcome, sent, cs = "harness:" + type(e).__name__ + ":" + str(e)[:80], [], []
        runs.append((q, outcome, sent, cs))
    fails = []
    (p1, o1, s1, c1), (p2, o2, s2, c2) = runs
    hit = has_marker(c2) if p2 != p1 else None
    if hit:
        fails.append(("leak", hit))
    if o1 != o2 or transcript(c1) != transcript(c2):

        def rerun(q):
            o, _, c = run_scripted_login(groups, user, q, account, debug=debug, timeout=timeout)
            return (o, transcript(c))

        if not only_byte_length(rng, p1, (o1, transcript(c1)), rerun):
            fails.append(("twin", first_diff(transcript(c1), transcript(c2))))
    return runs, fails



# ---------------------------------------------------------------------------- U: the Unicode closure of "pass"
_CLOSURE = {}


def pass_closure():
    """piece of "pass" -> the characters that SOME case mapping of the interpreter (lower, casefold, upper().lower(),
    upper().casefold(), NFKC / NFKD + casefold) sends to that piece: U+00DF -> "ss", U+017F -> "s", fullwidth and
    mathematical letters, U+3380 -> "pa" ...  Computed from the interpreter over all code points, once."""
    if _CLOSURE:
        return _CLOSURE
    import unicodedata

    target = "pass"
    subs = {target[i:j] for i in range(4) for j in range(i + 1, 5)}
    fs = [str.lower, str.casefold, lambda c: c.upper().lower(), lambda c: c.upper().casefold(),
          lambda c: unicodedata.normalize("NFKC", c).casefold(), lambda c: unicodedata.normalize("NFKD", c).casefold()]
    for cp in range(0x110000):
        if 0xD800 <= cp < 0xE000:
            continue
        c = chr(cp)
        for f in fs:
            m = f(c)
            if m in subs:
                _CLOSURE.setdefault(m, set()).add(c)
    for k in _CLOSURE:
        _CLOSURE[k] = sorted(_CLOSURE[k])
    return _CLOSURE


def segmentations(t, pieces):
    if not t:
        yield []
    for k in range(1, len(t) + 1):
        if t[:k] in pieces:
            for r in segmentations(t[k:], pieces):
                yield [t[:k]] + r


def closure_spellings(rng, extra=0):
    """every spelling of "pass" with exactly ONE non-ASCII character of the closure (each such character at each
    position it can take, the ASCII rest in random case) + `extra` random spellings with several of them"""
    cl = pass_closure()
    na = {k: [c for c in v if ord(c) > 127] for k, v in cl.items()}
    out = []
    for seg in segmentations("pass", cl):
        for i, piece in enumerate(seg):
            for c in na.get(piece, []):
                out.append("".join(c if j == i else rng.choice([q, q.upper()]) for j, q in enumerate(seg)))
    segs = list(segmentations("pass", cl))
    for _ in range(extra):
        seg = rng.choice(segs)
        out.append("".join(rng.choice(cl[q]) for q in seg))
    seen, uniq = set(), []
    for v in out:
        if v not in seen and not v.isascii():
            seen.add(v)
            uniq.append(v)
    return uniq


def run_spelling_session(V, q):
    """USER u, then `V q` as a raw line: (handled as a login?, reply lines to that line, canon records)"""
    chunks = [b"USER u\r\n", (V + " " + q + "\r\n").encode("utf-8")]
    replies, cs = run_raw_session([("u", q.rstrip())], chunks)
    last = replies[-1] if len(replies) == 3 else []
    codes = simnet.final_codes(last)
    return bool(codes) and codes[0] != "502", last, cs


def spelling_verdict(rng, V, q):
    """the oracle for one spelling: a line the server ANSWERS AS A LOGIN (anything but 502 not implemented) must be
    censored -- no marker character in any record, equal transcripts for two arguments of equal length.
    q is a marker password.  Returns (handled, reply, records, failures)"""
    handled, reply, cs = run_spelling_session(V, q)
    fails = []
    if handled:
        hit = has_marker(cs)
        if hit:
            fails.append(("leak", hit))
        q2 = twin(rng, q)
        h2, reply2, cs2 = run_spelling_session(V, q2)
        if (h2, reply2) != (handled, reply) or transcript(cs) != transcript(cs2):
            fails.append(("twin", first_diff(transcript(cs), transcript(cs2))))
    return handled, reply, cs, fails


# ---------------------------------------------------------------------------- A / M: several connections, aliases, limits
class RecordingUserManager(aioftp.MemoryUserManager):
    """an application user manager that notes which strings the server TREATED AS A PASSWORD (handed to authenticate)"""

    def __init__(self, users):
        super().__init__(users)
        self.auth_calls = []

    async def authenticate(self, user, password):
        self.auth_calls.append(password)
        return await super().authenticate(user, password)


def mk_limited_users(spec):
    """[(login, password, maximum_connections or None)] -> [aioftp.User]"""
    us = []
    for login, pw, mx in spec:
        kw = {} if mx is None else {"maximum_connections": mx}
        us.append(aioftp.User(login, pw, base_path=pathlib.PurePosixPath("/"), **kw))
    return us


def run_steps(users_spec, steps, server_limit=None, debug=False):
    """real Server, several raw control connections driven step by step on simnet.  steps: ("open", c) /
    ("send", c, bytes) / ("close", c) / ("login", c, user, password) = the real aioftp.Client connecting as
    connection c and calling login().  Returns (one reply list / outcome per step, canon records, strings handed to
    authenticate).  A hang or crash is an outcome."""
    auth = []

    async def main(net):
        if debug:
            asyncio.get_running_loop().set_debug(True)
        um = RecordingUserManager(mk_limited_users(users_spec))
        kw = {} if server_limit is None else {"maximum_connections": server_limit}
        server = aioftp.Server(um, path_io_factory=aioftp.MemoryPathIO, **kw)
        await server.start("127.0.0.1", 2121)
        conns, out = {}, []
        for st in steps:
            try:
                if st[0] == "open":
                    conns[st[1]] = await simnet.Raw.connect(net, 2121)
                    out.append(await conns[st[1]].drain_replies())
                elif st[0] == "send":
                    raw = conns[st[1]]
                    if raw.eof:
                        out.append(["<eof>"])
                        continue
                    raw.writer.write(st[2])
                    out.append(await raw.drain_replies())
                elif st[0] == "close":
                    conns.pop(st[1]).close()
                    await net.settle()
                    out.append([])
                elif st[0] == "login":
                    client = aioftp.Client()
                    conns[st[1]] = client
                    await client.connect("127.0.0.1", 2121)
                    try:
                        await client.login(st[2], st[3])
                        out.append(["logged-in"])
                    except aioftp.StatusCodeError as e:
                        out.append(["status:" + ",".join(str(c) for c in e.received_codes)])
            except Exception as e:  # the (mutated) implementation raised / hung up: an outcome of this step
                out.append(["raised:" + type(e).__name__])
        for c in list(conns.values()):
            c.close()
        await net.settle()
        await server.close()
        await net.settle()
        auth.extend(um.auth_calls)
        return out

    with Capture() as cap:
        try:
            out = simnet.run(main, wall_timeout=20)
        except Exception as e:
            out = [["harness:" + type(e).__name__]]
    return out, [canon(r) for r in cap.records], list(auth)


def server_verbs():
    """the verbs the server under test dispatches (keys of Server().commands_mapping)"""
    return sorted(aioftp.Server().commands_mapping)


def mixcase(rng, v):
    return "".join(rng.choice([c.lower(), c.upper()]) for c in v)


def alias_spellings(rng, verbs, full):
    """for EVERY verb v of the server: the spellings an alias / abbreviation / fallback mechanism could map to v and
    that are not PASS -- RFC 775 style `x`+v, v+`x`, truncations (v without its last letter, its first
    three letters), v with a suffix (`d`, `wd`, `word`), v doubled -- lower, upper and mixed case.  The verb is what
    parse_command makes of the line (text before the first space), so the alias always carries the argument."""
    out = []
    for v in verbs:
        cands = ["x" + v, v + "x", v[:-1], v[:3], v + "d", v + "wd", v + "word", v + v]
        if full:
            cands += ["x" + v + "x", "y" + v, v[1:], v[:2], v + "s", v + "1", "x-" + v, v + "_"]
        for a in cands:
            if len(a) >= 2 and a.lower() != "pass":  # a spelling that happens to be a key of the mapping stays in: the oracle decides
                out.append((v, a))
                out.append((v, a.upper()))
                if full:
                    out.append((v, mixcase(rng, a)))
    seen, uniq = set(), []
    for v, a in out:
        if a not in seen:
            seen.add(a)
            uniq.append((v, a))
    return uniq


ALIAS_CONTEXTS = {
    # context -> lines sent before the alias line (q = the marker password, also the configured one)
    "after-user": lambda q: ["USER u"],
    "logged-in": lambda q: ["USER u", f"PASS {q}"],
    "no-user": lambda q: [],
}


def run_alias_session(ctxname, V, q):
    """`V q` as a raw line in a login context: (reply lines to that line, records, strings handed to authenticate by it)"""
    pre = ALIAS_CONTEXTS[ctxname](q)
    steps = [("open", 0)] + [("send", 0, (l + "\r\n").encode("utf-8")) for l in pre]
    steps.append(("send", 0, (V + " " + q + "\r\n").encode("utf-8", "surrogatepass")))
    out, cs, auth = run_steps([("u", q.rstrip(), None)], steps)
    n_pre_auth = sum(1 for l in pre if l.upper().startswith("PASS "))
    return (out[-1] if len(out) == len(steps) else ["<no reply>"]), cs, auth[n_pre_auth:]


_PASS_REPLY = {}


def pass_reply(ctxname, q):
    """what the server under test answers to a genuine `PASS q` in this context (the PASS handler's reply there)"""
    if ctxname not in _PASS_REPLY:
        _PASS_REPLY[ctxname] = run_alias_session(ctxname, "PASS", q)[0]
    return _PASS_REPLY[ctxname]


def alias_verdict(rng, ctxname, V, q):
    """the oracle for one alias line: a line whose argument the server TREATED AS A PASSWORD -- it was handed to
    authenticate(), or the line got exactly the PASS handler's reply of this context (230/530 after USER, 503 already
    logged in, 503 no user) -- must be censored: no marker character in any record, equal transcripts for two
    arguments of equal length.  Judged by where the line ended up, not by its spelling."""
    reply, cs, auth = run_alias_session(ctxname, V, q)
    ref = pass_reply(ctxname, q)
    codes = simnet.final_codes(reply)
    treated = bool(auth) or (reply == ref and codes[:1] != ["502"])
    fails = []
    if treated:
        hit = has_marker(cs)
        if hit:
            fails.append(("leak", hit))
        q2 = twin(rng, q)
        reply2, cs2, auth2 = run_alias_session(ctxname, V, q2)
        if reply2 != reply or transcript(cs) != transcript(cs2):
            fails.append(("twin", first_diff(transcript(cs), transcript(cs2))))
    return treated, reply, cs, auth, fails


MULTI_SCENARIOS = ["limit-full", "limit-pending", "limit-release", "limit-other-user", "anonymous-limit", "server-limit", "limit-full-client"]


def multi_scenario(name, k, V, q, end="\r\n"):
    """(users, server limit, steps, index of the step that must be REFUSED because all connections are in use or None,
    expected refusal reply prefix).  q is the marker password, configured for user u with maximum_connections = k."""
    conf = q.rstrip()
    b = lambda l: (l + end).encode("utf-8", "surrogatepass")
    users, limit, steps = [("u", conf, k)], None, []
    refused, expect = None, None
    if name == "limit-full":  # k sessions of u logged in, one more connection asks for u
        for c in range(k):
            steps += [("open", c), ("send", c, b("USER u")), ("send", c, b(f"{V} {q}"))]
        steps += [("open", k), ("send", k, b("USER u"))]
        refused, expect = len(steps) - 1, "530 too much connections for 'u'"
        steps += [("send", k, b(f"{V} {q}")), ("send", 0, b("NOOP"))]
    elif name == "limit-pending":  # the slots are taken by sessions that sent USER only
        for c in range(k):
            steps += [("open", c), ("send", c, b("USER u"))]
        steps += [("open", k), ("send", k, b("USER u"))]
        refused, expect = len(steps) - 1, "530 too much connections for 'u'"
        steps += [("send", 0, b(f"{V} {q}")), ("send", k, b(f"{V} {q}")), ("send", k, b("USER u"))]
    elif name == "limit-release":  # a slot is given back, the next connection gets in
        for c in range(k):
            steps += [("open", c), ("send", c, b("USER u")), ("send", c, b(f"{V} {q}"))]
        steps += [("open", k), ("send", k, b("USER u"))]
        refused, expect = len(steps) - 1, "530 too much connections for 'u'"
        steps += [("send", 0, b("QUIT")), ("close", 0), ("send", k, b("USER u")), ("send", k, b(f"{V} {q}"))]
    elif name == "limit-other-user":  # two limited users; refused for both, unknown user in between
        users = [("u", conf, k), ("v", OTHER_PW, 1)]
        for c in range(k):
            steps += [("open", c), ("send", c, b("USER u")), ("send", c, b(f"{V} {q}"))]
        steps += [("open", k), ("send", k, b("USER v")), ("send", k, b(f"{V} {OTHER_PW}"))]
        steps += [("open", k + 1), ("send", k + 1, b("USER v")), ("send", k + 1, b("USER nobody")), ("send", k + 1, b("USER u"))]
        refused, expect = len(steps) - 1, "530 too much connections for 'u'"
        steps += [("send", k + 1, b(f"{V} {q}"))]
    elif name == "anonymous-limit":  # the anonymous user is limited; the password is whatever the peer sends
        users = [(None, None, k), ("u", conf, None)]
        for c in range(k):
            steps += [("open", c), ("send", c, b("USER anonymous")), ("send", c, b(f"{V} {q}"))]
        steps += [("open", k), ("send", k, b("USER ftp"))]
        refused, expect = len(steps) - 1, "530 too much connections for 'anonymous'"
        steps += [("send", k, b(f"{V} {q}")), ("send", k, b("USER u")), ("send", k, b(f"{V} {q}"))]
    elif name == "server-limit":  # Server(maximum_connections=k): the k+1-th connection is greeted with 421
        users, limit = [("u", conf, None)], k
        for c in range(k):
            steps += [("open", c), ("send", c, b("USER u")), ("send", c, b(f"{V} {q}"))]
        steps += [("open", k)]
        refused, expect = len(steps) - 1, "421"
        steps += [("send", k, b("USER u")), ("send", k, b(f"{V} {q}"))]
    elif name == "limit-full-client":  # the same with the real client on every connection
        for c in range(k):
            steps += [("login", c, "u", q)]
        steps += [("login", k, "u", q)]
        refused, expect = len(steps) - 1, "status:530"
    else:
        raise KeyError(name)
    return users, limit, steps, refused, expect


def multi_pair(rng, name, k, V, p, end="\r\n", debug=False):
    """one multi-connection scenario with p and with its marker twin: [(password, step outputs, records, auth)], failures"""
    runs = []
    for q in (p, twin(rng, p)):
        users, limit, steps, refused, expect = multi_scenario(name, k, V, q, end)
        out, cs, auth = run_steps(users, steps, server_limit=limit, debug=debug)
        runs.append((q, out, cs, auth))
    (p1, o1, c1, a1), (p2, o2, c2, a2) = runs
    fails = []
    hit = has_marker(c2) if p2 != p1 else None
    if hit:
        fails.append(("leak", hit))
    if o1 != o2 or transcript(c1) != transcript(c2):

        def rerun(q):
            users, limit, steps, _, _ = multi_scenario(name, k, V, q, end)
            o, c, _ = run_steps(users, steps, server_limit=limit)
            return (o, transcript(c))

        if not only_byte_length(rng, p1, (o1, transcript(c1)), rerun):
            fails.append(("twin", first_diff(transcript(c1), transcript(c2)) or {"outputs": [o1, o2]}))
    return runs, fails



def secret_classes_tie():
    """the translator's list of classes whose __repr__/__str__ prints the password (taint sources of the logging
    inventory) against the running code: every class of aioftp.server that takes a `password` and shows it in
    repr()/str() must be on the list"""
    import ast

    import aioftp.server as srvmod

    try:
        from tools.py2v import gen_logging

        static = sorted(gen_logging.secret_repr_classes(ast.parse(pathlib.Path(inspect.getsourcefile(srvmod)).read_text())))
    except Exception as e:
        static = ["<translator failed: %s>" % type(e).__name__]
    mk = "".join(MARK[:4])
    dyn = []
    for name, cls in sorted(vars(srvmod).items()):
        if isinstance(cls, type) and cls.__module__ == srvmod.__name__:
            try:
                if "password" not in inspect.signature(cls).parameters:
                    continue
                obj = cls(password=mk)
                if MARK_RE.search(repr(obj) + "\x1f" + str(obj)):
                    dyn.append(name)
            except Exception:
                continue
    return {"translator": static, "runtime": dyn}



# ---------------------------------------------------------------------------- the check
def correspondence(ctx, budget=None):
    rng = ctx.rng
    thorough = ctx.tier == "thorough"
    scale = budget or (20 if thorough else 1)
    loop = asyncio.new_event_loop()
    censor = real_censor()
    ctx.extra["rule"] = (
        "F1: parse_command on lines verb x separator x argument x ending (verbs: 6 PASS spellings, other verbs, non-ASCII "
        "look-alikes; arguments from a generator biased to blanks, '%'/'{}' directives, '*', non-ASCII, 1 char, up to 20000 chars), "
        "each with its marker twin; F2: client.command over commands x censor_after in {None,0,1,4,5,6,-1,-2,50}; "
        "S1: real Client.login vs real Server on simnet for 7 login kinds (incl. authenticate() raising, login() twice on one connection) x passwords, each run twice (p and twin), a share "
        "with asyncio debug mode; S2: raw scripts for 6 verb spellings x 8 login sequences (incl. authenticate() raising, USER again after a login / towards another user / before PASS) x passwords, twice each; "
        "S3: real Client.connect+login against a scripted peer, bounded-exhaustive over every word of <= 3 (thorough 5) continuing "
        "replies {331, 332, two-line 331} followed by {230, four-line 230, 530, 421, 333, EOF}, plus malformed scripts (code change "
        "inside a multi-line reply, non-numeric / short / empty lines, 120), plus a client with socket_timeout=3 against every script of "
        "depth <= 2 with a 6 s silence at every position and 1.5 s silences before every reply; thorough: + random words; users x accounts rotate, "
        "each script run with a password and its marker twin; "
        "U: every spelling of 'pass' with one non-ASCII character of the interpreter's case-mapping / compatibility closure at each position "
        "(+ random multi-character ones), raw session USER u / <spelling> <marker>, oracle: answered other than 502 => no marker, twin-equal. "
        "A: for every verb of Server().commands_mapping the alias spellings x+v, v+x, v[:-1], v[:3], v+d/wd/word, v+v (thorough: more, random case), lower and upper, "
        "x 3 login contexts, raw session with a marker argument, oracle: argument handed to authenticate() or answered like a genuine PASS of that context => no marker, twin-equal; "
        "M: 7 multi-connection scenarios with connection limits (per user k=1..3, per server, anonymous, real client) x 6 verb spellings x passwords, each with p and twin; "
        "A case is non-trivial when its (stream, verb/outcome, password) key is new."
    )
    xcheck = []
    WIDTH_OBS.update(n=0, example=None)
    ctx.extra["censor_commands_default"] = censor

    # ------------------------------------------------------------ F1
    server = aioftp.Server()
    verbs = SPELLINGS + ["USER", "RETR", "PASSWD", "PAS", "paſſ", "ＰＡＳＳ", "PAẞ", "PAЅЅ", "", "İ", "K", "QUIT"]
    seps = [" ", " ", " ", "  ", "\t", ""]
    ends = ["\r\n", "\r\n", "\n", "", " \r\n", "\r", "\x85\r\n"]
    lines = []
    n1 = 3000 * scale
    for _ in range(n1):
        v = rng.choice(verbs) if rng.random() < 0.5 else rng.choice(SPELLINGS)
        sep = rng.choice(seps)
        p = gen_password(rng).replace("\n", "")
        e = rng.choice(ends)
        lines.append((v, sep, p, e))
    for v in SPELLINGS:  # every fixed password with every spelling at least once
        for p in PW_FIXED:
            lines.append((v, " ", p.replace("\n", ""), "\r\n"))
    lines += [("PASS", "", "", "\r\n"), ("PASS", " ", "", ""), ("", "", "", "\r\n"), ("", "", "", "")]
    jobs = []
    for v, sep, p, e in lines:
        jobs.append((v, sep, p, e, False))
        if in_domain_line(v, sep) and p.strip():
            jobs.append((v, sep, twin(rng, p), e, True))
    mo = ctx.model([(0, [censor, v + sep + p + e]) for v, sep, p, e, _ in jobs])
    prev = None
    n_dom = 0
    for (v, sep, p, e, is_twin), o in zip(jobs, mo):
        line = v + sep + p + e
        ctx.case(("F1", v, sep, p, e))
        ctx.traces_impl += 1
        (kind, _), cs = impl_parse_command(loop, server, line.encode("utf-8", "surrogatepass"))
        srv = [c for c in cs if c[0] == "aioftp.server" and c[7] == "parse_command"]
        if o[0] == -1:
            if kind != "reset" or srv:
                ctx.disagree("parse_command_log", line, "no record (ConnectionResetError)", [kind, srv])
        else:
            if kind != "ok" or len(srv) != 1 or irec(srv[0]) != mrec(o[1]):
                ctx.disagree("parse_command_log", line, mrec(o[1]), [kind] + [irec(c) for c in srv])
        if len(xcheck) < 40 and len(line) < 60:
            xcheck.append((0, [censor, line], o))
        if in_domain_line(v, sep):
            n_dom += 1
            if is_twin:
                hit = has_marker(cs)
                if hit:
                    ctx.violation(
                        "server log record contains a character of the PASS argument",
                        {"key": "c20-line-leak", "verb": v, "sep": sep, "password": p, "end": e, "record": list(hit[0][:5]), "found": hit[1]},
                    )
                if prev is not None and transcript(prev[1]) != transcript(cs) and not only_byte_length(
                    rng, prev[0], transcript(prev[1]),
                    lambda q: transcript(impl_parse_command(loop, server, (v + sep + q + e).encode("utf-8", "surrogatepass"))[1]),
                ):
                    ctx.violation(
                        "server log differs between two PASS arguments of equal length",
                        {"key": "c20-line-twin", "verb": v, "sep": sep, "password": prev[0], "twin": p, "end": e,
                         "a": [list(x[:5]) for x in transcript(prev[1])], "b": [list(x[:5]) for x in transcript(cs)]},
                    )
            prev = (p, cs)
        else:
            prev = None
    ctx.count("F1_lines", len(jobs))
    ctx.count("F1_in_domain_pass_lines", n_dom)
    ctx.sample({"stream": "F1", "line": "PaSs   %s x \r\n", "note": "see evidence distribution"})

    # ------------------------------------------------------------ F2
    client = aioftp.Client()
    ks = [None, 0, 1, 4, 5, 6, -1, -2, 50]
    cjobs = []
    for _ in range(800 * scale):
        p = gen_password(rng, long_ok=False)
        cmd = rng.choice(["PASS " + p, "PASS " + p, "USER " + p, "ACCT " + p, p, "PASS"])
        k = rng.choice(ks) if rng.random() < 0.6 else 5
        cjobs.append((cmd, k, False))
        if cmd.startswith("PASS ") and k == 5 and cmd[5:].strip():
            cjobs.append(("PASS " + twin(rng, cmd[5:]), 5, True))
    mo = ctx.model([(1, [cmd, 0 if k is None else k]) for cmd, k, _ in cjobs])
    prev = None
    for (cmd, k, is_twin), o in zip(cjobs, mo):
        ctx.case(("F2", cmd, k))
        ctx.traces_impl += 1
        kind, cs = impl_client_command(loop, client, cmd, k)
        cl = [c for c in cs if c[0] == "aioftp.client" and c[7] == "command"]
        if [irec(c) for c in cl] != [mrec(x) for x in o]:
            ctx.disagree("client_command_log", [cmd, k], [mrec(x) for x in o], [irec(c) for c in cl])
        if len(xcheck) < 70 and len(cmd) < 40:
            xcheck.append((1, [cmd, 0 if k is None else k], o))
        if cmd.startswith("PASS ") and k == 5:
            if is_twin:
                hit = has_marker(cs)
                if hit:
                    ctx.violation(
                        "client log record contains a character of the password",
                        {"key": "c20-client-command-leak", "command": cmd, "censor_after": k, "record": list(hit[0][:5]), "found": hit[1]},
                    )
                if prev is not None and transcript(prev[1]) != transcript(cs) and not only_byte_length(
                    rng, prev[0][5:], transcript(prev[1]), lambda q: transcript(impl_client_command(loop, client, "PASS " + q, k)[1])
                ):
                    ctx.violation(
                        "client log differs between two passwords of equal length",
                        {"key": "c20-client-command-twin", "command": prev[0], "twin": cmd, "censor_after": k},
                    )
            prev = (cmd, cs)
        else:
            prev = None
    ctx.count("F2_client_commands", len(cjobs))

    # ------------------------------------------------------------ S1: real client logins
    kinds = ["accepted", "rejected", "unknown-user", "anonymous", "no-password-user", "auth-fault", "relogin"]
    s1 = []
    pws = [p for p in PW_FIXED if "\n" not in p]
    n_s1 = 120 * scale
    for i in range(n_s1):
        p = pws[i % len(pws)] if i < len(pws) else gen_password(rng).replace("\n", "")
        s1.append((kinds[i % len(kinds)] if i >= 2 * len(kinds) else kinds[i % len(kinds)], p))
    # make sure every outcome meets a handful of awkward passwords
    for kd in kinds:
        for p in ["  x ", "%s", "*", "é密", " ", "x" * 3000]:
            s1.append((kd, p))
    s1_runs = []
    outcomes = {}
    n_fault_logged = 0
    for idx, (kd, p) in enumerate(s1):
        pair = []
        for q in (p, twin(rng, p)):
            try:
                q.encode("utf-8")
            except UnicodeEncodeError:
                continue
            spec, user, fault = session_setup(kd, q)
            debug = idx % 7 == 0
            ctx.case(("S1", kd, q))
            ctx.traces_impl += 1
            outcome, cs = run_client_session(spec, user, q, debug=debug, fault=fault, logins=SESSION_LOGINS.get(kd, 1))
            outcomes[(kd, outcome)] = outcomes.get((kd, outcome), 0) + 1
            pair.append((q, spec, user, outcome, cs))
            if kd == "relogin":  # fn 4 models one login(); the raw re-USER sequences of S2 are compared with the model
                pass
            elif not fault:  # the session model has no failing user manager: oracle only for that kind
                s1_runs.append((kd, q, spec, user, outcome, cs))
            else:
                n_fault_logged += any(c[2] == "dispatcher caught exception" and c[5] == "RuntimeError" for c in cs)
        if len(pair) == 2:
            (p1, _, _, o1, c1), (p2, _, _, o2, c2) = pair
            hit = has_marker(c2) if p2 != p1 else None
            if hit:
                ctx.violation(
                    "a log record of a login session contains a character of the password",
                    {"key": "c20-session-leak", "driver": "client", "kind": kd, "password": p2, "logger": hit[0][0],
                     "record": list(hit[0][:5]), "found": hit[1]},
                )
            def rerun1(q, kd=kd):
                spec, user, fault = session_setup(kd, q)
                o, c = run_client_session(spec, user, q, fault=fault, logins=SESSION_LOGINS.get(kd, 1))
                return (o, transcript(c))

            if (o1 != o2 or transcript(c1) != transcript(c2)) and not only_byte_length(rng, p1, (o1, transcript(c1)), rerun1):
                ctx.violation(
                    "log transcripts of two logins with passwords of equal length differ",
                    {"key": "c20-session-twin", "driver": "client", "kind": kd, "password": p1, "twin": p2, "outcomes": [o1, o2],
                     "diff": first_diff(transcript(c1), transcript(c2))},
                )
    ctx.extra["S1_outcomes"] = {f"{k[0]}:{k[1]}": v for k, v in sorted(outcomes.items())}
    expected_out = {"accepted": "logged-in", "rejected": "status:530", "unknown-user": "status:530", "anonymous": "logged-in", "no-password-user": "logged-in",
                    "auth-fault": "raised:ConnectionResetError", "relogin": "logged-in+logged-in"}
    for (kd, oc), n in outcomes.items():
        if expected_out[kd] != oc:
            ctx.disagree("S1-outcome", kd, expected_out[kd], oc)
    ctx.count("S1_auth_fault_sessions_with_the_fault_logged", n_fault_logged)
    if n_fault_logged == 0:
        ctx.disagree("S1-non-vacuity", "no auth-fault session logged the RuntimeError", ">0", 0)
    mo = ctx.model(
        [
            (4, [censor, enc_users(spec), "PASS ", 5, conn_addr(split_loggers(cs)[0])[0], conn_addr(split_loggers(cs)[0])[1], user, q, ""])
            for kd, q, spec, user, outcome, cs in s1_runs
        ]
    )
    for (kd, q, spec, user, outcome, cs), o in zip(s1_runs, mo):
        srv, cli, other = split_loggers(cs)
        ms, mc = [mrec(x) for x in o[0]], [mrec(x) for x in o[1]]
        if not recs_match(ms, [irec(c) for c in session_body(srv)]):
            ctx.disagree("S1-server-records", [kd, q], ms, [irec(c) for c in session_body(srv)])
        if not recs_match(mc, [irec(c) for c in client_body(cli)]):
            ctx.disagree("S1-client-records", [kd, q], mc, [irec(c) for c in client_body(cli)])
        if len(xcheck) < 85 and len(q) < 12:
            xcheck.append((4, [censor, enc_users(spec), "PASS ", 5, conn_addr(srv)[0], conn_addr(srv)[1], user, q, ""], o))
    ctx.count("S1_client_sessions", len(s1_runs))
    if s1_runs:
        kd, q, spec, user, outcome, cs = s1_runs[2 if len(s1_runs) > 2 else 0]
        ctx.sample({"stream": "S1", "kind": kd, "password": q, "outcome": outcome, "records": [list(c[:5]) for c in cs if c[0] != "asyncio"][:14]})

    # ------------------------------------------------------------ S2: raw scripts, verb spellings
    s2_runs = []
    seqs = ["pass-before-user", "wrong-right-again", "unknown-user-then-pass", "bare-pass", "auth-fault",
            "relogin-same-user", "switch-user", "user-user-pass"]
    n_s2 = 192 * scale
    for i in range(n_s2):
        V = SPELLINGS[i % len(SPELLINGS)]
        seq = seqs[(i // len(SPELLINGS)) % len(seqs)]
        p = pws[(i * 7) % len(pws)] if i % 3 else gen_password(rng).replace("\n", "")
        end = "\r\n" if i % 5 else "\n"
        pair = []
        for q in (p, twin(rng, p)):
            spec = raw_spec(seq, q)
            script = raw_script(seq, V, q)
            chunks = [(l + end).encode("utf-8", "surrogatepass") for l in script]
            ctx.case(("S2", V, seq, q, end))
            ctx.traces_impl += 1
            replies, cs = run_raw_session(spec, chunks, debug=(i % 9 == 0), fault=(seq == "auth-fault"))
            pair.append((q, replies, cs))
            if seq != "auth-fault":  # oracle only (no failing user manager in the session model)
                s2_runs.append((V, seq, q, spec, [l + end for l in script], replies, cs))
        (p1, r1, c1), (p2, r2, c2) = pair
        hit = has_marker(c2) if p2 != p1 else None
        if hit:
            ctx.violation(
                "a log record of a raw login session contains a character of the PASS argument",
                {"key": "c20-session-leak", "driver": "raw", "verb": V, "sequence": seq, "password": p2, "end": end,
                 "logger": hit[0][0], "record": list(hit[0][:5]), "found": hit[1]},
            )
        def rerun2(q, seq=seq, V=V, end=end):
            r, c = run_raw_session(raw_spec(seq, q), [(l + end).encode("utf-8", "surrogatepass") for l in raw_script(seq, V, q)], fault=(seq == "auth-fault"))
            return (r, transcript(c))

        if (r1 != r2 or transcript(c1) != transcript(c2)) and not only_byte_length(rng, p1, (r1, transcript(c1)), rerun2):
            ctx.violation(
                "log transcripts of two raw sessions with PASS arguments of equal length differ",
                {"key": "c20-session-twin", "driver": "raw", "verb": V, "sequence": seq, "password": p1, "twin": p2, "end": end,
                 "diff": first_diff(transcript(c1), transcript(c2))},
            )
    mo = ctx.model(
        [
            (2, [censor, enc_users(spec), conn_addr(split_loggers(cs)[0])[0], conn_addr(split_loggers(cs)[0])[1], script])
            for V, seq, q, spec, script, replies, cs in s2_runs
        ]
    )
    for (V, seq, q, spec, script, replies, cs), o in zip(s2_runs, mo):
        srv, cli, other = split_loggers(cs)
        ms = [mrec(x) for x in o]
        if not recs_match(ms, [irec(c) for c in session_body(srv)]):
            ctx.disagree("S2-server-records", [V, seq, q], ms, [irec(c) for c in session_body(srv)])
        if len(xcheck) < 95 and len(q) < 10:
            xcheck.append((2, [censor, enc_users(spec), conn_addr(srv)[0], conn_addr(srv)[1], script], o))
    ctx.count("S2_raw_sessions", len(s2_runs))

    # ------------------------------------------------------------ S3: Client.login against scripted servers
    prog, prog_why = login_program()
    ctx.extra["login_program"] = {"translated": prog_why is None, "why_not": prog_why, "program": enc_program(prog)}
    depth = 3 + (2 if thorough else 0) + (1 if budget else 0)
    S3_TIMEOUT = 3
    scripts = [(g, None) for g in login_scripts(depth) + MALFORMED]
    # the exception paths of command() while a command is outstanding: EOF (final None above), malformed replies
    # (above) and the client's socket_timeout expiring during a silence of the peer
    scripts += [(g, S3_TIMEOUT) for g in delayed_scripts(2 + (1 if thorough else 0), S3_TIMEOUT)]
    if thorough or budget:
        for _ in range(300 * scale):  # random words over all reply shapes, malformed lines included
            pool = CONT + [f for f in FINAL if f] + [g for m in MALFORMED for g in m]
            w = [rng.choice(pool) for _ in range(rng.randint(1, 7))]
            if rng.random() < 0.3:
                w.insert(rng.randrange(len(w) + 1), {"delay": rng.choice([1, 2, 5, 10])})
                scripts.append((w, S3_TIMEOUT))
            else:
                scripts.append((w, None))
    s3_pws = [p for p in PW_FIXED if p.strip()]
    s3_runs = []
    s3_out = {}
    n_pass = 0
    n_timeouts = 0
    for i, (groups, tmo) in enumerate(scripts):
        p = s3_pws[i % len(s3_pws)] if i % 4 else gen_password(rng, long_ok=(i % 16 == 0))
        if not p.strip():
            p = "x" + p
        try:
            p.encode("utf-8")
        except UnicodeEncodeError:
            p = "pw"
        user = S3_USERS[i % len(S3_USERS)]
        account = S3_ACCOUNTS[(i // 3) % len(S3_ACCOUNTS)]
        ctx.case(("S3", repr(groups), tmo, p, user, account))
        ctx.traces_impl += 2
        runs, fails = scripted_pair(rng, groups, user, p, account, debug=(i % 11 == 0), timeout=tmo)
        for q, outcome, sent, cs in runs:
            okey = outcome if outcome.startswith("raised:") else outcome.split(":")[0]
            s3_out[okey] = s3_out.get(okey, 0) + 1
            if any(l == "PASS " + q for l in sent):
                n_pass += 1
                n_timeouts += outcome == "raised:TimeoutError" and sent[-1] == "PASS " + q
            s3_runs.append((groups, user, q, account, outcome, cs, tmo))
        for kind, info in fails:
            rp = {"key": "c20-login-script-" + kind, "driver": "scripted-server", "script": groups, "socket_timeout": tmo, "user": user, "password": runs[0][0],
                  "twin": runs[1][0], "account": account, "outcomes": [runs[0][1], runs[1][1]], "commands_received": runs[1][2]}
            if kind == "leak":
                rp.update({"logger": info[0][0], "record": list(info[0][:5]), "found": info[1]})
                ctx.violation("a log record of Client.login against a scripted server contains a character of the password", rp)
            else:
                rp["diff"] = info
                ctx.violation("log transcripts of Client.login against the same scripted server differ for two passwords of equal length", rp)
    mo = ctx.model(
        [(6, [enc_program(prog), user, q, account, effective_lines(groups, tmo)]) for groups, user, q, account, outcome, cs, tmo in s3_runs]
    )
    for (groups, user, q, account, outcome, cs, tmo), o in zip(s3_runs, mo):
        cli = client_body(split_loggers(cs)[1])
        mc = [mrec(x) for x in o]
        if mc != [irec(c) for c in cli]:
            ctx.disagree("S3-client-records", [groups, user, q, account, outcome], mc, [irec(c) for c in cli])
        if len(q) < 8 and 2 <= len(groups) < 5 and sum(1 for x in xcheck if x[0] == 6) < 8:
            if True:
                xcheck.append((6, [enc_program(prog), user, q, account, effective_lines(groups, tmo)], o))
    ctx.count("S3_scripted_logins", len(s3_runs))
    ctx.count("S3_scripts", len(scripts))
    ctx.count("S3_logins_that_sent_PASS", n_pass)
    ctx.count("S3_logins_timed_out_waiting_for_the_reply_to_PASS", n_timeouts)
    if n_timeouts == 0:
        ctx.disagree("S3-non-vacuity", "no scripted login timed out while PASS was outstanding", ">0", 0)
    ctx.extra["S3_outcomes"] = dict(sorted(s3_out.items()))
    if n_pass == 0:
        ctx.disagree("S3-non-vacuity", "no scripted login sent a PASS command", ">0", 0)
    if s3_runs:
        groups, user, q, account, outcome, cs, tmo = s3_runs[min(len(s3_runs) - 1, 2 * 31)]
        ctx.sample({"stream": "S3", "script": groups, "user": user, "password": q, "account": account, "outcome": outcome,
                    "records": [list(c[:5]) for c in cs if c[0] != "asyncio"][:12]})

    # ------------------------------------------------------------ U: spellings from the Unicode closure of "pass"
    spell = closure_spellings(rng, extra=(150 * scale if (thorough or budget) else 24))
    u_runs = []
    n_handled = 0
    for i, V in enumerate(spell):
        q = twin(rng, s3_pws[i % len(s3_pws)])
        ctx.case(("U", V, q))
        ctx.traces_impl += 1
        try:
            handled, reply, cs, fails = spelling_verdict(rng, V, q)
        except Exception as e:  # harness-level failure: observation
            ctx.disagree("U-run", [V, q], "a verdict", f"{type(e).__name__}: {e}"[:200])
            continue
        n_handled += handled
        u_runs.append((V, q, reply, cs))
        for kind, info in fails:
            rp = {"key": "c20-unicode-spelling-" + kind, "driver": "raw", "verb": V, "verb_code_points": [hex(ord(c)) for c in V],
                  "mappings": {"lower": V.lower(), "casefold": V.casefold(), "upper.lower": V.upper().lower()},
                  "password": q, "reply": reply}
            if kind == "leak":
                rp.update({"logger": info[0][0], "record": list(info[0][:5]), "found": info[1]})
                ctx.violation("the server answers a non-ASCII spelling of PASS as a login and logs its argument", rp)
            else:
                rp["diff"] = info
                ctx.violation("the server answers a non-ASCII spelling of PASS as a login and its log depends on the argument", rp)
    mo = ctx.model([(2, [censor, enc_users([("u", q.rstrip())]), conn_addr(split_loggers(cs)[0])[0], conn_addr(split_loggers(cs)[0])[1],
                         ["USER u\r\n", V + " " + q + "\r\n"]]) for V, q, reply, cs in u_runs])
    for (V, q, reply, cs), o in zip(u_runs, mo):
        ms = [mrec(x) for x in o]
        if not recs_match(ms, [irec(c) for c in session_body(split_loggers(cs)[0])]):
            ctx.disagree("U-server-records", [V, q], ms, [irec(c) for c in session_body(split_loggers(cs)[0])])
    ctx.count("U_closure_spellings", len(spell))
    ctx.count("U_spellings_answered_as_login", n_handled)
    ctx.extra["unicode_closure_of_pass"] = {k: len(v) for k, v in pass_closure().items()}
    obs_u = {"spellings": len(spell), "answered_as_login": n_handled, "answered_502_outside_the_domain": len(u_runs) - n_handled}

    # ------------------------------------------------------------ A: alias spellings of EVERY verb, judged by where the line ends up
    verbs_now = server_verbs()
    aliases = alias_spellings(rng, verbs_now, full=(thorough or bool(budget)))
    _PASS_REPLY.clear()
    a_runs = []
    n_treated = 0
    a_marks = [twin(rng, p) for p in s3_pws]
    for i, (v0, V) in enumerate(aliases):
        for j, ctxname in enumerate(ALIAS_CONTEXTS):
            q = a_marks[(i + j) % len(a_marks)]
            ctx.case(("A", ctxname, V, q))
            ctx.traces_impl += 1
            try:
                treated, reply, cs, auth, fails = alias_verdict(rng, ctxname, V, q)
            except Exception as e:  # harness-level failure: observation
                ctx.disagree("A-run", [ctxname, V, q], "a verdict", f"{type(e).__name__}: {e}"[:200])
                continue
            n_treated += treated
            if V.lower() not in verbs_now:  # a key of the mapping (pwd, mls.. or an alias ENTRY) is no "unknown verb" for the model
                a_runs.append((ctxname, V, q, reply, cs))
            for kind, info in fails:
                rp = {"key": "c20-alias-verb-" + kind, "driver": "raw", "context": ctxname, "verb": V, "alias_of": v0, "password": q,
                      "reply": reply, "reply_of_PASS_in_this_context": pass_reply(ctxname, q), "handed_to_authenticate": auth}
                if kind == "leak":
                    rp.update({"logger": info[0][0], "record": list(info[0][:5]), "found": info[1]})
                    ctx.violation("a line whose verb is not PASS reached the PASS handler (its argument was treated as a password) after being logged in clear", rp)
                else:
                    rp["diff"] = info
                    ctx.violation("a line whose verb is not PASS reached the PASS handler and the log depends on its argument", rp)
    mo = ctx.model([(2, [censor, enc_users([("u", q.rstrip())]), conn_addr(split_loggers(cs)[0])[0], conn_addr(split_loggers(cs)[0])[1],
                         [l + "\r\n" for l in ALIAS_CONTEXTS[ctxname](q)] + [V + " " + q + "\r\n"]]) for ctxname, V, q, reply, cs in a_runs])
    for (ctxname, V, q, reply, cs), o in zip(a_runs, mo):
        ms = [mrec(x) for x in o]
        if not recs_match(ms, [irec(c) for c in session_body(split_loggers(cs)[0])]):
            ctx.disagree("A-server-records", [ctxname, V, q], ms, [irec(c) for c in session_body(split_loggers(cs)[0])])
    ctx.count("A_alias_lines", len(aliases) * len(ALIAS_CONTEXTS))
    ctx.count("A_alias_lines_compared_with_the_model", len(a_runs))
    ctx.count("A_alias_lines_treated_as_password", n_treated)
    ctx.extra["alias_stream"] = {"verbs": len(verbs_now), "aliases": len(aliases), "contexts": list(ALIAS_CONTEXTS),
                                 "reply_of_PASS_per_context": dict(_PASS_REPLY), "treated_as_password": n_treated}
    if {k: simnet.final_codes(v)[:1] for k, v in _PASS_REPLY.items()} != {"after-user": ["230"], "logged-in": ["503"], "no-user": ["503"]}:
        ctx.disagree("A-reference", "replies of a genuine PASS in the three contexts", "230 / 503 / 503", dict(_PASS_REPLY))

    # ------------------------------------------------------------ M: several sessions, connection limits
    m_runs = 0
    n_refused = 0
    m_pws = [p for p in pws if p.strip()]
    m_jobs = []
    for i, name in enumerate(MULTI_SCENARIOS):
        for k in (1, 2, 3):
            for r in range(6 * scale if not thorough else 24):
                V = SPELLINGS[(i + k + r) % len(SPELLINGS)]
                p = m_pws[(7 * i + 3 * k + 11 * r) % len(m_pws)] if r % 2 == 0 else (gen_password(rng, long_ok=False).replace("\n", "") or "x")
                if not p.strip():
                    p = "x" + p
                try:
                    p.encode("utf-8")
                except UnicodeEncodeError:
                    p = "pw"
                m_jobs.append((name, k, V, p, "\r\n" if (i + r) % 4 else "\n"))
    for idx, (name, k, V, p, end) in enumerate(m_jobs):
        ctx.case(("M", name, k, V, p, end))
        ctx.traces_impl += 2
        try:
            runs, fails = multi_pair(rng, name, k, V, p, end, debug=(idx % 13 == 0))
        except Exception as e:
            ctx.disagree("M-run", [name, k, V, p], "a verdict", f"{type(e).__name__}: {e}"[:200])
            continue
        m_runs += 2
        users, limit, steps, refused, expect = multi_scenario(name, k, V, p, end)
        for q, out, cs, auth in runs:
            got = out[refused] if refused is not None and refused < len(out) else None
            if got and got[0].startswith(expect):
                n_refused += 1
            else:
                ctx.disagree("M-refusal", [name, k, V, q], expect, got)
        for kind, info in fails:
            rp = {"key": "c20-multi-session-" + kind, "driver": "raw+client", "scenario": name, "limit": k, "verb": V, "password": runs[0][0], "twin": runs[1][0],
                  "end": end, "steps": [[st[0], st[1]] + [x.decode("utf-8", "replace") if isinstance(x, bytes) else x for x in st[2:]] for st in multi_scenario(name, k, V, runs[1][0], end)[2]],
                  "step_outputs": runs[1][1]}
            if kind == "leak":
                rp.update({"logger": info[0][0], "record": list(info[0][:5]), "found": info[1]})
                ctx.violation("a log record of a server with several sessions and a connection limit contains a character of a user's password", rp)
            else:
                rp["diff"] = info
                ctx.violation("log transcripts of the same multi-session history differ for two passwords of equal length", rp)
    ctx.count("M_multi_session_histories", m_runs)
    ctx.count("M_histories_in_which_a_login_was_refused_by_a_connection_limit", n_refused)
    if n_refused == 0:
        ctx.disagree("M-non-vacuity", "no history hit a connection limit", ">0", 0)
    tie = secret_classes_tie()
    ctx.extra["classes_whose_repr_prints_the_password"] = tie
    if not set(tie["runtime"]) <= set(tie["translator"]):
        ctx.disagree("secret-repr-classes", "classes of aioftp.server whose repr()/str() shows the password", tie["translator"], tie["runtime"])

    # ------------------------------------------------------------ X: outside the domain (observations)
    obs = {}
    mk = "".join(MARK[:6])
    for name, chunks in [
        ("tab-separator", [b"USER u\r\n", ("PASS\t" + mk + "\r\n").encode()]),
        ("leading-blank", [b"USER u\r\n", (" PASS " + mk + "\r\n").encode()]),
        ("lf-inside-password", [b"USER u\r\n", ("PASS ab\n" + mk + "\r\n").encode()]),
    ]:
        replies, cs = run_raw_session([("u", "x")], chunks)
        hit = has_marker(cs)
        obs[name] = {"marker_in_log": bool(hit), "record": list(hit[0][:5]) if hit else None, "replies": replies[-1]}
        ctx.traces_impl += 1
    # a PASS line that does not decode / exceeds the line limit kills the session through logger.exception:
    # the traceback must not carry the content (the marker oracle DOES apply here)
    for name, chunk in [
        ("undecodable-bytes", b"PASS \xff" + mk.encode() + b"\r\n"),
        ("overlong-line", b"PASS " + (mk * 12000).encode() + b"\r\n"),
    ]:
        replies, cs = run_raw_session([("u", "x")], [b"USER u\r\n", chunk], debug=True)
        ctx.case(("X", name))
        ctx.traces_impl += 1
        hit = has_marker(cs)
        exc = [c for c in cs if c[5] and not is_eof_record(c)]
        obs[name] = {"marker_in_log": bool(hit), "exception_records": [[c[2], c[5], c[6].strip().splitlines()[-1][:160]] for c in exc]}
        if hit:
            ctx.violation(
                "the traceback logged by the dispatcher carries characters of the PASS argument",
                {"key": "c20-traceback-leak", "case": name, "record": list(hit[0][:5]), "found": hit[1]},
            )
    obs["unicode-closure-spellings"] = obs_u
    ctx.extra["out_of_domain_observations"] = obs
    ctx.extra["twin_differences_attributable_to_encoded_length_only"] = dict(WIDTH_OBS)

    ok, out = core.vm_crosscheck(EXTRACT, xcheck)
    ctx.extra["vm_compute_crosscheck"] = {"cases": len(xcheck), "agree": ok}
    if not ok:
        ctx.obligation_broken("extraction-crosscheck", out)
    loop.close()


def first_diff(a, b):
    for i, (x, y) in enumerate(zip(a, b)):
        if x != y:
            return {"index": i, "a": list(x), "b": list(y)}
    if len(a) != len(b):
        return {"index": min(len(a), len(b)), "len_a": len(a), "len_b": len(b)}
    return None


def search(ctx):
    """the oracle already ran on every implementation output; widen the budget once when a proof obligation or the
    correspondence is broken and no failing input was found yet"""
    if ctx.violations or ctx.tier == "thorough" or ctx.exe is None:
        return
    try:
        correspondence(ctx, budget=3)
    except Exception as e:
        ctx.notes.append(f"search aborted: {e!r}")


def replay(ctx, data):
    """re-run one recorded failing input on the implementation; True when the property holds on it"""
    r = data.get("replay", {})
    key = r.get("key", "")
    loop = asyncio.new_event_loop()
    import random

    rng = random.Random(1)
    if key in ("c20-line-leak", "c20-line-twin"):
        server = aioftp.Server()
        p = r.get("twin") or r["password"]
        res = []
        for q in (p, twin(rng, p)):
            line = r["verb"] + r["sep"] + q + r["end"]
            _, cs = impl_parse_command(loop, server, line.encode("utf-8", "surrogatepass"))
            print([c[:5] for c in cs])
            res.append(cs)
        return has_marker(res[1]) is None and transcript(res[0]) == transcript(res[1])
    if key in ("c20-client-command-leak", "c20-client-command-twin"):
        client = aioftp.Client()
        cmd = r.get("twin") or r["command"]
        p = cmd[5:]
        res = []
        for q in (p, twin(rng, p)):
            _, cs = impl_client_command(loop, client, "PASS " + q, r["censor_after"])
            print([c[:5] for c in cs])
            res.append(cs)
        return has_marker(res[1]) is None and transcript(res[0]) == transcript(res[1])
    if key in ("c20-session-leak", "c20-session-twin") and r.get("driver") == "client":
        p = r.get("twin") or r["password"]
        kd = r["kind"]
        res = []
        for q in (p, twin(rng, p)):
            spec, user, fault = session_setup(kd, q)
            outcome, cs = run_client_session(spec, user, q, fault=fault, logins=SESSION_LOGINS.get(kd, 1))
            for c in cs:
                print(c[:5])
            res.append(cs)
        return has_marker(res[1]) is None and transcript(res[0]) == transcript(res[1])
    if key in ("c20-session-leak", "c20-session-twin") and r.get("driver") == "raw":
        p = r.get("twin") or r["password"]
        V, seq, end = r["verb"], r["sequence"], r["end"]
        res = []
        for q in (p, twin(rng, p)):
            conf = q.rstrip()
            script = raw_script(seq, V, q)
            _, cs = run_raw_session(raw_spec(seq, q), [(l + end).encode("utf-8", "surrogatepass") for l in script], fault=(seq == "auth-fault"))
            for c in cs:
                print(c[:5])
            res.append(cs)
        return has_marker(res[1]) is None and transcript(res[0]) == transcript(res[1])
    if key in ("c20-unicode-spelling-leak", "c20-unicode-spelling-twin"):
        handled, reply, cs, fails = spelling_verdict(rng, r["verb"], r["password"])
        print("verb", [hex(ord(c)) for c in r["verb"]], "answered as a login:", handled, reply)
        for c in cs:
            print("  ", c[:5])
        for f in fails:
            print("ORACLE:", f[0])
        return not fails
    if key in ("c20-login-script-leak", "c20-login-script-twin"):
        p = r.get("twin") or r["password"]
        runs, fails = scripted_pair(rng, r["script"], r["user"], p, r["account"], timeout=r.get("socket_timeout"))
        for q, outcome, sent, cs in runs:
            print("password", repr(q), "outcome", outcome, "peer received", sent)
            for c in cs:
                print("  ", c[:5])
        for f in fails:
            print("ORACLE:", f[0], f[1] if f[0] == "twin" else (list(f[1][0][:5]), f[1][1]))
        return not fails
    if key in ("c20-alias-verb-leak", "c20-alias-verb-twin"):
        _PASS_REPLY.clear()
        treated, reply, cs, auth, fails = alias_verdict(rng, r["context"], r["verb"], r["password"])
        print("context", r["context"], "line", repr(r["verb"] + " <marker>"), "reply", reply, "reply of a genuine PASS here", pass_reply(r["context"], r["password"]))
        print("handed to authenticate:", auth, "=> treated as a password:", treated)
        for c in cs:
            print("  ", c[:5])
        for f in fails:
            print("ORACLE:", f[0])
        return not fails
    if key in ("c20-multi-session-leak", "c20-multi-session-twin"):
        runs, fails = multi_pair(rng, r["scenario"], r["limit"], r["verb"], r.get("twin") or r["password"], r.get("end", "\r\n"))
        for q, out, cs, auth in runs:
            print("password", repr(q), "step outputs", out)
            for c in cs:
                print("  ", c[:5])
        for f in fails:
            print("ORACLE:", f[0], f[1] if f[0] == "twin" else (list(f[1][0][:5]), f[1][1]))
        return not fails
    if key == "c20-traceback-leak":
        mk = "".join(MARK[:6])
        chunk = b"PASS \xff" + mk.encode() + b"\r\n" if r.get("case") == "undecodable-bytes" else b"PASS " + (mk * 12000).encode() + b"\r\n"
        _, cs = run_raw_session([("u", "x")], [b"USER u\r\n", chunk])
        return has_marker(cs) is None
    print("replay payload:", data)
    return False
