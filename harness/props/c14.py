"""C14 — ABOR at any moment stops the transfer, is answered, and keeps the session usable.

The REAL aioftp.Server runs on harness/simnet.py (harness/xfer.py: gated, handle-counting backend; exact
quiescence; resource ledger).  For RETR, STOR, APPE, LIST and MLSD an ABOR is placed at every stage of the
transfer: before the data connection exists (after 150), while the back-end open / seek / k-th read / k-th
write / directory step / stat / close is suspended (gates), while the worker waits for the peer's bytes
(STOR/APPE after j bytes) or for the peer to read (RETR against a peer that does not read), n event-loop
iterations after the transfer command (n = 0..9: the schedules in which the transfer finishes while ABOR is
on its way), after the completion reply, and with no transfer at all; for file sizes around block multiples;
followed by every kind of follow-up (PWD, RETR, STOR, APPE, LIST, MLSD on the same listener, a new PASV,
REST+RETR).

Per case
  * oracle (independent of the model): ABOR answered (426,226 when the transfer had not completed, a single
    226 otherwise); the transfer's data connection closed (the peer sees EOF); what was delivered / stored is
    a prefix and does not grow afterwards; the control connection stays up; the follow-up gets exactly the
    replies and bytes of an undisturbed session; afterwards the session holds no data socket, no file handle
    and no task beyond its three service tasks;
  * correspondence: the abstract state abor() acts on is read off the real server at the entry of its body
    (futures of the Connection, coroutine stack of the transfer task -> model stage), replayed in the
    extracted Coq model (Model/Transfer.v, abor_run) and the model's replies / liveness / ledger are compared
    with what the real server did.

F2, F3, F4 are repaired in aioftp: their former witnesses (ABOR before the data connection, ABOR right behind the
command of a short transfer, ABOR during a slow back-end open) are ordinary cases of the corpus and must satisfy the
oracle; nothing of C14 is listed in known_findings.json any more.

Smoke test:
    >>> r = xfer.run_case(abor_case("RETR", ("gate", "read", 2), size=10))
    >>> [rec["codes"] for rec in r.log if rec["step"][:2] == ["cmd", "ABOR"]]
    [[426, 226]]
"""
import json

from .. import core, xfer

ID = "C14"
EXTRACT = "ExC14"
TECHNIQUE = (
    "Coq proof about a small-step machine of one session and its transfer worker (Model/Transfer.v), parametric in "
    "the structure tools/py2v re-extracts from server.py on every run (decorator order of the four workers, items and "
    "order of their `async with`, detach-first, the reply codes of @worker's CancelledError clause, the condition of "
    "abor(), the dispatcher's except ladders); tied to behaviour by running the real server on an in-memory network "
    "with a gated back-end, placing ABOR at every stage and comparing replies / liveness / resource ledger with the "
    "extracted model, the model state being read off the real server's own state at the entry of abor()"
)
LEVEL_TEXT = (
    "Proved (Closed under the global context): C14_abor_any_moment - for EVERY reachable state of the model of a live "
    "session with at most one transfer, in every stage (not started, waiting for the data connection, back-end open, "
    "seek, any block, any exit, finished and not yet reaped), ABOR is answered 426,226 or 226, every worker ends with "
    "data stream and file closed, what it had moved is unchanged, and the session state is exactly that of an idle "
    "session; no stage is carved out for a defect.  The hypothesis at_rest states the asyncio rule R1 (the abor handler "
    "meets the worker only suspended, not started or finished) and excludes a transfer that has already failed on its "
    "own and whose 451 / session end is still to be reported by the dispatcher.  Further: C14_abor_in_body (exactly "
    "426,226 anywhere in the body), C14_abor_idle (single 226), C14_moved_is_prefix, C14_abor_stops_all_transfers (ANY "
    "number of simultaneous transfers: all stopped, streams and files closed, prefixes kept; the reply sequence for n >= 2 "
    "is validated against the real server, not proved).  The theorem rests on the closed "
    "obligation C14_facts_ok (repaired14 genF), false on each former defective shape (F2, F3, F4).  PARTIAL: the "
    "theorems are about the model; that the real asyncio schedule is one of the model's is validated by the enumerated "
    "placements, not proved."
)
LEVEL_NOTE = (
    "Trusted: Coq kernel; extraction cross-checked with vm_compute; py2v; simnet.  Modelled, not verified: the "
    "asyncio rules R1-R7 listed at the top of Model/Transfer.v (cancellation only at suspension points, `async with` "
    "entry/exit order, CancelledError is a BaseException, wait_for(shield)), exercised by the placements."
)
TRUSTED = [
    "asyncio cancellation semantics (rules R1-R7 at the top of coq/Model/Transfer.v): encoded in the model, exercised "
    "by the gated placements against the real event loop, not proved",
    "harness/xfer.py abstraction function (coroutine stack of the transfer task -> model stage)",
]
ASSUMPTIONS = [
    "one transfer at a time (the property's quantifier); a second transfer command while one is running is outside C14",
    "the peer is sequential except for the explicitly pipelined / n-iterations placements",
    "back-end suspension is modelled by gates: an open that is cancelled while suspended has opened nothing; a close "
    "that has started completes",
]

BLOCK = xfer.BLOCK
VERBS = xfer.VERBS
FILES = xfer.FILES
LOGIN = xfer.LOGIN_STEPS
DONE = xfer.DONE

KEY_F2 = "c14-abor-while-worker-waits-for-data-connection"
KEY_F3 = "c14-abor-unanswered-worker-finished-not-reaped"
KEY_F4 = "c14-abor-during-file-open-data-stream-left-open"


cmd_of = xfer.cmd_of


FOLLOWUPS = {
    "pwd": [["cmd", "PWD"]],
    "retr": [["dconn"], ["cmd", "RETR f"]],
    "stor": [["dconn"], ["cmd", "STOR up2"], ["dsend", 7], ["deof"]],
    "appe": [["dconn"], ["cmd", "APPE old2"], ["dsend", 5], ["deof"]],
    "list": [["dconn"], ["cmd", "LIST d"]],
    "mlsd": [["dconn"], ["cmd", "MLSD d"]],
    "pasv_retr": [["cmd", "PASV"], ["dconn"], ["cmd", "RETR f"]],
    "rest_retr": [["dconn"], ["cmd", "REST 3"], ["cmd", "RETR f"]],
    "abor": [["cmd", "ABOR"]],
}
FOLLOW_CODES = {
    "pwd": [[257]], "retr": [[], [150, 226]], "stor": [[], [150], [], [226]], "appe": [[], [150], [], [226]],
    "list": [[], [150, 226]], "mlsd": [[], [150, 200]], "pasv_retr": [[227], [], [150, 226]],
    "rest_retr": [[], [350], [150, 226]], "abor": [[226]],
}


def abor_case(verb, place, size=None, follow="pwd", pool=True, rest=None):
    """place: see xfer.transfer_setup"""
    steps, gates, files, block, payload = xfer.transfer_setup(verb, place, size=size, rest=rest)
    kind = place[0]
    steps.append(["snap", "before"])
    if kind not in ("ticks", "pipe", "pipe_nodata"):
        steps.append(["cmd", "ABOR"])
    steps.append(["snap", "after"])
    if kind in ("noread", "stalled", "stalled_gate", "two"):
        steps.append(["dread", "all"])
    if (kind in ("sent", "gate", "late_gate", "tgate") and verb in ("STOR", "APPE")) or (kind == "two" and place[2] == "stor"):
        steps.append(["dsend", 3])  # bytes sent after the abort must not be stored
    steps.append(["release", None])
    if kind == "handler_gate" and verb in ("STOR", "APPE"):
        steps += [["dsend", payload], ["deof"]]
    steps.append(["snap", "settled"])
    steps += FOLLOWUPS[follow]
    steps.append(["snap", "end"])
    return {
        "verb": verb, "place": list(place), "follow": follow, "rest": rest,
        "steps": steps, "gates": gates, "pool": pool, "files": files, "payload": payload, "block": block,
        "inspect": ["up", "old", "up2", "old2", "f"],
        **({"water": [8, 16]} if kind in ("stalled", "stalled_gate") or "retr_stalled" in place[1:] else {}),
        **({"backend": "async"} if kind == "tgate" else {}),
    }


# ------------------------------------------------------------------ oracle
def expected_listing(case, which):
    """bytes an undisturbed LIST d / MLSD d / RETR f delivers in this file system (reference run on the real server)"""
    key = (which, json.dumps(case["files"], sort_keys=True), case["block"], case.get("backend"))
    if key not in _REF:
        ref = {"steps": LOGIN + [["dconn"], ["cmd", which]], "pool": False, "files": case["files"], "block": case["block"],
               "backend": case.get("backend")}
        r = xfer.run_case(ref)
        _REF[key] = r.data[0].got
    return _REF[key]


_REF = {}


def oracle(case, r):
    """C14 on the observations of one run; returns [(aspect, message)]"""
    if case["place"][0] == "two":
        return oracle_two(case, r)
    bad = []
    verb, place = case.get("verb"), case["place"]
    log = r.log
    # split the transcript at the ABOR
    i_abor = None
    for i, rec in enumerate(log):
        st = rec["step"]
        if st[:2] == ["cmd", "ABOR"] or st[0] in ("ticksend", "pipe") and "ABOR" in json.dumps(st):
            i_abor = i
            break
    if i_abor is None:
        return [("harness", "no ABOR in the script")]
    done_code = DONE.get(verb)
    started = any(150 in rec["codes"] for rec in log[: i_abor + 1])
    n_follow = len(FOLLOWUPS[case["follow"]])
    end_window = len(log) - n_follow - 1  # up to the snap before the follow-up
    window = [c for rec in log[i_abor:end_window] for c in rec["codes"]]
    before = [c for rec in log[:i_abor] for c in rec["codes"]]
    if log[i_abor]["step"][0] in ("ticksend", "pipe"):
        # the transfer command is part of the same step: its own 150 belongs to it
        if 150 in window:
            window.remove(150)
    # the transfer was over before the ABOR was sent: completed, refused (425) or failed on its own (451)
    after150 = before[before.index(150) + 1 :] if 150 in before else []
    completed_before = started and (place[0] == "done" or any(c in (done_code, 425, 451) for c in after150))
    if place[0] == "handler_gate":
        # nothing to abort yet: a single 226; the command then runs to completion once the back-end answers
        want = [[226, 150, done_code]]
    elif not started:
        want = [[226]]
        if place[0] in ("ticks", "pipe", "pipe_nodata", "nodata", "gate", "sent", "noread", "late_gate"):
            bad.append(("harness", f"transfer was not started: {before + window}"))
    elif completed_before:
        want = [[226]]
    else:
        # either the abort interrupted it (426, 226) or it completed first (done, 226)
        want = [[426, 226], [done_code, 226]]
    ctrl_up = not any(rec["ctrl_eof"] for rec in log)
    if window in want and not case["gates"] and place[0] != "handler_gate":
        # no back-end call is being held: the answer must be complete before the peer does anything more
        # (in particular before a stalled data peer starts reading again)
        i_aft = next(i for i, rec in enumerate(log) if rec["step"] == ["snap", "after"])
        early = [c for rec in log[i_abor : i_aft + 1] for c in rec["codes"]]
        if log[i_abor]["step"][0] in ("ticksend", "pipe") and 150 in early:
            early.remove(150)
        if early != window:
            bad.append(("answered-late", f"ABOR was answered {early} while the peer stayed passive; the rest of {window} came only after the peer read its data connection / sent more"))
    if window in want and started and not completed_before and place[0] != "handler_gate":
        # once the abort has been answered the transfer is over: nothing of it may still be there, whatever the
        # peer or the back-end do afterwards (judged BEFORE suspended back-end calls are released)
        i_aft = next(i for i, rec in enumerate(log) if rec["step"] == ["snap", "after"])
        early = [c for rec in log[i_abor : i_aft + 1] for c in rec["codes"]]
        if log[i_abor]["step"][0] in ("ticksend", "pipe") and 150 in early:
            early.remove(150)
        led = r.snaps["after"]["ledger"]
        stray = [t for t in led["tasks"] if t not in ("Server.dispatcher", "Server.parse_command", "Server.response_writer")]
        closing = any(g[0] in ("close", "t:close") for g in case["gates"])  # the back-end close itself is the slow call
        if early == window and (stray or led["files"]) and not closing:
            bad.append(("leftover-after-answer", f"ABOR has been answered {window} but the aborted transfer still has tasks {stray} / {led['files']} open file(s)"))
    if window not in want:
        bad.append(("answered", f"replies after ABOR {window}, expected one of {want}" + ("" if ctrl_up else "; the control connection was closed")))
    if not ctrl_up:
        bad.append(("session", "the server closed the control connection"))
    # data connection of the transfer
    nd = 0 if place[0] in ("idle", "nodata", "pipe_nodata") else 1  # "stalled": like any placement with a data connection
    if place[0] == "handler_gate":
        started, completed_before = True, True  # for the checks below: the transfer ran undisturbed after the ABOR
    if place[0] == "idle" and place[1] == "pasv_dconn":
        nd = 0  # no transfer: the unused data connection stays for the next transfer
    if nd and r.data:
        d = r.data[0]
        if not (d.eof and d.server_t.closed):
            bad.append(("data-eof", f"data connection of the aborted transfer still open (peer saw EOF: {d.eof}, server side closed: {d.server_t.closed})"))
        if verb == "RETR":
            full = expected_listing(case, "RETR f")[case.get("rest") or 0 :] if place[0] != "noread" else xfer.pattern(300000, sorted(case["files"]).index("f"))
            if full[: len(d.got)] != d.got:
                bad.append(("prefix", f"RETR delivered {len(d.got)} bytes that are not a prefix of the file"))
        elif verb in ("LIST", "MLSD"):
            full = expected_listing(case, cmd_of(verb))
            if full[: len(d.got)] != d.got:
                bad.append(("prefix", f"{verb} delivered bytes that are not a prefix of the listing"))
    # stored bytes
    if verb in ("STOR", "APPE"):
        off = case.get("rest") or 0
        name = "up" if (verb == "STOR" and not off) else "old"
        got = r.store.get(name)
        old = xfer.pattern(case["files"]["old"], sorted(case["files"]).index("old")) if (verb == "APPE" or off) else b""
        if got is not None:
            sent = r.payload[: r.data[0].sent] if r.data else b""
            if verb == "APPE" and not off:
                ok = got[: len(old)] == old and sent[: len(got) - len(old)] == got[len(old) :]
            elif off:
                base = old
                ok = got == base or _overlay_ok(base, off, sent, got)
            else:
                ok = sent[: len(got)] == got
            if not ok:
                bad.append(("prefix", f"{verb}: stored content ({len(got)} bytes) is not old content + a prefix of what the peer sent"))
            # nothing stored after the abort
            a = r.snaps.get("after")
            if a is not None and started and not completed_before:
                w_after = a["done"].get("write", 0)
                w_end = r.snaps["settled"]["done"].get("write", 0)
                if w_end != w_after:
                    bad.append(("stops", f"{verb}: {w_end - w_after} more block(s) stored after the abort was answered"))
    # follow-up
    fol = [rec["codes"] for rec in log[len(log) - n_follow - 1 : -1]]
    if ctrl_up and fol != FOLLOW_CODES[case["follow"]]:
        bad.append(("follow-up", f"follow-up {case['follow']}: replies {fol}, expected {FOLLOW_CODES[case['follow']]}"))
    if ctrl_up and fol == FOLLOW_CODES[case["follow"]]:
        f = case["follow"]
        d = r.data[-1] if r.data else None
        if f in ("retr", "pasv_retr") and d.got != expected_listing(case, "RETR f"):
            bad.append(("follow-up", "follow-up RETR delivered wrong bytes"))
        if f == "rest_retr" and d.got != expected_listing(case, "RETR f")[3:]:
            bad.append(("follow-up", "follow-up REST 3; RETR delivered wrong bytes"))
        if f == "list" and d.got != expected_listing(case, "LIST d"):
            bad.append(("follow-up", "follow-up LIST delivered wrong bytes"))
        if f == "mlsd" and d.got != expected_listing(case, "MLSD d"):
            bad.append(("follow-up", "follow-up MLSD delivered wrong bytes"))
        if f == "stor" and r.store.get("up2") != r.payload[:7]:
            bad.append(("follow-up", "follow-up STOR stored wrong bytes"))
        if f == "appe" and r.store.get("old2") != r.payload[:5]:
            bad.append(("follow-up", "follow-up APPE stored wrong bytes"))
        if f in ("retr", "pasv_retr", "rest_retr", "list", "mlsd", "stor", "appe") and not (d.server_t.closed):
            bad.append(("follow-up", "data connection of the follow-up transfer left open"))
    # what the session holds at the end
    if ctrl_up:
        led = r.final
        extra = [t for t in led["tasks"] if t not in ("Server.dispatcher", "Server.parse_command", "Server.response_writer")]
        want_data = 1 if (place[0] == "idle" and place[1] == "pasv_dconn" and case["follow"] in ("pwd", "abor")) else 0
        if led["data"] != want_data or led["files"] or extra:
            bad.append(("leftover", f"after the abort and the follow-up the session still holds data sockets={led['data']} files={led['files']} tasks={extra}"))
    return bad


def oracle_two(case, r):
    """C14 with TWO transfers alive in the session when ABOR arrives: both are interrupted (426, 226 each), both data
    connections closed, nothing more stored, no late completion reply, the session stays usable"""
    bad = []
    log = r.log
    i_abor = next(i for i, rec in enumerate(log) if rec["step"][:2] == ["cmd", "ABOR"])
    i_aft = next(i for i, rec in enumerate(log) if rec["step"] == ["snap", "after"])
    n_follow = len(FOLLOWUPS[case["follow"]])
    end_window = len(log) - n_follow - 1
    window = [c for rec in log[i_abor:end_window] for c in rec["codes"]]
    early = [c for rec in log[i_abor : i_aft + 1] for c in rec["codes"]]
    n150 = sum(rec["codes"].count(150) for rec in log[:i_abor])
    if n150 != 2:
        return [("harness", f"expected two transfers in progress, saw {n150} x 150")]
    ctrl_up = not any(rec["ctrl_eof"] for rec in log)
    if window != [426, 226, 426, 226]:
        bad.append(("answered", f"two transfers in progress, replies after ABOR {window}, expected 426,226 for each of them"))
    elif not case["gates"] and early != window:
        bad.append(("answered-late", f"ABOR was answered {early} while the peers stayed passive; the rest came only later"))
    if not ctrl_up:
        bad.append(("session", "the server closed the control connection"))
    for i, d in enumerate(r.data[:2]):
        if not (d.eof and d.server_t.closed):
            bad.append(("data-eof", f"data connection of transfer {i + 1} still open after ABOR (peer saw EOF: {d.eof}, server side closed: {d.server_t.closed})"))
    a, st_ = r.snaps.get("after"), r.snaps.get("settled")
    if a and st_ and st_["done"].get("write", 0) != a["done"].get("write", 0):
        bad.append(("stops", "an upload went on storing after the ABOR was answered"))
    fol = [rec["codes"] for rec in log[len(log) - n_follow - 1 : -1]]
    if ctrl_up and fol != FOLLOW_CODES[case["follow"]]:
        bad.append(("follow-up", f"follow-up {case['follow']}: replies {fol}, expected {FOLLOW_CODES[case['follow']]} (a late reply of a transfer that was not stopped?)"))
    if ctrl_up:
        led = r.final
        extra = [t for t in led["tasks"] if t not in ("Server.dispatcher", "Server.parse_command", "Server.response_writer")]
        if led["data"] or led["files"] or extra:
            bad.append(("leftover", f"after the abort and the follow-up the session still holds data sockets={led['data']} files={led['files']} tasks={extra}"))
    return bad


def _overlay_ok(base, off, sent, got):
    """REST off; STOR/APPE: content = base overwritten from `off` by a prefix of what was sent"""
    for m in range(len(sent) + 1):
        buf = bytearray(base)
        if len(buf) < off:
            buf += b"\x00" * (off - len(buf))
        buf[off : off + m] = sent[:m]
        if bytes(buf) == got:
            return True
    return False


def key_for(case, r, aspects):
    """replay key: the call site (model stage abor() found the worker in) + what failed"""
    obs = r.abor_obs[0] if r.abor_obs else None
    stage = None
    if obs and obs["abs"] and obs["abs"]["workers"]:
        stage = obs["abs"]["workers"][0]["stage"]
    a = set(aspects)
    if case["place"][0] == "two":
        return "c14-two-transfers-" + "+".join(sorted(a))
    ctrl_up = not any(rec["ctrl_eof"] for rec in r.log)
    if stage is not None and stage[0] == 1 and stage[1] == 0 and a <= {"answered", "session", "follow-up"} and not ctrl_up:
        return KEY_F2
    if stage == [7] and a == {"answered"} and ctrl_up:
        return KEY_F3
    if stage is not None and stage[0] == 3 and a <= {"data-eof", "leftover"}:
        return KEY_F4
    return "c14-" + "+".join(sorted(a)) + "-at-stage-" + ("none" if stage is None else "-".join(str(x) for x in stage))


# ------------------------------------------------------------------ correspondence
# (first transfer, second transfer): how each is kept alive - by its own peer (upload waiting for bytes, download not
# being read) or by a suspended back-end call (at most one of the two, gates count calls of the whole session)
TWO_PAIRS = [("stor", "stor"), ("stor", "retr_stalled"), ("stor", "retr_gate"), ("retr_stalled", "stor"),
             ("retr_gate", "stor"), ("retr_gate", "retr_stalled"), ("list_gate", "stor"), ("list_gate", "retr_stalled")]


def gen_cases(rng, thorough):
    cases = []
    follows = list(FOLLOWUPS)
    fi = [0]

    def nf():
        fi[0] += 1
        return follows[fi[0] % len(follows)]

    sizes = [0, 1, BLOCK - 1, BLOCK, BLOCK + 1, 2 * BLOCK, 2 * BLOCK + 1, 10]
    for verb in VERBS:
        for pool in (True, False):
            cases.append(abor_case(verb, ("nodata",), follow=nf(), pool=pool))
        cases.append(abor_case(verb, ("pipe_nodata",), follow=nf()))
        cases.append(abor_case(verb, ("pipe",), follow=nf()))
        for n in range(0, 10):
            cases.append(abor_case(verb, ("ticks", n), follow=nf()))
        for f in (follows if thorough else [nf(), nf()]):
            cases.append(abor_case(verb, ("done",), follow=f))
        if verb in ("RETR", "STOR", "APPE"):
            for f in (follows if thorough else [nf(), nf(), nf()]):
                cases.append(abor_case(verb, ("gate", "open", 1), follow=f))
            cases.append(abor_case(verb, ("late_gate", "open", 1), follow=nf()))
            cases.append(abor_case(verb, ("gate", "seek", 1), follow=nf(), rest=2))
            for sz in sizes:
                nb = -(-sz // BLOCK)
                op = "read" if verb == "RETR" else "write"
                top = nb + 1 if verb == "RETR" else nb
                for k in range(1, top + 1):
                    cases.append(abor_case(verb, ("gate", op, k), size=sz, follow=nf()))
                cases.append(abor_case(verb, ("gate", "close", 1), size=sz, follow=nf()))
            if thorough:
                for sz in sizes:
                    cases.append(abor_case(verb, ("late_gate", "close", 1), size=sz, follow=nf()))
                    cases.append(abor_case(verb, ("gate", "seek", 1), size=sz, follow=nf(), rest=1))
        if verb in ("STOR", "APPE"):
            for j in sizes:
                for f in (follows if thorough else [nf()]):
                    cases.append(abor_case(verb, ("sent", j), follow=f))
        cases.append(abor_case(verb, ("handler_gate", "is_dir" if verb in ("STOR", "APPE") else "exists", 1), follow=nf()))
        if verb == "RETR":
            cases.append(abor_case(verb, ("noread",), follow=nf()))
        if verb in ("RETR", "LIST", "MLSD"):
            # the data peer is connected, does not read, and the transport's write buffer is full
            for f in (follows if thorough else [nf(), nf()]):
                cases.append(abor_case(verb, ("stalled",), follow=f))
            # ... combined with a slow n-th back-end call (before / at / after the block at which the socket write suspends)
            for n in ((1, 2, 3, 4, 5, 6, 7, 8) if verb == "RETR" else (1, 2, 3)):
                cases.append(abor_case(verb, ("stalled_gate", "read" if verb == "RETR" else "stat", n), follow=nf()))
        if verb in ("LIST", "MLSD"):
            for op, lo, top in (("list", 1, 4), ("stat", 1, 3)) + ((("exists", 2, 4),) if verb == "LIST" else ()):
                for k in range(lo, top + 1):
                    cases.append(abor_case(verb, ("gate", op, k), follow=nf()))
                    if thorough:
                        cases.append(abor_case(verb, ("late_gate", op, k), follow=nf()))
    # the shipped AsyncPathIO back-end on a scratch directory: the cancel lands while the worker waits for an EXECUTOR job
    # (the n-th blocking pathlib / file call blocks inside its thread)
    disk_follow = ["pwd", "retr", "stor", "list", "abor", "pasv_retr"]
    di = [0]

    def df():
        di[0] += 1
        return disk_follow[di[0] % len(disk_follow)]

    for verb, ops in (("RETR", [("open", 1), ("read", 1), ("read", 2), ("read", 3), ("close", 1)]),
                      ("STOR", [("open", 1), ("write", 1), ("write", 2), ("close", 1)]),
                      ("APPE", [("open", 1), ("write", 1), ("close", 1)]),
                      ("LIST", [("stat", 2), ("stat", 3)])):
        for op, n in ops:
            for f in (disk_follow if thorough else [df()]):
                cases.append(abor_case(verb, ("tgate", op, n), follow=f))
    # two transfers alive in one session (second PASV + data connection + transfer command while the first still runs)
    for first, second in TWO_PAIRS:
        for f in (follows if thorough else [nf()]):
            cases.append(abor_case(None, ("two", first, second), follow=f))
    for where in ("login", "pasv", "pasv_dconn"):
        fs = {"login": ["pwd", "abor"], "pasv": follows if thorough else ["pwd", "retr", "abor", "stor"],
              "pasv_dconn": ["pwd", "abor", "pasv_retr"]}[where]
        for f in fs:
            for pool in (True, False):
                cases.append(abor_case(None, ("idle", where), follow=f, pool=pool))
    return cases


def model_for(case, r, facts):
    """model query for the state abor() acted on, or None when abor() never ran"""
    if not r.abor_obs:
        return None
    obs = r.abor_obs[0]
    if obs["abs"] is None:
        return None
    wabs = xfer.resolve_workers(obs, facts, case["block"], ever_data=bool(r.data))
    # finished workers that the dispatcher has not reaped are part of the state; live ones too
    try:
        evs = xfer.model_trace(obs["abs"], wabs)
    except ValueError:
        return None  # several transfers in stages the canonical trace builder does not cover: oracle only
    return (3, [case["pool"], evs]), wabs, obs


def run_cases(ctx, cases, facts, stream):
    runs, queries = [], []
    for case in cases:
        r = xfer.run_case(case)
        ctx.traces_impl += 1
        q = model_for(case, r, facts) if facts is not None else None
        runs.append((case, r, q))
        if q is not None:
            queries.append(q[0])
    outs = ctx.model(queries) if queries else []
    xs = []
    oi = 0
    for case, r, q in runs:
        verb, place = case["verb"], case["place"]
        ctx.case((stream, verb, tuple(place), case["follow"], case["pool"], case["payload"], case.get("rest"), case["files"].get("f")))
        ctx.count(f"verb:{verb}")
        ctx.count(f"place:{place[0]}" + (f":{place[1]}" if place[0] in ("gate", "late_gate", "idle", "stalled_gate", "tgate") else ""))
        ctx.count(f"follow:{case['follow']}")
        bad = oracle(case, r)
        aspects = [a for a, _ in bad]
        if bad:
            key = key_for(case, r, aspects)
            ctx.count("oracle:" + key)
            ctx.violation("; ".join(m for _, m in bad), {"key": key, "case": case, "what": [m for _, m in bad]})
        else:
            ctx.count("oracle:ok")
        if q is None:
            ctx.count("model:abor-never-ran")
            continue
        mo = outs[oi]
        oi += 1
        (_, marg), wabs, obs = q
        m_alive, m_led, m_rep, m_ws, m_safe, m_led0, m_ws0, _ = mo
        # (a) the canonical trace reproduces the abstract state (stages) and the resources held at that point
        want_stages = [list(w[1]) for w in wabs]
        got_stages = [w[0] for w in m_ws0]
        if want_stages != got_stages:
            ctx.disagree(stream + ":abstract-state", {"case": case}, got_stages, want_stages)
            continue
        for w in m_ws0:
            if not w[5] and w[0][0] not in (0, 7, 8, 9, 10, 11):
                ctx.disagree(stream + ":parked-at-non-suspension-stage", {"case": case}, w[0], "real task is suspended there")
        pre_real = xfer.norm_real(obs["ledger"], r.baseline)
        pre_model = xfer.norm_model(m_led0)
        if pre_real != pre_model:
            ctx.disagree(stream + ":ledger-at-abor", {"case": case, "stages": want_stages}, pre_model, pre_real)
        # (b) what ABOR does: the replies produced from the entry of abor() until nothing more happens without input
        upto = "after" if place[0] == "handler_gate" else "settled"  # handler_gate: the command itself resumes on release
        i_after = next(i for i, rec in enumerate(r.log) if rec["step"] == ["snap", upto])
        n_follow = len(FOLLOWUPS[case["follow"]])
        allcodes = [c for rec in r.log[: i_after + 1] for c in rec["codes"]]
        real_rep = allcodes[obs["replies_so_far"] :]
        alive_real = not any(rec["ctrl_eof"] for rec in r.log[: len(r.log) - n_follow])
        post_real = xfer.norm_real(r.snaps[upto]["ledger"], r.baseline)
        post_model = xfer.norm_model(m_led)
        if [real_rep, alive_real] != [m_rep, bool(m_alive)]:
            ctx.disagree(stream + ":abor-replies", {"case": case, "stages": want_stages}, [m_rep, bool(m_alive)], [real_rep, alive_real])
        elif post_real != post_model:
            ctx.disagree(stream + ":ledger-after-abor", {"case": case, "stages": want_stages}, post_model, post_real)
        # (c) every state abor() is observed in satisfies the hypothesis of C14_abor_any_moment (at_rest, no abandoned
        #     stream), and there the real server meets the oracle
        core_bad = [a for a in aspects if a in ("answered", "session", "data-eof", "leftover")]
        if not bool(m_safe):
            ctx.disagree(stream + ":state-outside-the-theorem", {"case": case, "stages": want_stages}, "at_rest = false", "abor() ran in this state")
        elif core_bad:
            ctx.disagree(stream + ":theorem-applies-but-oracle-fails", {"case": case, "stages": want_stages}, "abor_ok", aspects)
        ctx.count("model-stage:" + ("idle" if not want_stages else "-".join(str(x) for x in want_stages[0][:1])))
        if len(xs) < 30 and want_stages:
            xs.append((3, marg, mo))
        if bad or (want_stages and want_stages[0][0] in (5, 6)):
            ctx.sample({"verb": verb, "place": place, "stage_at_abor": want_stages, "replies_after_abor": real_rep,
                        "model_replies": m_rep, "oracle": aspects})
    return xs


# ------------------------------------------------------------------ the library's own client: Client.abort()
def client_abort_run(direction, k, size):
    """aioftp.Client against the real server: start a streamed transfer, move k blocks, Client.abort(), then use the
    session again (list + full download).  Returns plain observations."""
    import asyncio
    import pathlib

    import aioftp

    from .. import simnet

    obs = {}
    xfer.CTL = xfer.Ctl([["read", k + 1]] if direction == "down" else [])

    async def main(net):
        net.loop.set_exception_handler(lambda l, c: None)
        srv = aioftp.Server([aioftp.User(base_path="/", home_path="/")], path_io_factory=xfer.SpyIO, block_size=BLOCK)
        await srv.start("127.0.0.1", xfer.MAIN_PORT)
        pio = srv.path_io_factory(timeout=None, connection=None)
        f = await aioftp.MemoryPathIO._open(pio, pathlib.PurePosixPath("/f"), "wb")
        f.write(xfer.pattern(size))
        xfer.CTL.handles.clear()
        xfer.CTL.active = True
        try:
            async with aioftp.Client.context("127.0.0.1", xfer.MAIN_PORT, socket_timeout=30) as client:
                if direction == "down":
                    stream = await client.download_stream("f")
                    got = b""
                    for _ in range(k):
                        got += await stream.read(BLOCK)
                    obs["prefix_ok"] = xfer.pattern(size)[: len(got)] == got
                else:
                    stream = await client.upload_stream("up")
                    for i in range(k):
                        await stream.write(xfer.pattern(size)[i * BLOCK : (i + 1) * BLOCK])
                    await net.settle()
                try:
                    await asyncio.wait_for(client.abort(), 20)
                    obs["abort"] = "answered"
                except asyncio.TimeoutError:
                    obs["abort"] = "no reply within 20 virtual seconds"
                except Exception as e:
                    obs["abort"] = "error " + type(e).__name__
                stream.close()
                xfer.CTL.release(None)
                await net.settle()
                try:
                    names = sorted(str(p) for p, _ in await asyncio.wait_for(client.list("/"), 20))
                    buf = b""
                    async with client.download_stream("f") as s2:
                        async for blk in s2.iter_by_block(64):
                            buf += blk
                    obs["follow"] = "ok" if buf == xfer.pattern(size) and "/f" in names else f"wrong follow-up ({names}, {len(buf)} bytes)"
                except Exception as e:
                    obs["follow"] = "error " + type(e).__name__
                if direction == "up":
                    node = pio.get_node(pathlib.PurePosixPath("/up"))
                    stored = node.content.getvalue() if node is not None else b""
                    obs["prefix_ok"] = xfer.pattern(size)[: len(stored)] == stored
                await net.settle()
                obs["server_data_sockets"] = sum(1 for t in net.open_transports("server") if t.listener_port != xfer.MAIN_PORT and not t.closing)
                obs["files"] = len(xfer.CTL.handles)
        finally:
            xfer.CTL.release(None)
            try:
                await asyncio.wait_for(srv.close(), 5)
            except BaseException:
                pass

    simnet.run(main, wall_timeout=60)
    return obs


def client_stream(ctx):
    n = 0
    for direction in ("down", "up"):
        for size in (BLOCK, 2 * BLOCK + 1, 10):
            for k in range(0, -(-size // BLOCK) + 1):
                if direction == "down" and k == 0:
                    continue  # the library's download_stream returns after 150 only; nothing read yet is k = 0 of the raw stream
                obs = client_abort_run(direction, k, size)
                ctx.traces_impl += 1
                n += 1
                ctx.case(("client.abort", direction, size, k))
                want = {"abort": "answered", "follow": "ok", "prefix_ok": True, "server_data_sockets": 0, "files": 0}
                if obs != want:
                    ctx.violation(f"Client.abort() during {direction}load after {k} block(s) of {size} bytes: {obs}",
                                  {"key": f"c14-client-abort-{direction}", "client": [direction, k, size], "what": obs})
    ctx.count("client_abort_cases", n)


def obligations(ctx):
    o = ctx.model([(1, [])])[0]
    flags = {"sound14": o[1], "workers_ok": o[2], "cancel_codes_ok": o[4], "cancelled_task_answered_426_226": o[6],
             "repaired14": o[8], "stream_first_ok": o[9], "abor_ignores_finished_workers": o[10]}
    for n, v in flags.items():
        if not v:
            ctx.obligation_broken("C14_facts_ok:" + n, "the structural fact the C14 theorems rest on no longer holds in server.py")
    ctx.extra["gen_facts"] = {"abor_condition": ["truthiness of extra_workers", "some worker not done", "unknown"][o[5]],
                              "cancelled_task_handled_by_dispatcher": bool(o[6])}


def correspondence(ctx, thorough=None):
    thorough = (ctx.tier == "thorough") if thorough is None else thorough
    ctx.extra["rule"] = (
        "cases = verb (RETR, STOR, APPE, LIST, MLSD) x abort position (after 150 with no data connection; pipelined with the "
        "command; n = 0..9 event-loop iterations after the command; back-end open / seek / every k-th read or write / every "
        "directory step / stat / close suspended; after j bytes of an upload for j around block multiples; against a peer "
        "that does not read, also with the transport's write buffer full (lowered flow-control marks; close() lingers until the "
        "buffer is flushed, as an asyncio transport does); after the completion reply; no transfer at all; TWO transfers alive "
        "in the session, each kept alive by its peer or by a suspended back-end call) x file size around block multiples x follow-up "
        "(PWD, RETR, STOR, APPE, LIST, MLSD, PASV+RETR, REST+RETR, ABOR), with and without a data-port pool.  Each case runs "
        "the real server once; it is non-trivial when its (verb, position, size, follow-up) tuple is new."
    )
    if ctx.exe is not None:
        facts = xfer.facts_of(ctx)
        obligations(ctx)
    else:
        facts = None  # the model did not build (reported as a broken obligation): the oracle still judges every case
    cases = gen_cases(ctx.rng, thorough)
    ctx.count("cases", len(cases))
    xs = run_cases(ctx, cases, facts, "abor")
    client_stream(ctx)
    ok, out = core.vm_crosscheck(EXTRACT, xs[:30]) if ctx.exe is not None else (True, "no model")
    ctx.extra["vm_compute_crosscheck"] = {"cases": len(xs[:30]), "agree": ok}
    if not ok:
        ctx.obligation_broken("extraction-crosscheck", out)
    ctx.extra["level_text"] = LEVEL_TEXT
    ctx.extra["partial_because"] = (
        "which stage a given wall-clock schedule lands in is decided by the asyncio runtime; the model proves the outcome "
        "per stage and the harness enumerates stages with a controllable schedule, it does not prove that the real "
        "scheduler can produce no other interleaving"
    )


def search(ctx):
    if ctx.violations or ctx.tier == "thorough":
        return
    try:
        correspondence(ctx, thorough=True)
    except Exception as e:  # pragma: no cover
        ctx.notes.append(f"search aborted: {e!r}")


# F2, F3 and F4 are repaired: no known() replays; their former witnesses - abor_case(v, ("nodata",)),
# abor_case(v, ("ticks", 0..4)) / ("pipe",), abor_case(v, ("gate", "open", 1)) - are ordinary corpus cases of
# gen_cases and must satisfy the oracle (keys KEY_F2 / KEY_F3 / KEY_F4 are no longer listed: a return is a VIOLATION)


def replay(ctx, data):
    rp = data.get("replay", {})
    case = rp.get("case")
    if case is None and "client" in rp:
        obs = client_abort_run(*rp["client"])
        print("Client.abort() run:", rp["client"], obs)
        return obs == {"abort": "answered", "follow": "ok", "prefix_ok": True, "server_data_sockets": 0, "files": 0}
    if case is None:
        print("replay payload:", json.dumps(data)[:2000])
        return False
    r = xfer.run_case(case)
    for rec in r.log:
        print("  ", rec["step"], rec["lines"], "CONTROL-EOF" if rec["ctrl_eof"] else "")
    if r.abor_obs:
        print("state abor() acted on:", xfer.strip_obs(r.abor_obs[0])["abs"])
    print("data connections (bytes received, EOF seen, server side closed):", [(len(d.got), d.eof, d.server_t.closed) for d in r.data])
    print("final ledger:", r.final)
    bad = oracle(case, r)
    for a, m in bad:
        print("ORACLE:", a, m)
    return not bad
