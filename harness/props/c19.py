"""C19 — malformed input from the peer is contained on both sides.

Correspondence of coq/Model/Parsers.v with the real client parsers (value-exact where the model is
exact, exception class everywhere), the real Client.list() driven end to end through a loopback
session against a scripted fake FTP server, the real Server.parse_command, and live hostile
sessions against a real aioftp.Server with a well-behaved witness client.  The property oracle
(class in allowed set, terminated, unparseable line reported, witness undisturbed) is evaluated on
the implementation's outputs, independently of the model."""
import asyncio
import collections
import datetime
import gc
import logging
import pathlib

import aioftp
from aioftp import errors

from .. import core, sx
from . import c19gen as G

ID = "C19"
EXTRACT = "ExC19"
TECHNIQUE = (
    "Coq proof (monadic Ok|Exc models of every client parser, exception-class inclusion lemmas composed through bind, "
    "measure-based termination of the lister loop, structural termination of the reply loop, locality of the server's reaction) "
    "tied to the code by a grammar-aware mutational differential stream: model vs real function input by input (value where exact, "
    "exception class everywhere), Client.list() end to end over loopback against a scripted fake FTP server, hostile loopback "
    "sessions against the real aioftp.Server with a witness client"
)
LEVEL_TEXT = (
    "Proved for every byte string / line list, codec, line limit and date parser inside the funnel (Closed under the global context): "
    "C19_list_line_value_error_only, C19_list_line_typed, C19_parsers_ordinary, C19_reply_loop_terminates, C19_reply_loop_is_framing, "
    "C19_lister_progress, C19_lister_terminates (every finite script of server answers), C19_dots_never_yielded_nor_queued, "
    "C19_lister_classes, C19_server_line_contained (+ the closed obligation C19_server_dispatcher_obligation on the except ladder and "
    "finally block regenerated from server.py). 'Reports a line it cannot parse' / 'always ValueError' is REFUTED by three witnesses "
    "replayed on the real code (C19_unparseable_reported_refuted, C19_listing_value_error_refuted, C19_list_nameless_dropped_refuted: "
    "known findings F12a/b/c) and the carved C19_unparseable_reported_partial / C19_listing_value_error_partial are proved. The model is "
    "hand-written; strptime-based date parsing is a parameter of the model; the tie is a differential correspondence (value-exact where "
    "the model is exact, exception class everywhere, about 4*10^4 cases per quick run), so the assurance is a proof about the model "
    "plus sampled agreement of model and code."
)
LEVEL_NOTE = (
    "Trusted: Coq kernel; extraction cross-checked with vm_compute; harness. Parameters of the model (assumed, exercised input by input): "
    "datetime.strptime / parse_ls_date raise only ValueError; modelled not verified: CPython str/bytes.decode/int/re/pathlib semantics "
    "(hand-written matchers for the two regular expressions), asyncio.StreamReader.readline (limit => ValueError), the asyncio runtime "
    "of the live sessions."
)
TRUSTED = [
    "parameter of the model: BaseClient.parse_ls_date and strptime('%m/%d/%Y %I:%M %p') are functions text -> Ok str | ValueError "
    "(their outcome on the exact argument predicted by the model is supplied by the harness from the real library, and the class is "
    "checked on every input)",
    "asyncio.StreamReader.readline is a function of the byte stream and raises ValueError exactly when a line's content exceeds the "
    "limit (exercised with explicit segmentations and limits 64 and 65536)",
]
ASSUMPTIONS = [
    "modelled, not verified: CPython 3.12 str methods, strict utf-8 / latin-1 decode, int(str) incl. the 4300-digit limit, the two "
    "regular expressions of parse_pasv_response / parse_epsv_response, PurePosixPath str/join; str.lower()'s final-sigma rule is "
    "outside the model (inputs with U+03A3 in an MLSx fact name are compared on path and class only)",
    "the server-side theorem is about the dispatcher's except ladder as data; that asyncio delivers parse_command's exception "
    "through task.result() and runs `finally` is exercised by the live sessions, not proved",
]

EXC = {1: "ValueError", 2: "KeyError", 3: "IndexError", 4: "UnicodeDecodeError", 5: "StatusCodeError", 6: "ConnectionResetError",
       7: "AttributeError", 8: "TypeError", 9: "OverflowError", 10: "TimeoutError", 11: "PathIOError", 12: "CancelledError"}
CODE = {v: k for k, v in EXC.items()}
DATA_LIMIT = 2**16


# ----------------------------------------------------------------------------- helpers
def call(f, *a):
    try:
        return ("ok", f(*a)), None
    except Exception as e:  # noqa: BLE001 - the class is the observation
        return ("exc", type(e).__name__), e


def big_str(n):
    """str(n) without CPython's 4300-digit conversion limit (the limit itself is part of what is under test)"""
    if n < 0:
        return "-" + big_str(-n)
    parts, base = [], 10**1000
    while n >= base:
        n, r = divmod(n, base)
        parts.append(str(r).zfill(1000))
    parts.append(str(n))
    return "".join(reversed(parts))


def m_res(m, conv=lambda v: v):
    """decoded model `result` -> ("ok", value) | ("exc", class name)"""
    if m[0] == 0:
        return ("ok", conv(m[1]))
    return ("exc", EXC.get(m[1], f"?{m[1]}"))


def m_entry(v):
    return (sx.txt(v[0]), {sx.txt(k): sx.txt(val) for k, val in v[1]})


def i_entry(v):
    p, info = v
    return (str(p), {k: str(val) for k, val in info.items()})


def enc_oracle(o):
    kind, val = o
    if kind == "ok":
        return [0, val]
    return [-1, CODE.get(val, 7)]


def win_oracle(arg):
    try:
        with aioftp.common.setlocale("C"):
            d = datetime.datetime.strptime(arg, "%m/%d/%Y %I:%M %p")
        return ("ok", d.strftime("%Y%m%d%H%M00"))
    except Exception as e:  # noqa: BLE001
        return ("exc", type(e).__name__)


class DateRecorder:
    """wraps the real parse_ls_date on one client instance: records argument and outcome"""

    def __init__(self, client):
        self.calls = []
        self.cache = {}
        client.parse_ls_date = self

    def __call__(self, s, **kw):
        if s not in self.cache:
            try:
                self.cache[s] = ("ok", aioftp.Client.parse_ls_date(s, **kw))
            except Exception as e:  # noqa: BLE001
                self.cache[s] = ("exc", e)
        self.calls.append(s)
        kind, v = self.cache[s]
        if kind == "exc":
            raise v
        return v

    def outcome(self, s):
        kind, v = self.cache[s]
        return (kind, v) if kind == "ok" else ("exc", type(v).__name__)


def split_lf(b):
    out, i = [], 0
    while i < len(b):
        j = b.find(b"\n", i)
        if j < 0:
            out.append(b[i:])
            break
        out.append(b[i : j + 1])
        i = j + 1
    return out


# ----------------------------------------------------------------------------- (a) listing lines
def listing_lines(ctx, n):
    rng = ctx.rng
    cases = []  # (bytes, enc, kind)
    seeds = []
    for _ in range(n):
        r = rng.random()
        b = G.unix_line(rng) if r < 0.4 else G.win_line(rng) if r < 0.65 else G.mlsx_line(rng)
        fam = "unix" if r < 0.4 else "windows" if r < 0.65 else "mlsx"
        if rng.random() < 0.35:
            cases.append((b, 0, f"{fam}:grammar"))
        else:
            mb, kind = G.mutate(rng, b, long_ok=True)
            cases.append((mb, 0, f"{fam}:{kind}"))
        if len(seeds) < 12 and rng.random() < 0.02:
            seeds.append((b, fam))
    # truncation at every position of a few valid lines
    fixed = [(b"-rw-r--r--   1 owner group 1234 Jan 03 12:29 name.txt\r\n", "unix"), (b"lrwxrwxrwx 1 a b 11 Feb 29 10:00 link -> /target/'\r\n", "unix"),
             (b"drwxr-xr-x 2 0 0 4096 Nov 18  1958 .\r\n", "unix"), (b"10/27/2016  06:02 PM    <DIR>          dir\r\n", "windows"),
             (b"10/27/2016  06:02 AM    1,024 file.txt\r\n", "windows"), (b"Type=dir;Modify=20200101000000; sub dir\r\n", "mlsx"),
             ("type=file;size=1; é日本\r\n".encode(), "mlsx")]
    for b, fam in fixed + seeds:
        for i in range(len(b) + 1):
            cases.append((b[:i], 0, f"{fam}:truncate-every-position"))
    # the same bytes under latin-1 (never a decode error) for a slice
    for b, _, kind in cases[: n // 8]:
        cases.append((b, 1, "latin-1:" + kind.split(":")[1]))
    specials = [b"", b"\r\n", b" ", b"total 12\r\n", b"garbage\r\n", b"-", b"d", b"l", b"M", b" M ", b"\xff", b"-rwxrwxrw",
                b"-rwxrwxrw  1 a b 1 Jan  1 00:00 x", b"drwxr-xr-x 2 0 0 4096 Nov 18 12:29\r\n", b"10/27/2016  06:02 PM    <DIR> \r\n"]
    cases += [(b, 0, "special") for b in specials]

    clients = {0: aioftp.Client(encoding="utf-8"), 1: aioftp.Client(encoding="latin-1")}
    recs = {e: DateRecorder(c) for e, c in clients.items()}
    probes = ctx.model([(1, [e, b]) for b, e, _ in cases])
    final_in, impl = [], []
    seen_cls = collections.Counter()
    for (b, e, kind), pr in zip(cases, probes):
        c, rec = clients[e], recs[e]
        rec.cache.clear()
        fam = kind.split(":")[0]
        ctx.count("mutation:" + kind.split(":")[-1])
        ctx.count("family:" + fam)
        # real runs
        rec.calls = []
        ru, eu = call(c.parse_list_line_unix, b)
        unix_calls = list(rec.calls)
        rw, ew = call(c.parse_list_line_windows, b)
        rl, el = call(c.parse_list_line, b)
        rm, em = call(c.parse_mlsx_line, b)
        ctx.traces_impl += 4
        # date oracles on the argument the model predicts
        pu, pw = m_res(pr[0], sx.txt), m_res(pr[1], sx.txt)
        o1 = ("exc", "ValueError")
        if pu[0] == "ok":
            if unix_calls[:1] != [pu[1]]:
                ctx.disagree("parse_ls_date-argument", repr(b), pu[1], unix_calls[:1])
            else:
                o1 = rec.outcome(pu[1])
                if o1[0] == "exc" and o1[1] != "ValueError":
                    ctx.violation("parse_ls_date raised something other than ValueError (model parameter assumption)",
                                  {"key": "c19-ls-date-class:" + o1[1], "arg": pu[1]})
        elif unix_calls:
            ctx.disagree("parse_ls_date-argument", repr(b), None, unix_calls[:1])
        o2 = win_oracle(pw[1]) if pw[0] == "ok" else ("exc", "ValueError")
        if o2[0] == "exc" and o2[1] != "ValueError":
            ctx.violation("strptime raised something other than ValueError (model parameter assumption)",
                          {"key": "c19-strptime-class:" + o2[1], "arg": pw[1]})
        final_in += [(2, [e, b, enc_oracle(o1)]), (3, [e, b, enc_oracle(o2)]), (4, [e, b, enc_oracle(o1), enc_oracle(o2)]), (5, [e, b])]
        impl.append((ru, rw, rl, rm))
        # ---- property oracle on the implementation
        for name, r, ex in (("unix", ru, eu), ("windows", rw, ew)):
            if ex is not None and not isinstance(ex, (ValueError, KeyError, IndexError)):
                ctx.violation(f"parse_list_line_{name} raised {r[1]}, which the (ValueError, KeyError, IndexError) funnel does not convert",
                              {"key": f"c19-{name}-escapes-funnel:{r[1]}", "line": list(b), "encoding": e})
        if el is not None and not isinstance(el, ValueError):
            ctx.violation(f"parse_list_line raised {rl[1]} instead of the documented ValueError",
                          {"key": f"c19-list-line-class:{rl[1]}", "line": list(b), "encoding": e})
        if el is None:
            p, info = rl[1]
            if not (isinstance(p, pathlib.PurePosixPath) and isinstance(info, dict) and info.get("type") in ("file", "dir", "unknown")):
                ctx.violation("parse_list_line returned an ill-typed result", {"key": "c19-list-line-illtyped", "line": list(b), "encoding": e})
        if em is not None and not isinstance(em, ValueError):
            ctx.violation(f"parse_mlsx_line raised {rm[1]}", {"key": f"c19-mlsx-class:{rm[1]}", "line": list(b), "encoding": e})
        for nm, r in (("unix", ru), ("windows", rw), ("list_line", rl), ("mlsx", rm)):
            seen_cls[f"{nm}:{r[1] if r[0] == 'exc' else 'ok'}"] += 1
    outs = ctx.model(final_in)
    xcheck = []
    for i, ((b, e, kind), (ru, rw, rl, rm)) in enumerate(zip(cases, impl)):
        ctx.case(("line", b, e))
        mu, mw, ml, mm = (m_res(outs[4 * i + k], m_entry) for k in range(4))
        for name, m, r in (("parse_list_line_unix", mu, ru), ("parse_list_line_windows", mw, rw), ("parse_list_line", ml, rl)):
            ic = ("ok", i_entry(r[1])) if r[0] == "ok" else r
            if m != ic:
                ctx.disagree(name, {"line": repr(b), "enc": e}, str(m)[:300], str(ic)[:300])
        ic = ("ok", i_entry(rm[1])) if rm[0] == "ok" else rm
        if mm != ic:
            sigma = rm[0] == "ok" and "Σ" in b.decode("utf-8" if e == 0 else "latin-1", "replace")
            if sigma and mm[0] == "ok" and mm[1][0] == ic[1][0]:
                ctx.count("mlsx:final-sigma-excluded")
            else:
                ctx.disagree("parse_mlsx_line", {"line": repr(b), "enc": e}, str(mm)[:300], str(ic)[:300])
        if len(xcheck) < 30 and len(b) < 80 and i % 97 == 0:
            xcheck += [(final_in[4 * i + k][0], final_in[4 * i + k][1], outs[4 * i + k]) for k in (2, 3)]
    for k, v in sorted(seen_cls.items()):
        ctx.count("outcome:" + k, v)
    ctx.sample({"stream": "listing-line", "line": repr(cases[1][0]), "kind": cases[1][2]})
    return xcheck


# ----------------------------------------------------------------------------- (b) small pure parsers
def small_parsers(ctx, n):
    rng = ctx.rng
    c = aioftp.Client()
    xcheck = []
    # parse_unix_mode: exhaustive short strings + mutated valid modes
    import itertools

    modes = [""] + ["".join(p) for k in (1, 2, 3) for p in itertools.product("rwx-st?", repeat=k)]
    for _ in range(n):
        m = G.perm(rng)
        if rng.random() < 0.5:
            m, _ = G.mutate_text(rng, m)
        modes.append(m)
    for base in ("rwxrwxrwx", "rw-r--r--", "rwsr-sr-t"):
        for i in range(9):
            for ch in "rwx-stST? é":
                modes.append(base[:i] + ch + base[i + 1 :])
            modes.append(base[:i])
    outs = ctx.model([(0, [m]) for m in modes])
    for m, o in zip(modes, outs):
        ctx.case(("mode", m))
        r, ex = call(c.parse_unix_mode, m)
        ctx.traces_impl += 1
        if m_res(o) != r:
            ctx.disagree("parse_unix_mode", m, m_res(o), r)
        if ex is not None and not isinstance(ex, (KeyError, IndexError, ValueError)):
            ctx.violation(f"parse_unix_mode raised {r[1]}", {"key": f"c19-unix-mode-class:{r[1]}", "mode": m})
        ctx.count("unix_mode:" + (r[1] if r[0] == "exc" else "ok"))
    xcheck += [(0, [m], o) for m, o in list(zip(modes, outs))[:: max(1, len(modes) // 10)]][:10]

    def stream(name, fn, gen, impl, conv, allowed):
        cases = []
        for _ in range(n):
            s = gen(rng)
            kind = "grammar"
            if rng.random() < 0.6:
                s, kind = G.mutate_text(rng, s)
                if rng.random() < 0.3:
                    s, _ = G.mutate_text(rng, s)
            cases.append((s, kind))
        outs = ctx.model([(fn, [s]) for s, _ in cases])
        for (s, kind), o in zip(cases, outs):
            ctx.case((name, s))
            r, ex = call(impl, s)
            ctx.traces_impl += 1
            mo = m_res(o, conv) if fn != 8 else ("ok", sx.txt(o))
            if mo != r:
                ctx.disagree(name, s[:200], str(mo)[:200], str(r)[:200])
            if ex is not None and not isinstance(ex, allowed):
                ctx.violation(f"{name} raised {r[1]}, not an expected ordinary exception", {"key": f"c19-{name}-class:{r[1]}", "payload": s})
            ctx.count(f"{name}:{r[1] if r[0] == 'exc' else 'ok'}")
            ctx.count("mutation:" + kind)
        xcheck.extend([(fn, [s], o) for (s, _), o in list(zip(cases, outs))[:8] if len(s) < 60])
        ctx.sample({"stream": name, "payload": cases[0][0]})

    stream("parse_pasv_response", 6, G.pasv_payload, lambda s: (lambda r: (r[0], big_str(r[1])))(c.parse_pasv_response(s)), lambda v: (sx.txt(v[0]), sx.txt(v[1])), (ValueError, IndexError))
    stream("parse_epsv_response", 7, G.epsv_payload, lambda s: (lambda r: (r[0], big_str(r[1])))(c.parse_epsv_response(s)), lambda v: (None, sx.txt(v)), (ValueError, IndexError))
    stream("parse_directory_response", 8, G.dir_payload, lambda s: str(c.parse_directory_response(s)), None, ())

    # library models underneath: int(), PurePosixPath, decode
    ints = [G.mutate_text(rng, rng.choice(["12", " 7 ", "-3", "+4_0", "٣٤", "1_2_3", "9" * 20]))[0] for _ in range(n)] + \
           ["", "_", "+", "-", "1__2", "_1", "1_", "0" * 4300, "0" * 4301, "0_" * 4299 + "1", "0_" * 4300 + "1", "9" * 60, "\x1c5", "\x855", "5\x00", "\x7f5", "²", "−5"]
    outs = ctx.model([(13, [s]) for s in ints])
    for s, o in zip(ints, outs):
        ctx.case(("int", s))
        r, _ = call(lambda x: big_str(int(x)), s)
        mo = ("ok", sx.txt(o[0])) if o else ("exc", "ValueError")
        if mo != r:
            ctx.disagree("int", s[:80], str(mo)[:80], str(r)[:80])
    paths = [G.mutate_text(rng, rng.choice(G.NAMES + ["/a/b", "//a", "///a", "a//b/./c/", "./..", ".//"]))[0] for _ in range(n)] + G.NAMES + ["///", "//", "/."]
    outs = ctx.model([(14, [s]) for s in paths])
    for s, o in zip(paths, outs):
        ctx.case(("norm", s))
        if sx.txt(o) != str(pathlib.PurePosixPath(s)):
            ctx.disagree("PurePosixPath", s, sx.txt(o), str(pathlib.PurePosixPath(s)))
    pairs = [(rng.choice(paths), rng.choice(paths)) for _ in range(n)]
    outs = ctx.model([(15, [a, b]) for a, b in pairs])
    for (a, b), o in zip(pairs, outs):
        ctx.case(("div", a, b))
        want = str(pathlib.PurePosixPath(a) / pathlib.PurePosixPath(b))
        if sx.txt(o) != want:
            ctx.disagree("PurePosixPath./", [a, b], sx.txt(o), want)
    blobs = [bytes(rng.randrange(256) for _ in range(rng.randint(0, 6))) for _ in range(n)] + \
            [G.mutate(rng, "é日本😀x".encode(), False)[0] for _ in range(n)] + [b"\xed\x9f\xbf", b"\xed\xa0\x80", b"\xf4\x8f\xbf\xbf", b"\xf4\x90\x80\x80", b"\xc0\x80", b"\xe0\x9f\xbf", b"\xf0\x8f\xbf\xbf"]
    outs = ctx.model([(16, [0, b]) for b in blobs])
    for b, o in zip(blobs, outs):
        ctx.case(("utf8", b))
        r, _ = call(b.decode, "utf-8")
        mo = ("ok", sx.txt(o[0])) if o else ("exc", "UnicodeDecodeError")
        if mo != r:
            ctx.disagree("utf-8 decode", repr(b), str(mo), str(r))
    ctx.count("library:int", len(ints))
    ctx.count("library:pathlib", len(paths) + len(pairs))
    ctx.count("library:utf8", len(blobs))

    # Client.stat, MLST half
    infos = []
    for _ in range(n // 2):
        k = rng.choice([0, 1, 2, 2, 2, 3])
        infos.append([rng.choice(["-Start", " End", "", " ok"]) if i != 1 else " " * rng.randint(0, 2) + G.mlsx_line(rng).decode("utf-8", "replace").rstrip() for i in range(k)])
    outs = ctx.model([(11, [inf]) for inf in infos])

    class StatClient(aioftp.Client):
        async def command(self, *a, **k):
            return aioftp.Code("250"), self._info

    sc = StatClient()
    loop = asyncio.new_event_loop()
    for inf, o in zip(infos, outs):
        ctx.case(("stat", tuple(inf)))
        sc._info = inf
        r, ex = call(lambda: loop.run_until_complete(sc.stat("x")))
        ctx.traces_impl += 1
        mo = m_res(o, lambda d: {sx.txt(k): sx.txt(v) for k, v in d})
        if mo != r and not (r[0] == "ok" and "Σ" in "".join(inf)):
            ctx.disagree("stat-mlst", inf, str(mo)[:200], str(r)[:200])
        if ex is not None and not isinstance(ex, (IndexError, ValueError)):
            ctx.violation(f"Client.stat raised {r[1]} on an MLST reply", {"key": f"c19-stat-class:{r[1]}", "info": inf})
        ctx.count("stat_mlst:" + (r[1] if r[0] == "exc" else "ok"))
    loop.close()
    return xcheck


# ----------------------------------------------------------------------------- (b') value-exactness on well-formed input
RW = {"rw": 6, "r-": 4, "-w": 2, "--": 0}


def mode_value(m):
    """independent statement of what a valid nine-character mode denotes (None = not valid)"""
    if len(m) != 9 or any(m[i : i + 2] not in RW for i in (0, 3, 6)) or m[2] not in "sx-" or m[5] not in "sx-" or m[8] not in "tx-":
        return None
    v = (RW[m[0:2]] << 6) | (RW[m[3:5]] << 3) | RW[m[6:8]]
    v |= {"s": 0o4100, "x": 0o100, "-": 0}[m[2]] | {"s": 0o2010, "x": 0o010, "-": 0}[m[5]] | {"t": 0o1000, "x": 0o001, "-": 0}[m[8]]
    return v


def wellformed_exact(ctx, n):
    """Inputs that satisfy exactly the hypotheses of the C19_*_exact theorems; the expected value is computed from the COMPONENTS
    (independently of model and implementation); both the model and the real parser must return it."""
    rng = ctx.rng
    c = aioftp.Client()
    xcheck = []

    def check(name, inp, expected, mo, r):
        ctx.case(("wf", name, inp if isinstance(inp, str) else bytes(inp)))
        ctx.count("wellformed:" + name)
        if mo != expected:
            ctx.disagree("wellformed-exact-model:" + name, repr(inp)[:300], str(mo)[:300], str(expected)[:300])
        if r != expected:
            ctx.disagree("wellformed-exact:" + name, repr(inp)[:300], str(expected)[:300], str(r)[:300])

    # MLSx
    cases = [G.wf_mlsx(rng) for _ in range(n)]
    outs = ctx.model([(5, [0, line.encode()]) for _, line in cases])
    for ((facts, name), line), o in zip(cases, outs):
        exp = {}
        for k, v in facts:
            exp[k.lower()] = v
        r, _ = call(c.parse_mlsx_line, line.encode())
        ctx.traces_impl += 1
        check("mlsx", line, ("ok", (str(pathlib.PurePosixPath(name)), exp)), m_res(o, m_entry), ("ok", i_entry(r[1])) if r[0] == "ok" else r)
    xcheck += [(5, [0, cases[0][1].encode()], outs[0])]
    # EPSV
    cases = [G.wf_epsv(rng) for _ in range(n)]
    outs = ctx.model([(7, [s]) for _, s in cases])
    for (ds, s), o in zip(cases, outs):
        r, _ = call(lambda x: (lambda v: (v[0], big_str(v[1])))(c.parse_epsv_response(x)), s)
        ctx.traces_impl += 1
        check("epsv", s, ("ok", (None, big_str(int(ds)))), m_res(o, lambda v: (None, sx.txt(v))), r)
    # PASV
    cases = [G.wf_pasv(rng) for _ in range(n)]
    outs = ctx.model([(6, [s]) for _, s in cases])
    for (ds, s), o in zip(cases, outs):
        nums = [int(d) for d in ds]
        exp = (".".join(big_str(v) for v in nums[:4]), big_str((nums[4] << 8) | nums[5]))
        r, _ = call(lambda x: (lambda v: (v[0], big_str(v[1])))(c.parse_pasv_response(x)), s)
        ctx.traces_impl += 1
        check("pasv", s, ("ok", exp), m_res(o, lambda v: (sx.txt(v[0]), sx.txt(v[1]))), r)
    # 257
    cases = [G.wf_dir(rng) for _ in range(n)]
    outs = ctx.model([(8, [s]) for _, s in cases])
    for (d, s), o in zip(cases, outs):
        r, _ = call(lambda x: str(c.parse_directory_response(x)), s)
        ctx.traces_impl += 1
        check("257", s, ("ok", str(pathlib.PurePosixPath(d))), ("ok", sx.txt(o)), r)
    # unix ls -l line (not a link)
    cases = []
    while len(cases) < n:
        comp, line = G.wf_unix(rng)
        if mode_value(comp[1]) is not None:
            cases.append((comp, line))
    rec = DateRecorder(c)
    ins, exps, impl = [], [], []
    for (t, m, links, owner, group, size, date, name), line in cases:
        b = line.encode()
        rec.calls = []
        r, _ = call(c.parse_list_line_unix, b)
        ctx.traces_impl += 1
        if rec.calls[:1] != [date.strip()]:
            ctx.disagree("wellformed-exact:unix-date-argument", repr(line), date.strip(), rec.calls[:1])
            o1 = ("exc", "ValueError")
        else:
            o1 = rec.outcome(date.strip())
        if o1[0] == "ok":
            ty = {"-": "file", "d": "dir"}.get(t, "unknown")
            exp = ("ok", (str(pathlib.PurePosixPath(name)), {"type": ty, "unix.mode": str(mode_value(m)), "unix.links": links, "unix.owner": owner,
                                                           "unix.group": group, "size": size, "modify": o1[1]}))
        else:
            exp = o1
        ins.append((2, [0, b, enc_oracle(o1)]))
        exps.append(exp)
        impl.append(("ok", i_entry(r[1])) if r[0] == "ok" else r)
    outs = ctx.model(ins)
    for (comp, line), o, exp, r in zip(cases, outs, exps, impl):
        check("unix", line, exp, m_res(o, m_entry), r)
        ctx.count("wellformed:unix-date-" + exp[0])
    xcheck += [(ins[0][0], ins[0][1], outs[0])]
    ctx.sample({"stream": "wellformed-exact", "unix": cases[0][1], "expected": str(exps[0])[:200]})
    return xcheck


# ----------------------------------------------------------------------------- (c) reply streams, parse_command
class NullWriter:
    def close(self):
        pass

    def write(self, b):
        pass

    async def drain(self):
        pass


async def feed_run(make_coro, segments, limit):
    reader = asyncio.StreamReader(limit=limit)
    stream = aioftp.StreamIO(reader, NullWriter())
    task = asyncio.ensure_future(make_coro(stream))
    await asyncio.sleep(0)
    for seg in segments:
        if task.done():
            break
        reader.feed_data(seg)
        for _ in range(3):
            await asyncio.sleep(0)
    if not task.done():
        reader.feed_eof()
        for _ in range(8):
            if task.done():
                break
            await asyncio.sleep(0)
    if not task.done():
        task.cancel()
        return ("hang", None)
    try:
        return ("ok", task.result())
    except Exception as e:  # noqa: BLE001
        return ("exc", e)


def segs_of(rng, data):
    r = rng.random()
    if r < 0.4 or len(data) < 2:
        return [data]
    if r < 0.6 and len(data) <= 64:
        return [data[i : i + 1] for i in range(len(data))]
    cuts = sorted(rng.sample(range(1, len(data)), min(len(data) - 1, rng.randint(1, 4))))
    return [data[a:b] for a, b in zip([0] + cuts, cuts + [len(data)])]


def reply_and_command_streams(ctx, n):
    rng = ctx.rng
    loop = asyncio.new_event_loop()
    client = aioftp.Client()
    server = aioftp.Server()
    xcheck = []
    # parse_response
    cases = []
    for _ in range(n):
        b = G.reply_stream(rng)
        kind = "grammar"
        if rng.random() < 0.5:
            b, kind = G.mutate(rng, b, long_ok=False)
        cases.append((b, rng.choice([64, 64, 2**16]), kind))
    cases += [(b"200 " + b"x" * (DATA_LIMIT - 4) + b"\n", DATA_LIMIT, "at-limit"), (b"200 " + b"x" * (DATA_LIMIT - 3) + b"\n", DATA_LIMIT, "over-limit"),
              (b"200-" + b"x" * 70000, DATA_LIMIT, "over-limit-no-lf"), (b"", 64, "eof"), (b"200", 64, "eof-mid-line"), (b"\xff\r\n", 64, "non-utf8")]
    outs = ctx.model([(9, [0, lim, b]) for b, lim, _ in cases])
    for (b, lim, kind), o in zip(cases, outs):
        ctx.case(("reply", b, lim))
        ctx.count("mutation:" + kind)

        def mk(stream):
            client.stream = stream
            return client.parse_response()

        kind_r, val = loop.run_until_complete(feed_run(mk, segs_of(rng, b), lim))
        ctx.traces_impl += 1
        if kind_r == "hang":
            ctx.violation("parse_response did not terminate on a finite stream", {"key": "c19-reply-hang", "stream": list(b), "limit": lim})
            continue
        if kind_r == "ok":
            ic = [0, str(val[0]), list(val[1])]
        else:
            ic = [-1, type(val).__name__]
            if not isinstance(val, (errors.StatusCodeError, ConnectionResetError, ValueError)):
                ctx.violation(f"parse_response raised {ic[1]}", {"key": f"c19-reply-class:{ic[1]}", "stream": list(b), "limit": lim})
        mc = [0, sx.txt(o[1]), sx.txts(o[2])] if o[0] == 0 else [-1, EXC.get(o[1][1], "?")]
        if mc != ic:
            ctx.disagree("parse_response", {"stream": repr(b)[:200], "limit": lim}, str(mc)[:200], str(ic)[:200])
        ctx.count("reply:" + (ic[1] if ic[0] == -1 else "ok"))
        if len(xcheck) < 12 and len(b) < 60:
            xcheck.append((9, [0, lim, b], o))
    # Server.parse_command
    cases = []
    for _ in range(n):
        b = G.control_line(rng)
        kind = "grammar"
        if rng.random() < 0.5:
            b, kind = G.mutate(rng, b, long_ok=False)
        cases.append((b, rng.choice([64, 64, 2**16]), kind))
    cases += [(b"", 64, "eof"), (b"USER", 64, "eof-mid-line"), (b"\xff\xfe\r\n", 64, "non-utf8"), (b"A" * 70000, DATA_LIMIT, "over-limit-no-lf"),
              (b"A" * 70000 + b"\r\n", DATA_LIMIT, "over-limit"), (b"NOOP " + b"A" * (DATA_LIMIT - 5) + b"\n", DATA_LIMIT, "at-limit"), (b"\x00\x00\r\n", 64, "nul")]
    outs = ctx.model([(12, [0, lim, b]) for b, lim, _ in cases])
    for (b, lim, kind), o in zip(cases, outs):
        ctx.case(("command", b, lim))
        ctx.count("mutation:" + kind)
        kind_r, val = loop.run_until_complete(feed_run(lambda s: server.parse_command(s), segs_of(rng, b), lim))
        ctx.traces_impl += 1
        if kind_r == "hang":
            ctx.violation("parse_command did not terminate on a finite stream", {"key": "c19-command-hang", "stream": list(b)})
            continue
        ic = [0, val[0], val[1]] if kind_r == "ok" else [-1, type(val).__name__]
        mc = [0, sx.txt(o[1]), sx.txt(o[2])] if o[0] == 0 else [-1, EXC.get(o[1][1], "?")]
        if mc != ic:
            ctx.disagree("parse_command", {"stream": repr(b)[:200], "limit": lim}, str(mc)[:200], str(ic)[:200])
        if o[0] == -1 and o[2] != 2:
            ctx.obligation_broken("dispatcher-reaction", f"model ladder does not end the session on {mc}")
        ctx.count("command:" + (ic[1] if ic[0] == -1 else "ok"))
        if len(xcheck) < 24 and len(b) < 60:
            xcheck.append((12, [0, lim, b], o))
    loop.close()
    return xcheck


# ----------------------------------------------------------------------------- (d) Client.list end to end
class FakeFTP:
    """A plain asyncio FTP server: answers login / TYPE / EPSV / MLSD / LIST; the k-th listing
    request of a control connection is answered from that connection's script."""

    def __init__(self):
        self.scripts = collections.deque()
        self.server = None
        self.tasks = set()

    async def start(self):
        self.server = await asyncio.start_server(self._handle, "127.0.0.1", 0)
        self.port = self.server.sockets[0].getsockname()[1]

    async def close(self):
        self.server.close()
        await self.server.wait_closed()
        for t in list(self.tasks):
            t.cancel()
        if self.tasks:
            await asyncio.wait(self.tasks)

    async def _handle(self, reader, writer):
        t = asyncio.current_task()
        self.tasks.add(t)
        session = self.scripts.popleft()
        listeners = []
        try:
            await self._session(reader, writer, session, listeners)
        except (ConnectionError, asyncio.IncompleteReadError, asyncio.TimeoutError):
            pass
        finally:
            for l in listeners:
                l.close()
            writer.close()
            self.tasks.discard(t)

    async def _session(self, reader, writer, session, listeners):
        script = collections.deque(session["script"])

        def w(s):
            writer.write(s.encode() + b"\r\n")

        w("220 fake")
        conns = None
        while True:
            line = await reader.readline()
            if not line:
                return
            raw = line[:-2] if line.endswith(b"\r\n") else line
            verb = raw.split(b" ")[0].upper()
            if verb == b"USER":
                w("230 ok")
            elif verb == b"TYPE":
                w("200 ok")
            elif verb == b"EPSV":
                conns = asyncio.Queue()
                lst = await asyncio.start_server(lambda r, wr, q=conns: q.put_nowait((r, wr)), "127.0.0.1", 0)
                listeners.append(lst)
                w(f"229 Entering Extended Passive Mode (|||{lst.sockets[0].getsockname()[1]}|)")
            elif verb in (b"MLSD", b"LIST"):
                session["requests"].append(raw)
                dr, dw = await asyncio.wait_for(conns.get(), 5)
                refuse = None
                if not script:
                    refuse = "550 no such directory"
                elif verb == b"MLSD" and script[0][0]:
                    refuse = "502 MLSD not implemented"
                if refuse:
                    dw.close()
                    w(refuse)
                    continue
                _, payload = script.popleft()
                w("150 here it comes")
                try:
                    dw.write(payload)
                    await asyncio.wait_for(dw.drain(), 5)
                except (ConnectionError, asyncio.TimeoutError):
                    pass
                dw.close()
                w("226 done")
            elif verb == b"QUIT":
                w("221 bye")
                return
            else:
                w("502 no")
            await writer.drain()


def gen_listing(rng, list_mode):
    lines = []
    for _ in range(rng.choice([0, 1, 2, 3, 4, 6])):
        r = rng.random()
        if list_mode:
            b = G.unix_line(rng) if rng.random() < 0.6 else G.win_line(rng)
            if r < 0.12:
                b = rng.choice([b"drwxr-xr-x 2 0 0 4096 Nov 18 12:29 .\r\n", b"drwxr-xr-x 2 0 0 4096 Nov 18 12:29 ..\r\n", b"drwxr-xr-x 2 0 0 4096 Nov 18 12:29 sub\r\n",
                                b"drwxr-xr-x 2 0 0 4096 Nov 18 12:29\r\n", b"total 12\r\n", b"10/27/2016  06:02 PM    <DIR>          .\r\n", b"10/27/2016  06:02 PM    <DIR> \r\n"])
        else:
            b = G.mlsx_line(rng)
            if r < 0.2:
                b = rng.choice([b"type=cdir; .\r\n", b"type=pdir; ..\r\n", b"type=dir; sub\r\n", b"type=dir; a/..\r\n", b"type=dir; ./\r\n", b"Type=dir; /abs\r\n",
                                b"garbage\r\n", b"\r\n", b"size=1; notype\r\n", b"type=dir; ..\r\n", b"type=file;size=1;\r\n", b"type=dir; x \r\n"])
        if r > 0.8:
            b, _ = G.mutate(rng, b, long_ok=False)
        if not b.endswith(b"\n"):
            b += b"\r\n"
        if rng.random() < 0.004:
            b = b"type=file; " + b"x" * 70000 + b"\r\n"
        lines.append(b)
    payload = b"".join(lines)
    if lines and rng.random() < 0.1:
        payload = payload[:-2]
    return payload


def raw_name_mlsx(b):
    """independent recogniser (RFC 3659 entry = [facts] SP pathname): the name of an MLSx line, None if there is none"""
    try:
        s = b.decode("utf-8").rstrip()
    except UnicodeDecodeError:
        return None
    if " " not in s:
        return None
    name = s.partition(" ")[2]
    return name or None


def raw_has_type_mlsx(b):
    """independent recogniser: does the facts part of an MLSx line contain a Type fact (fact names are case-insensitive, RFC 3659)"""
    s = b.decode("utf-8", "replace").rstrip()
    facts = s.partition(" ")[0]
    return any(f.partition("=")[0].lower() == "type" and "=" in f for f in facts.split(";"))


def has_dot_token(b):
    s = b.decode("utf-8", "replace")
    for tok in s.split():
        if str(pathlib.PurePosixPath(tok)) in (".", ".."):
            return True
    return False


async def run_list_case(fake, path, recursive, script):
    session = {"script": script, "requests": []}
    fake.scripts.append(session)
    client = aioftp.Client()
    ys, end = [], "done"
    try:
        await client.connect("127.0.0.1", fake.port)
        await client.login()

        async def go():
            async for p, info in client.list(path, recursive=recursive):
                ys.append((p, info))

        try:
            await asyncio.wait_for(go(), 10)
        except asyncio.TimeoutError:
            end = "HANG"
        except Exception as e:  # noqa: BLE001
            end = e
    finally:
        client.close()
    return ys, end, session["requests"]


def listing_oracle(ys, end, reqs, script, count=lambda k, n: None):
    """property oracle for one Client.list() run on the implementation's outputs: list of (what, key, extra)"""
    out = []
    if end == "HANG":
        return [("Client.list() did not finish within 10 s on a finite scripted server", "c19-lister-hang", {})]
    endname = "done" if end == "done" else type(end).__name__
    if end != "done" and not isinstance(end, (ValueError, errors.StatusCodeError)):
        key = f"c19-lister-class:{endname}"
        if isinstance(end, KeyError) and end.args == ("type",):
            # F12b only when the directory being listed really contains an MLSD line without a Type fact (raw, case-insensitive
            # recogniser, independent of parse_mlsx_line); KeyError('type') on a listing whose lines all carry one is a different defect
            n_req = sum(1 for r in reqs if r.startswith(b"MLSD"))
            cur = script[n_req - 1] if 0 < n_req <= len(script) else None
            typeless = cur is not None and not cur[0] and any(not raw_has_type_mlsx(l) for l in split_lf(cur[1]))
            key = "c19-mlsd-no-type-fact-keyerror" if typeless else "c19-lister-keyerror-on-typed-lines"
        out.append((f"Client.list() raised {endname} for a listing line (documented: ValueError)", key, {}))
    for p, info in ys:
        if not (isinstance(p, pathlib.PurePosixPath) and isinstance(info, dict) and "type" in info):
            out.append(("Client.list() yielded an ill-typed entry", "c19-lister-illtyped", {}))
    n_served = sum(1 for r in reqs if r.startswith(b"MLSD")) - (1 if isinstance(end, errors.StatusCodeError) else 0)
    consumed = script[: max(0, n_served)]
    oracle_client = aioftp.Client()
    if end == "done":
        # every line of a completed listing must be accounted for: yielded, or an explicit '.' / '..' entry
        must_yield = legit_dots = 0
        for lm, payload in consumed:
            for l in split_lf(payload):
                if len(l.rstrip(b"\n")) > DATA_LIMIT:
                    pr, pex = ("exc", "ValueError"), ValueError()
                else:
                    pr, pex = call(oracle_client.parse_list_line if lm else oracle_client.parse_mlsx_line, l)
                if pex is not None:
                    out.append((f"a line on which the line parser raises {pr[1]} was swallowed by a Client.list() that completed normally",
                                "c19-line-parser-exception-swallowed", {"line": list(l[:200])}))
                elif str(pr[1][0]) in (".", ".."):
                    nameless = (raw_name_mlsx(l) is None) if not lm else not has_dot_token(l)
                    if nameless and not lm:
                        out.append(("an MLSD line without a pathname (no SP, or nothing after it) was silently dropped by Client.list()",
                                    "c19-mlsd-line-without-name-dropped", {"line": list(l[:200])}))
                    elif nameless:
                        out.append(("a LIST line that names neither '.' nor '..' was silently dropped by Client.list() (its name column is empty)",
                                    "c19-list-line-without-name-dropped", {"line": list(l[:200])}))
                    else:
                        legit_dots += 1
                else:
                    must_yield += 1
        if len(ys) > must_yield:
            out.append(("Client.list() yielded an entry for a '.' / '..' line", "c19-dot-entry-yielded", {}))
        elif len(ys) < must_yield:
            out.append(("Client.list() completed normally but dropped a line that parses to a proper name", "c19-line-dropped", {}))
        count("lister:dot-lines-skipped", legit_dots)
    return out


def lister_cases(ctx, n):
    rng = ctx.rng
    cases = []
    for _ in range(n):
        k = rng.choice([1, 1, 2, 3, 4])
        script = []
        for _ in range(k):
            lm = rng.random() < 0.35
            script.append((lm, gen_listing(rng, lm)))
        cases.append((rng.choice(["/", "/base", "rel", "", "/a b", "//x"]), rng.random() < 0.6, script))
    fixed = [
        ("/", False, [(False, b"garbage\r\n")]),
        ("/", False, [(False, b"size=1; notype\r\n")]),
        ("/", False, [(True, b"drwxr-xr-x 2 0 0 4096 Nov 18 12:29\r\n")]),
        ("/", True, [(False, b"type=cdir; .\r\ntype=pdir; ..\r\ntype=dir; ..\r\ntype=dir; .\r\ntype=dir; sub\r\n"), (False, b"type=dir; .\r\ntype=dir; ..\r\ntype=file; f\r\n")]),
        ("/", True, [(True, b"drwxr-xr-x 2 0 0 4096 Nov 18 12:29 .\r\ndrwxr-xr-x 2 0 0 4096 Nov 18 12:29 ..\r\ndrwxr-xr-x 2 0 0 4096 Nov 18 12:29 sub\r\n"), (True, b"total 0\r\n")]),
        ("/", True, [(False, b"type=dir; a\r\n")] * 1 + [(False, b"type=dir; a\r\n")] * 5),
        ("/", True, []),
        ("/x", False, [(False, b"type=file; " + b"n" * 70000 + b"\r\n")]),
        ("/", False, [(False, b"type=file; \xff\r\n")]),
        ("/", False, [(True, b"10/27/2016  06:02 PM    <DIR>          .\r\n")]),
    ]
    cases += fixed
    # date oracles for LIST-mode lines
    flat = []
    for _, _, script in cases:
        for lm, payload in script:
            for l in split_lf(payload):
                flat.append((lm, l))
    probes = ctx.model([(1, [0, l]) for lm, l in flat if lm])
    rec_client = aioftp.Client()
    rec = DateRecorder(rec_client)
    oracle = {}
    it = iter(probes)
    for lm, l in flat:
        if not lm:
            continue
        pr = next(it)
        pu, pw = m_res(pr[0], sx.txt), m_res(pr[1], sx.txt)
        o1 = ("exc", "ValueError")
        if pu[0] == "ok":
            rec.cache.clear()
            try:
                rec(pu[1])
            except Exception:  # noqa: BLE001
                pass
            o1 = rec.outcome(pu[1])
        o2 = win_oracle(pw[1]) if pw[0] == "ok" else ("exc", "ValueError")
        oracle[l] = (enc_oracle(o1), enc_oracle(o2))
    dummy = [-1, 1]
    margs = []
    for path, rec_flag, script in cases:
        msc = [[lm, [[l, *(oracle[l] if lm else (dummy, dummy))] for l in split_lf(payload)]] for lm, payload in script]
        margs.append((10, [0, DATA_LIMIT, rec_flag, str(pathlib.PurePosixPath(path)), msc]))
    outs = ctx.model(margs)

    async def run_all():
        fake = FakeFTP()
        await fake.start()
        res = []
        try:
            for path, rec_flag, script in cases:
                res.append(await run_list_case(fake, pathlib.PurePosixPath(path), rec_flag, script))
        finally:
            await fake.close()
        return res

    loop = asyncio.new_event_loop()
    results = loop.run_until_complete(run_all())
    loop.close()
    xcheck = []
    for (path, rec_flag, script), o, (ys, end, reqs), marg in zip(cases, outs, results, margs):
        ctx.case(("list", path, rec_flag, tuple(script)))
        ctx.traces_impl += 1
        total_bytes = sum(len(p) for _, p in script)
        # ---- property oracle on the implementation
        rep = {"path": path, "recursive": rec_flag, "script": [[lm, list(p)] for lm, p in script]} if total_bytes < 600 else {"path": path, "recursive": rec_flag, "script": "large"}
        for what, key, extra in listing_oracle(ys, end, reqs, script, ctx.count):
            ctx.violation(what, {"key": key, **extra, **rep})
        if end == "HANG":
            continue
        endname = "done" if end == "done" else type(end).__name__
        ctx.count("lister:end:" + endname)
        served_dirs = [r for r in reqs if r.startswith(b"MLSD")]
        # ---- model vs implementation
        m_end = "done" if o[0] == [0] else ("FUEL" if o[0] == [-2] else EXC.get(o[0][1], "?"))
        m_ys = [(sx.txt(p), {sx.txt(k): sx.txt(v) for k, v in d}) for p, d in o[1]]
        i_ys = [i_entry(y) for y in ys]
        m_reqs = [("MLSD " + sx.txt(p)).strip().encode("utf-8") for p in o[2]]
        if m_end == "FUEL":
            ctx.obligation_broken("lister-fuel", "the model ran out of fuel: termination theorem does not cover this script")
        sigma = any("Σ" in p.decode("utf-8", "replace") for _, p in script)
        if (m_end, m_reqs) != (endname, served_dirs) or (m_ys != i_ys and not sigma):
            ctx.disagree("Client.list", rep, str((m_end, m_ys, m_reqs))[:400], str((endname, i_ys, served_dirs))[:400])
        if len(xcheck) < 6 and total_bytes < 200:
            xcheck.append((marg[0], marg[1], o))
    ctx.count("lister:cases", len(cases))
    ctx.sample({"stream": "lister", "path": cases[0][0], "recursive": cases[0][1], "script": [[lm, repr(p)[:120]] for lm, p in cases[0][2]]})
    return xcheck


# ----------------------------------------------------------------------------- (e) hostile sessions against the real server
class LogTrap(logging.Handler):
    def __init__(self):
        super().__init__(level=logging.WARNING)
        self.records = []

    def emit(self, record):
        self.records.append(record)


def hostile_payloads(rng, n):
    fixed = [
        ("undecodable", b"\xff\xfe\xfd\r\n", True), ("undecodable-verb-arg", b"USER \xc3\x28\r\n", True), ("nul", b"\x00\x00\x00\r\n", False),
        ("nul-in-arg", b"USER a\x00b\r\n", False), ("overlong-no-lf", b"A" * 70000, True), ("overlong-with-lf", b"A" * 70000 + b"\r\n", True),
        ("overlong-arg", b"USER " + b"x" * 66000 + b"\r\n", True), ("unknown-verb", b"XYZZY plugh\r\n", False), ("empty-line", b"\r\n", False),
        ("only-lf", b"\n\n\n", False), ("eof-mid-line", b"USER anonym", False), ("eof-immediately", b"", False),
        ("garbage-arg-rest", b"USER anonymous\r\nREST abc\r\n", False), ("garbage-arg-type", b"USER anonymous\r\nTYPE \xc2\xb2\r\n", False),
        ("garbage-arg-epsv", b"USER anonymous\r\nEPSV |||x|\r\n", False), ("garbage-arg-cwd", b"USER anonymous\r\nCWD " + b"../" * 200 + b"\r\n", False),
        ("retr-without-passive", b"USER anonymous\r\nRETR nothing\r\n", False), ("pass-before-user", b"PASS x\r\n", False),
        ("pipelined-garbage", b"USER anonymous\r\n" + b"\xff" * 10 + b"\r\nNOOP\r\n", True), ("mlsd-garbage", b"USER anonymous\r\nMLSD \x01\x02\r\n", False),
        ("binary-blob", bytes(range(256)) * 4, True),
        ("handler-raises-then-undecodable", b"USER anonymous\r\nREST \xc2\xb2\r\n\xff\r\n", True),
        ("quit-then-undecodable", b"USER anonymous\r\nQUIT\r\n\xff\r\n", None),
    ]
    out = list(fixed)
    for _ in range(n):
        b = b"".join(G.mutate(rng, G.control_line(rng), long_ok=False)[0] for _ in range(rng.randint(1, 4)))
        if rng.random() < 0.5:
            b = b"USER anonymous\r\n" + b
        out.append(("random-control-lines", b, None))
    return out


async def live_server(ctx, payloads):
    trap = LogTrap()
    lg = logging.getLogger("aioftp.server")
    old_level = lg.level
    lg.addHandler(trap)
    lg.setLevel(logging.WARNING)
    loop = asyncio.get_running_loop()
    loop_errors = []
    loop.set_exception_handler(lambda l, c: loop_errors.append(str(c.get("message")) + " " + repr(c.get("exception"))))
    server = aioftp.Server(path_io_factory=aioftp.MemoryPathIO)
    await server.start("127.0.0.1", 0)
    host, port = server.server_host, server.server_port
    witness = aioftp.Client()
    facts = {"witness_ok": 0, "ended_by_server": 0, "sessions": 0}
    try:
        await witness.connect(host, port)
        await witness.login()
        await witness.make_directory("w")
        async with witness.upload_stream("w/f.txt") as st:
            await st.write(b"payload")
        want = sorted(str(p) for p, _ in await witness.list("/", recursive=True))
        # the model's prediction: the first complete (or over-long) line on which parse_command raises ends the session
        predicted = {}
        for name, payload, _ in payloads:
            lines = [l for l in split_lf(payload) if l.endswith(b"\n") or len(l) > DATA_LIMIT]
            outs = ctx.model([(12, [0, DATA_LIMIT, l]) for l in lines]) if lines else []
            predicted[name, payload] = any(o[0] == -1 and o[2] == 2 for o in outs)
            ctx.count("hostile:model-predicts-session-ends", int(predicted[name, payload]))
        for name, payload, expect_drop in payloads:
            facts["sessions"] += 1
            ctx.count("hostile:" + name)
            ctx.case(("hostile", name, payload))
            ctx.traces_impl += 1
            r, w = await asyncio.open_connection(host, port)
            rep = {"name": name, "payload": list(payload[:400]), "payload_len": len(payload)}
            greeting = await asyncio.wait_for(r.readline(), 5)
            if not greeting.startswith(b"220"):
                ctx.violation("server did not greet a new connection", {"key": "c19-server-no-greeting", **rep})
            closed_by_server = False
            try:
                w.write(payload)
                await asyncio.wait_for(w.drain(), 5)
                # read what comes back until the server is quiet or closes
                while True:
                    try:
                        chunk = await asyncio.wait_for(r.read(65536), 0.15)
                    except asyncio.TimeoutError:
                        break
                    if not chunk:
                        closed_by_server = True
                        break
            except (ConnectionError, asyncio.TimeoutError):
                closed_by_server = True
            if closed_by_server:
                facts["ended_by_server"] += 1
            if not closed_by_server:
                # "releases that session's resources": a session the dispatcher has left (no longer in server.connections) must not
                # keep its control connection open (independent of the model: only the server's own ledger and the socket are used)
                await asyncio.sleep(0.05)
                my_port = w.get_extra_info("sockname")[1]
                registered = any(getattr(cn, "client_port", None) == my_port for cn in list(server.connections.values()))
                if not registered:
                    ctx.violation("the dispatcher ended a session (gone from server.connections) but left its control connection open",
                                  {"key": "c19-server-session-socket-not-closed", **rep})
            if predicted[name, payload] and not closed_by_server:
                ctx.disagree("server-reaction", rep, "model: parse_command raises on a line of this payload, the dispatcher's catch-all ends the session", "session still open")
            w.close()
            # the witness is undisturbed
            try:
                got = sorted(str(p) for p, _ in await asyncio.wait_for(witness.list("/", recursive=True), 5))
                async with witness.download_stream("w/f.txt") as st:
                    data = await asyncio.wait_for(st.read(), 5)
                if got != want or data != b"payload":
                    ctx.violation("the witness session saw different data after a hostile session", {"key": "c19-witness-disturbed", **rep})
                else:
                    facts["witness_ok"] += 1
            except Exception as e:  # noqa: BLE001
                ctx.violation(f"the witness session failed after a hostile session: {type(e).__name__}", {"key": "c19-witness-broken", **rep})
                break
        # the server still accepts, and every hostile session was released
        r, w = await asyncio.open_connection(host, port)
        g = await asyncio.wait_for(r.readline(), 5)
        if not g.startswith(b"220"):
            ctx.violation("server no longer accepts connections after hostile input", {"key": "c19-server-dead"})
        w.close()
        for _ in range(100):
            if len(server.connections) <= 1:
                break
            await asyncio.sleep(0.02)
        if len(server.connections) > 1:
            ctx.violation(f"{len(server.connections) - 1} hostile sessions still registered in server.connections after the peers left",
                          {"key": "c19-server-session-leak"})
        await witness.quit()
    finally:
        witness.close()
        try:
            await asyncio.wait_for(server.close(), 15)
        except asyncio.TimeoutError:
            ctx.violation("Server.close() did not return within 15 s after the hostile sessions (a control connection was never closed)",
                          {"key": "c19-server-close-hangs"})
        for _ in range(50):
            if not server.connections:
                break
            await asyncio.sleep(0.02)
        if server.connections:
            ctx.violation("server.connections not empty after close()", {"key": "c19-server-connections-not-empty"})
        gc.collect()
        await asyncio.sleep(0)
        lg.removeHandler(trap)
        lg.setLevel(old_level)
    bad = [r for r in trap.records if r.getMessage() != "dispatcher caught exception"]
    if bad:
        ctx.violation("server logged something other than the dispatcher's own catch-all: " + bad[0].getMessage()[:120], {"key": "c19-server-unexpected-log"})
    # "Task exception was never retrieved": two tasks of ONE session failed in the same asyncio.wait round (e.g. a handler that
    # raises + an undecodable next line); the dispatcher leaves on the first task.result() and never looks at the second.  The
    # session is gone, nothing leaks, the server serves on: outside the property text, recorded as an observation (docs/notes/C19.md).
    unretrieved = [e for e in loop_errors if e.startswith("Task exception was never retrieved")]
    ctx.count("server:observed-unretrieved-task-exception", len(unretrieved))
    other = [e for e in loop_errors if e not in unretrieved]
    if other:
        ctx.violation("unhandled exception reached the event loop: " + other[0][:200], {"key": "c19-server-unhandled-exception"})
    classes = collections.Counter(type(r.exc_info[1]).__name__ for r in trap.records if r.exc_info)
    for k, v in classes.items():
        ctx.count("server-caught:" + k, v)
    ctx.extra["live_server"] = facts


# ----------------------------------------------------------------------------- entry points
def correspondence(ctx, scale=1.0):
    thorough = ctx.tier == "thorough"
    f = (8.0 if thorough else 1.0) * scale
    ctx.extra["rule"] = (
        "streams: (a) listing lines: grammar-aware unix ls / windows dir / MLSx generators, each line kept or mutated (byte flips, deletes, "
        "metacharacter / unicode-digit / unicode-space inserts, truncation, duplication, field swaps, non-UTF-8, long fields) plus truncation at "
        "EVERY position of valid lines, utf-8 and latin-1; all four parsers run on every line; (b) parse_unix_mode exhaustive over a 7-symbol "
        "alphabet up to length 3 plus every single-character substitution of valid modes; PASV / EPSV / 257 payloads from grammars plus text "
        "mutation; int / PurePosixPath / utf-8 library models; MLST replies; (b') well-formed MLSx / EPSV / PASV / 257 / unix lines built from "
        "random components under exactly the hypotheses of the C19_*_exact theorems, expected value computed from the components; (c) reply streams and control lines fed to the real parse_response / "
        "parse_command through a StreamReader with limits 64 and 65536 under random segmentation; (d) Client.list() over loopback against a "
        "scripted fake FTP server (MLSD and LIST fallback, recursion, '.'/'..', nameless lines, over-long lines); (e) hostile loopback sessions "
        "against the real server with a witness client. A case is non-trivial when its input is distinct (hash of input)."
    )
    x = []
    x += listing_lines(ctx, int(16000 * f))
    x += small_parsers(ctx, int(2000 * f))
    x += wellformed_exact(ctx, int(600 * f))
    x += reply_and_command_streams(ctx, int(2500 * f))
    x += lister_cases(ctx, int(500 * f))
    loop = asyncio.new_event_loop()
    try:
        pl = hostile_payloads(ctx.rng, int(25 * f))
        try:
            loop.run_until_complete(asyncio.wait_for(live_server(ctx, pl), 120 + 3 * len(pl)))
        except asyncio.TimeoutError:
            ctx.violation("the hostile-session run against the real server did not finish within its time budget (server or witness hangs)",
                          {"key": "c19-live-server-hang"})
    finally:
        loop.close()
    ok, out = core.vm_crosscheck(EXTRACT, x[:100])
    ctx.extra["vm_compute_crosscheck"] = {"cases": len(x[:100]), "agree": ok}
    if not ok:
        ctx.obligation_broken("extraction-crosscheck", out)


def search(ctx):
    if ctx.violations or ctx.tier == "thorough" or ctx.exe is None:
        return
    try:
        correspondence(ctx, scale=3.0)
    except Exception as e:  # noqa: BLE001
        ctx.notes.append(f"search aborted: {e!r}")


KNOWN_REPLAYS = {
    "F12a-mlsd-nameless-line-dropped": {"key": "c19-mlsd-line-without-name-dropped", "path": "/", "recursive": False, "script": [[False, list(b"garbage\r\n")]]},
    "F12b-mlsd-no-type-keyerror": {"key": "c19-mlsd-no-type-fact-keyerror", "path": "/", "recursive": False, "script": [[False, list(b"size=1; notype\r\n")]]},
    "F12c-list-nameless-line-dropped": {"key": "c19-list-line-without-name-dropped", "path": "/", "recursive": False,
                                        "script": [[True, list(b"drwxr-xr-x 2 0 0 4096 Nov 18 12:29\r\n")]]},
}


def _replay_list(r):
    script = [(bool(lm), bytes(p)) for lm, p in r["script"]]

    async def go():
        fake = FakeFTP()
        await fake.start()
        try:
            return await run_list_case(fake, pathlib.PurePosixPath(r["path"]), r["recursive"], script)
        finally:
            await fake.close()

    loop = asyncio.new_event_loop()
    try:
        return loop.run_until_complete(go())
    finally:
        loop.close()


def replay(ctx, data):
    """re-run one recorded failing input on the implementation; True when the property holds on it"""
    r = data.get("replay", data)
    key = r.get("key", "")
    if "script" in r and isinstance(r["script"], list):
        ys, end, reqs = _replay_list(r)
        lines = [l for lm, p in r["script"] for l in split_lf(bytes(p))]
        print("Client.list():", "yielded", [str(p) for p, _ in ys], "ended", end if end in ("done", "HANG") else repr(end), "for lines", lines)
        bad = listing_oracle(ys, end, reqs, [(bool(lm), bytes(p)) for lm, p in r["script"]])
        for what, k, _ in bad:
            print("  oracle:", k, "-", what)
        return not bad
    if "line" in r and key.startswith(("c19-list-line", "c19-unix", "c19-windows", "c19-mlsx")):
        c = aioftp.Client(encoding="utf-8" if r.get("encoding", 0) == 0 else "latin-1")
        res, ex = call(c.parse_list_line, bytes(r["line"]))
        print("parse_list_line:", res)
        return ex is None or isinstance(ex, ValueError)
    print("replay payload:", str(data)[:600])
    return False


def known(ctx):
    """replay every listed finding of this property on the real code: it must still fail in the listed way"""
    for f in ctx.kf:
        rp = KNOWN_REPLAYS.get(f["id"])
        if rp is None:
            continue
        ys, end, reqs = _replay_list(rp)
        keys = [k for _, k, _ in listing_oracle(ys, end, reqs, [(bool(lm), bytes(p)) for lm, p in rp["script"]])]
        if rp["key"] in keys:
            ctx.known_reproduced(f["id"], f["what"])
        else:
            ctx.obligation_broken("known-finding-stale", f"{f['id']} no longer reproduces on the implementation (oracle says {keys}): "
                                  "remove it from known_findings.json together with its _refuted theorem")
