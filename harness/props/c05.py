"""C05 — the dispatcher conforms to a sequential session model.
Conformance of the REAL aioftp.Server (on simnet, exact quiescence) with coq/Model/Session.v on
bounded-exhaustive and random command histories; plus the property's own oracles (one final reply
per command, 502/503/5xx and the session continues, session ends only when announced, REST scope)."""
import asyncio
import itertools
import shutil
import tempfile

from .. import core, ftpsim, simnet, sx

ID = "C05"
EXTRACT = "ExC05"
TECHNIQUE = (
    "Coq theorems about a sequential reference model of the 25-verb session (decorator interpreter + handler bodies), "
    "closed obligation that the decorator table regenerated from server.py equals the reference table, the 25 handler BODIES "
    "translated from server.py into a statement language (gen_handlers.py -> Gen/Handlers.v; closed obligation "
    "C05_handler_programs_are_reference) with a Coq interpreter whose result is proved equal to the model's hand-written bodies "
    "(C05_model_is_program_denotation), and a "
    "conformance correspondence of the extracted model against the real server on an in-memory network (exact quiescence)"
)
LEVEL_TEXT = (
    "Proved about the reference model for every world, verb and argument / every history: exactly-one-final-reply shape per command "
    "(C05_reply_shape: no REST argument can make the handler raise - C05_rest_never_crashes - and the server ends the session itself "
    "only after QUIT/221), 502 for unknown verbs, 503 for out-of-sequence commands, session continues, RNFR/RNTO pairing, re-login "
    "resets cwd, the restart offset is seen by the immediately following transfer command and is 0 after every supported command "
    "other than REST (C05_rest_scopes_one_command, C05_transfer_sees_offset). The defects found earlier (REST with non-decimal digits, "
    "EPSV <arg> ending the session after 522, REST offset surviving a transfer) were repaired in /repo (known_findings.json 'fixed'); "
    "their witnesses are now positive Examples and corpus cases. The conformance of the CODE to the model is a relational statement "
    "about the code: it is carried by the regenerated decorator table and dispatcher facts (re-checked by vm_compute on every run), "
    "by the handler bodies regenerated as programs (C05_handler_programs_are_reference: today's 25 bodies translate, with no "
    "unclassified statement, to the reference programs; C05_model_is_program_denotation: for every handler, user table, argument, "
    "data action, appe flag, delegation callback and world the interpreter applied to the translated program yields exactly the "
    "model's body - hypotheses only for rnto/pass_ (the attribute their own decorator requires is present) and pwd (no double quote "
    "in the directory, where the MODEL is wrong: C05_pwd_model_ignores_quote_doubling); C05_handler_is_program_denotation lifts it "
    "through the decorator stacks to the whole handler for every world; PASV/EPSV listener start, socket choice, "
    "transfer workers, user manager, throttles are named abstraction nodes of that language) "
    "and by bounded-exhaustive + random histories run against the real server (validation, not proof)."
)
LEVEL_NOTE = (
    "Trusted: Coq kernel, py2v, extraction, simnet (in-memory transports, virtual clock). Modelled not verified: asyncio scheduling "
    "(one command at a time, no pipelining), ssl, IPv6 listener (PASV 503), per-user connection limits (C10), the real backends "
    "(the model's tree is POSIX-like; the three shipped backends are compared in C18)."
)
TRUSTED = ["simnet: in-memory transports and virtual clock stand for TCP and wall time"]
ASSUMPTIONS = ["commands are sent one at a time (the next after all replies of the previous arrived): pipelining is outside the model"]

USERS = {
    "T1": [
        {"login": "u", "password": "pw", "home": "/"},
        {"login": "nopw", "password": None, "home": "/d"},
    ],
    "T2": [
        {"login": None, "password": None, "home": "/"},
        {"login": "u", "password": "pw", "home": "/d"},
        {"login": "v", "password": "pw2", "home": "/"},
    ],
}
TREE = {"d": {"f": b"hello world", "e": {}}, "g": b"0123456789"}

PATHS = ["", "d", "d/f", "g", "missing", "d/../g", "/d/e", "d/f/x", "..", "new", "d/new", "/", "e", "f", "d/e/../../g", "//d"]
ALPHABET = (
    [("PWD", ""), ("CDUP", ""), ("SYST", ""), ("QUIT", ""), ("ABOR", ""), ("PASV", ""), ("EPSV", ""), ("EPSV", "1"),
     ("PBSZ", "0"), ("PROT", "P"), ("PROT", "C"), ("TYPE", "I"), ("TYPE", "A"), ("TYPE", "X"), ("FOO", "x"), ("NOOP", ""),
     (ftpsim.DATACONN, ""), (ftpsim.DATACONN, ""),
     ("USER", "u"), ("USER", "nopw"), ("USER", "nobody"), ("USER", "v"), ("PASS", "pw"), ("PASS", "bad"), ("PASS", "pw2")]
    + [("REST", a) for a in ["0", "3", "10", "100", "abc", "", "٣", "²", "-1", "1 2"]]
    # the numeric edge of REST: the widest accepted offset (18 digits), 19 / 20 / 25 digits, 2**63, leading zeros, a sign, white
    # space around the number, and digit strings at / beyond CPython's int() limit (sys.get_int_max_str_digits() = 4300)
    + [("REST", a) for a in ["1" * 19, "9" * 20, "1" * 25, str(2 ** 63), "0005", "0" * 17 + "7", "0" * 18 + "7", "+5", "5 ", " 5"]]
    + [(v, p) for v in ["CWD", "MKD", "RMD", "DELE", "RNFR", "RNTO", "MLST", "LIST", "MLSD", "RETR", "STOR", "APPE"] for p in PATHS]
)
# digit strings at / beyond CPython's int() limit: in the single-event stream and in targeted histories only (kept out of the
# pair / random products: thousands of 5 kB arguments in one model batch is not what those streams are for)
# The widest ACCEPTED offset (18 nines) is here too: followed by a transfer it means seeking to 10**18 - in the model
# (unary skipn / zero fill) and on a memory backend alike - which is not a session anybody can run.
REST_HUGE = ["1" * 4301, "0" * 5000, "1" * 4300, "9" * 18]
PAYLOADS = [b"", b"XY", b"abcdefghijklmnop"]


def user_sx(u):
    home = [p for p in u.get("home", "/").split("/") if p]
    perms = [[[q for q in p.split("/") if q], r, w] for p, r, w in u.get("perms", [])]
    return [[u["login"]] if u["login"] is not None else [], [u["password"]] if u["password"] is not None else [], home, perms]


def event_sx(e):
    verb, arg, payload = e
    # the model's event carries the argument as Server.parse_command hands it to the handler: the decoded line is
    # str.rstrip()ped today (trailing white space of any kind is not part of the argument: C06 / finding F22)
    return [verb.lower() if verb != ftpsim.DATACONN else verb, arg.rstrip(), [payload] if payload is not None else []]


def decode_out(o):
    codes = sx.txts(o[0])
    info = sx.txt(o[1])
    by = bytes(o[2][0]) if o[2] else None
    ls = sorted((sx.txt(n), bool(d), s) for n, d, s in o[3][0]) if o[3] else None
    return codes, info, by, ls


def decode_sess(s):
    return {
        "user_idx": s[0][0] if s[0] else None,
        "logged": bool(s[1]),
        "cwd": "/" + "/".join(sx.txts(s[2])),
        "rnfr": ("/" + "/".join(sx.txts(s[3][0]))) if s[3] else None,
        "rest": s[4],
        "passive": bool(s[5]),
        "data": bool(s[6]),
        "ended": bool(s[7]),
    }


def run_impl(table, events, backend="memory"):
    """run a history on the real server; returns (per-event observations, final tree, log records)"""
    tmp = None
    if backend != "memory":
        (core.BUILD / "tmp").mkdir(parents=True, exist_ok=True)
        tmp = tempfile.mkdtemp(dir=str(core.BUILD / "tmp"))
    obs = []
    try:

        async def main(net):
            server = ftpsim.make_server(USERS[table], TREE, backend, tmp, wait_future_timeout=1)
            await server.start("127.0.0.1", ftpsim.PORT)
            s = ftpsim.Session(net, server)
            g = await s.start()
            assert g == ["220"], g
            for verb, arg, payload in events:
                r = await s.event(verb, arg, payload)
                r["probe"] = s.probe()
                obs.append(r)
            tree = ftpsim.final_tree(server, backend, tmp)
            await server.close()
            return tree

        tree = simnet.run(main)
        return obs, tree
    finally:
        if tmp:
            shutil.rmtree(tmp, ignore_errors=True)


def classify(table, events, i, why):
    """a SPECIFIC key for the divergence / oracle violation at event i (known-findings are matched on it)"""
    verb, arg, payload = events[i]
    v = verb.lower()
    if v == "rest" and arg.isdigit() and not arg.isdecimal():
        return "c05-rest-nondecimal-digit-drops-session"
    if v == "rest" and arg.isascii() and arg.isdigit() and len(arg) > 4300:
        return "c05-rest-overlong-digit-string-drops-session"
    if v == "epsv" and arg and why in ("ended-unannounced",):
        return "c05-epsv-arg-522-then-session-closed"
    if why == "rest-survives-transfer":
        return "c05-rest-offset-survives-completed-transfer"
    return f"c05-{why}-{v}"


def compare(ctx, table, events, mo, obs, tree, backend):
    """model vs implementation, event by event; then the property oracles on the implementation"""
    m_final, m_tree, m_steps = mo[0], mo[1], mo[2]
    history = [[v, a, (p.decode("latin-1") if p is not None else None)] for v, a, p in events]
    for i, ((verb, arg, payload), step, ob) in enumerate(zip(events, m_steps, obs)):
        codes, info, by, ls = decode_out(step[0])
        ms = decode_sess(step[1])
        impl = (ob["codes"], ob["bytes"], ob["listing"], bool(ob["ended"]))
        model = (codes, by, ls, ms["ended"])
        bad = None
        if impl != model:
            bad = ("reply", model, impl)
        elif codes == ["257"] and verb.lower() == "pwd" and ob["lines"] and ob["lines"][-1][4:] != info:
            bad = ("pwd-text", info, ob["lines"][-1])
        else:
            pr = ob["probe"]
            if pr is not None and not ms["ended"]:
                users = USERS[table]
                mu = users[ms["user_idx"]]["login"] if ms["user_idx"] is not None else None
                mine = (ms["logged"], mu if ms["user_idx"] is not None else None, ms["rest"], ms["passive"], ms["data"], ms["rnfr"])
                theirs = (pr["logged"], pr["user"] if pr["has_user"] else None, pr["rest"], pr["passive"], pr["data"], pr["rnfr"])
                if backend != "memory" and theirs[5] is not None:
                    theirs = theirs[:5] + (mine[5],)  # real rename_from carries the tmpdir prefix
                if mine != theirs:
                    bad = ("state", mine, theirs)
                elif ms["logged"] and pr["cwd"] != ms["cwd"]:
                    bad = ("cwd", ms["cwd"], pr["cwd"])
        if bad:
            key = mem_key(events, i, backend, m_steps) or classify(table, events, i, "diverges")
            rep = {"key": key, "table": table, "backend": backend, "history": history[: i + 1], "at": i, "kind": bad[0], "model": str(bad[1]), "impl": str(bad[2])}
            if key.startswith("c05-mem-"):
                ctx.violation("in-memory backend diverges from the reference tree semantics", rep)
            else:
                # for C05 the property IS conformance to the reference model: the diverging history is the failing input
                ctx.disagree("session", rep, str(bad[1]), str(bad[2]))
                ctx.violation(f"server diverges from the sequential reference model ({bad[0]})", rep)
            return False
    if ftpsim.canon_tree(ftpsim.sx_to_tree(m_tree)) != tree:
        key = mem_key(events, len(events) - 1, backend, m_steps) or "c05-diverges-tree"
        rep = {"key": key, "table": table, "backend": backend, "history": history, "kind": "tree", "model": str(ftpsim.sx_to_tree(m_tree)), "impl": str(tree)}
        if key.startswith("c05-mem-"):
            ctx.violation("in-memory backend diverges from the reference tree semantics", rep)
        else:
            ctx.disagree("session-tree", rep, rep["model"], rep["impl"])
            ctx.violation("final tree diverges from the sequential reference model", rep)
        return False
    return True


def mem_key(events, i, backend, m_steps=None):
    """divergences of MemoryPathIO from POSIX semantics reachable through the server (C18 findings, seen from C05):
    identified by the SHAPE of an operation at or before the divergence, judged on the reference model's own verdict"""
    if backend != "memory" or m_steps is None:
        return None
    rest_before = 0
    for j in range(min(i + 1, len(m_steps))):
        v = events[j][0].lower()
        codes = sx.txts(m_steps[j][0][0])
        if v == "rnto" and codes == ["451"]:
            # POSIX refuses (into own subtree / destination parent is a file / source is the root) - MemoryPathIO does not validate
            return "c05-mem-rename-without-validation"
        if v in ("stor", "appe") and codes == ["150", "451"] and rest_before > 0:
            return "c05-mem-restart-store-creates-missing-file"
        rest_before = m_steps[j][1][4]
    return None


SUPPORTED = {"abor", "appe", "cdup", "cwd", "dele", "epsv", "list", "mkd", "mlsd", "mlst", "pass", "pasv", "pbsz", "prot", "pwd",
             "quit", "rest", "retr", "rmd", "rnfr", "rnto", "stor", "syst", "type", "user"}


def oracles(ctx, table, events, obs, backend="memory"):
    """the property text, evaluated on the implementation alone"""
    history = [[v, a, (p.decode("latin-1") if p is not None else None)] for v, a, p in events]
    prev_ended = False
    armed = 0          # offset set by a REST that was the IMMEDIATELY preceding command (350), else 0
    pristine = True    # no command that can change the tree has been sent yet: file contents are those of TREE
    cwd_known = "/"    # only histories that never change directory are judged by the byte oracle
    for i, ((verb, arg, payload), ob) in enumerate(zip(events, obs)):
        v = verb.lower()
        if verb == ftpsim.DATACONN or prev_ended:
            prev_ended = prev_ended or ob["ended"]
            continue
        codes = ob["codes"]
        if v in ("stor", "appe", "dele", "rnfr", "rnto", "mkd", "rmd"):
            pristine = False
        if v in ("cwd", "cdup"):
            cwd_known = None
        elif v == "user":
            homes = [u.get("home", "/") for u in USERS[table] if u["login"] == arg]
            cwd_known = homes[0] if homes else None
        if v == "retr" and pristine and cwd_known == "/" and ob["bytes"] is not None and "226" in codes and "/" not in arg.strip("/") and ".." not in arg:
            content = TREE.get(arg.strip("/"))
            if isinstance(content, bytes) and ob["bytes"] != content[armed:]:
                ctx.violation(
                    "property oracle: the restart offset applies only to the immediately following transfer",
                    {"key": "c05-rest-offset-applies-to-later-transfer" if armed == 0 else "c05-rest-offset-not-applied",
                     "table": table, "backend": backend, "history": history[: i + 1], "at": i, "codes": codes,
                     "served": ob["bytes"].decode("latin-1"), "expected": content[armed:].decode("latin-1"), "armed_offset": armed},
                )
                return
        if v == "rest" and codes == ["350"] and arg.rstrip().isascii() and arg.rstrip().isdigit() and len(arg.rstrip()) <= 4300:
            armed = int(arg.rstrip())  # (parse_command strips trailing white space before the handler sees the argument: F22)
        elif v in SUPPORTED:
            armed = 0
        # an UNSUPPORTED verb (502) is not a command of the session: it leaves a pending offset pending (the existing
        # rest-survives-command oracle makes the same exception)
        finals = [c for c in codes if not c.startswith("1")]
        marks = [c for c in codes if c.startswith("1")]
        why = None
        if len(finals) != 1 or len(marks) > 1 or (marks and codes[0] != marks[0]):
            why = "not-exactly-one-final-reply"
        elif ob["ended"] and finals[0] not in ("221", "421"):
            why = "ended-unannounced"
        elif v == "foo" and finals != ["502"]:
            why = "unknown-verb-not-502"
        if why is None and ob["probe"] is not None:
            # REST applies to the immediately following transfer only
            # (whether the transfer completed, failed or was refused), and to nothing else
            if v in ("retr", "stor", "appe") and ob["probe"]["rest"] != 0:
                why = "rest-survives-transfer"
            elif v not in ("rest", "foo", "noop") and ob["probe"]["rest"] != 0:
                why = "rest-survives-command"
        if why:
            ctx.violation(
                f"property oracle: {why}",
                {"key": classify(table, events, i, why), "table": table, "backend": backend, "history": history[: i + 1], "at": i, "codes": codes, "ended": ob["ended"]},
            )
            return
        prev_ended = ob["ended"]


# transfers that are turned down before their worker body runs, by the stage that refuses them
REFUSED_TRANSFERS = [
    ("RETR", "missing", None),      # 550 path_must_exists
    ("RETR", "d", None),            # 550 path_must_be_file
    ("STOR", "d/f/x", b"XY"),       # 550 parent is not a directory
    ("APPE", "missing/x", b"XY"),   # 550 parent missing
    ("FOO", "x", None),             # 502: an unsupported verb - the one thing that does NOT consume a pending offset
]
NEXT_TRANSFERS = [("RETR", "g", None), ("RETR", "d/f", None), ("STOR", "g", b"XY"), ("APPE", "g", b"XY"), ("STOR", "new", b"abc")]
BETWEEN = [[], [("PWD", "", None)], [("TYPE", "I", None), ("SYST", "", None)], [("CWD", "d", None), ("CDUP", "", None)]]


def rest_scope_histories(rng, thorough):
    """'the restart offset applies only to the immediately following transfer': REST n, then a transfer that is turned
    down at each stage a transfer can be turned down at (550 by a path condition, 503 without a listener, 150 + 425 without
    a data connection, 451 inside the worker) or any other command, then 0-2 other commands, then a transfer that had no
    REST of its own - with and without a data connection in place.  (login prefix is added by the caller)"""
    out = []
    pasv = [("PASV", "", None), (ftpsim.DATACONN, "", None)]
    for n in ("4", "3"):
        rest = [("REST", n, None)]
        for nxt in NEXT_TRANSFERS:
            for mid in BETWEEN:
                # (1) refused by a decorator (550) / unknown verb, listener + data connection in place
                for bad in REFUSED_TRANSFERS:
                    out.append(pasv + rest + [bad] + mid + [nxt, ("PWD", "", None)])
                # (2) refused for want of a listener (503), listener made afterwards
                out.append(rest + [("RETR", "g", None)] + mid + pasv + [nxt, ("PWD", "", None)])
                # (3) accepted (150) but no data connection arrives (425); the data connection is made afterwards
                out.append([("PASV", "", None)] + rest + [("RETR", "g", None)] + mid + [(ftpsim.DATACONN, "", None), nxt, ("PWD", "", None)])
                # (4) worker fails inside (451: RETR of a directory cannot be requested; STOR onto a directory)
                out.append(pasv + rest + [("STOR", "d", b"XY"), (ftpsim.DATACONN, "", None)] + mid + [nxt, ("PWD", "", None)])
                # (5) the REST is overridden by a refused REST
                out.append(pasv + rest + [("REST", "abc", None)] + mid + [nxt, ("PWD", "", None)])
    if thorough:
        return out
    # quick: every (stage, next transfer) pair once, the in-between commands round-robin
    keep = [h for i, h in enumerate(out) if i % len(BETWEEN) == (i // len(BETWEEN)) % len(BETWEEN) or i % 7 == 0]
    return rng.sample(keep, min(len(keep), 140))


def gen_history(rng, n):
    ev = []
    while len(ev) < n:
        if rng.random() < 0.06:
            # REST; something that is not a completed transfer; a transfer
            ev.append(("REST", rng.choice(["3", "4", "10"]), None))
            ev.append(rng.choice(REFUSED_TRANSFERS + [("RETR", "g", None), ("PWD", "", None)]))
            if rng.random() < 0.5:
                ev.append((ftpsim.DATACONN, "", None))
            ev.append(rng.choice(NEXT_TRANSFERS))
            continue
        verb, arg = rng.choice(ALPHABET)
        payload = rng.choice(PAYLOADS) if verb in ("STOR", "APPE") else None
        ev.append((verb, arg, payload))
    return ev


LOGIN = {"T1": [("USER", "u", None), ("PASS", "pw", None)], "T2": [("USER", "u", None), ("PASS", "pw", None)]}


def correspondence(ctx, budget=None):
    rng = ctx.rng
    thorough = ctx.tier == "thorough"
    ctx.extra["rule"] = (
        "histories over the alphabet {25 verbs + unknown verbs + the pseudo-event 'peer connects the data channel'} x arguments "
        "{existing file/dir, missing, aliases with .., path through a file, //, REST numerals incl. non-ASCII digits, TYPE/PROT/EPSV "
        "arguments} x upload payloads: (a2) REST n followed by a transfer turned down at every stage (550 path condition, 503 no listener, "
        "150+425 no data connection, 451 inside the worker, refused REST, unknown verb), 0-2 other commands, then a transfer with no REST of "
        "its own; (a) every single event and (quick: a sample of; thorough: every) pair of events after a login "
        "prefix, (b) random histories of length <= 25 with and without login, on user tables T1/T2; memory backend always, PathIO and "
        "AsyncPathIO on a subset. After every event: reply codes, PWD text, bytes/listing on the data channel, session state probe "
        "(logged, user, cwd, pending rename, restart offset, listener, data connection) and finally the tree are compared with the model. "
        "Non-trivial = distinct history."
    )
    jobs = []
    # (a) singles and pairs after login (+ PASV + data connection so that transfers can run)
    singles = [(v, a, (b"XY" if v in ("STOR", "APPE") else None)) for v, a in ALPHABET]
    pre_sets = [LOGIN["T1"], LOGIN["T1"] + [("PASV", "", None), (ftpsim.DATACONN, "", None)], []]
    for pre in pre_sets:
        for e in [("REST", a, None) for a in REST_HUGE] + singles:
            jobs.append(("T1", pre + [e, ("PWD", "", None)], "memory"))
    pairs = list(itertools.product(singles, repeat=2))
    n_pairs = len(pairs) if thorough else (budget or 700)
    for e1, e2 in (pairs if thorough else rng.sample(pairs, n_pairs)):
        pre = LOGIN["T1"] + ([("EPSV", "", None), (ftpsim.DATACONN, "", None)] if rng.random() < 0.6 else [])
        jobs.append(("T1", pre + [e1, e2, ("PWD", "", None)], "memory"))
    ctx.count("exhaustive_single", len(pre_sets) * (len(singles) + len(REST_HUGE)))
    ctx.count("pairs", n_pairs)
    # targeted: transfers need listener + data connection; REST sequences
    targeted = [
        [("REST", "4", None), ("RETR", "g", None), (ftpsim.DATACONN, "", None), ("RETR", "g", None)],
        [("REST", "4", None), ("STOR", "g", b"XY"), (ftpsim.DATACONN, "", None), ("RETR", "g", None)],
        [("REST", "4", None), ("PWD", "", None), ("RETR", "g", None)],
        [("RNFR", "g", None), ("RNTO", "d/f", None), ("RNTO", "h", None), ("RNTO", "h2", None)],
        [("RNFR", "d", None), ("RNTO", "d/e/x", None), ("MLSD", "", None)],
        [("RNFR", "g", None), ("RNTO", "d/f/x", None), (ftpsim.DATACONN, "", None), ("MLSD", "", None)],
        [("REST", "3", None), ("STOR", "new", b"abc"), (ftpsim.DATACONN, "", None), ("MLSD", "", None)],
        [("CWD", "d", None), ("USER", "nopw", None), ("PWD", "", None), ("USER", "u", None), ("PWD", "", None), ("PASS", "pw", None), ("PWD", "", None)],
        [("STOR", "d", b"x"), ("PWD", "", None)],
        [("REST", REST_HUGE[0], None), ("PWD", "", None), ("REST", REST_HUGE[1], None), ("RETR", "g", None), ("REST", "4", None), ("REST", REST_HUGE[2], None), ("RETR", "g", None),
         (ftpsim.DATACONN, "", None), ("REST", REST_HUGE[3], None), ("PWD", "", None), ("RETR", "g", None)],
        # the other RFC 959 type / protection letters and empty arguments (502 each): TYPE/PROT accept exactly I, A / P
        [("TYPE", "E", None), ("TYPE", "L", None), ("TYPE", "i", None), ("TYPE", "", None), ("PROT", "S", None), ("PROT", "", None), ("PROT", "p", None)],
        [("RETR", "g", None), ("PWD", "", None), (ftpsim.DATACONN, "", None), (ftpsim.DATACONN, "", None), ("RETR", "g", None), ("RETR", "g", None)],
    ]
    for t in targeted:
        jobs.append(("T1", LOGIN["T1"] + [("PASV", "", None), (ftpsim.DATACONN, "", None)] + t, "memory"))
        jobs.append(("T1", LOGIN["T1"] + [("PASV", "", None), (ftpsim.DATACONN, "", None)] + t, "path"))
    ctx.count("targeted", 2 * len(targeted))
    # (a2) the scope of REST across transfers that never ran
    rs = rest_scope_histories(rng, thorough)
    for k, t in enumerate(rs):
        jobs.append(("T1", LOGIN["T1"] + t, "path" if k % 5 == 0 else "memory"))
    ctx.count("rest_scope", len(rs))
    # (b) random histories
    n_rand = 2500 if thorough else 350
    for k in range(n_rand):
        table = rng.choice(["T1", "T2"])
        pre = LOGIN[table] if rng.random() < 0.75 else []
        if pre and rng.random() < 0.7:
            pre = pre + [(rng.choice(["PASV", "EPSV"]), "", None), (ftpsim.DATACONN, "", None)]
        h = pre + gen_history(rng, rng.randint(1, 25 - len(pre)))
        backend = "memory"
        if k % 6 == 0:
            backend = "path"
        elif k % 29 == 0:
            backend = "async"
        jobs.append((table, h, backend))
    ctx.count("random", n_rand)

    model_in = [(0, [[user_sx(u) for u in USERS[t]], ftpsim.tree_to_sx(TREE), [event_sx(e) for e in h]]) for t, h, _ in jobs]
    model_out = ctx.model(model_in)
    xcheck = []
    verbs_seen = {}
    for (table, h, backend), mi, mo in zip(jobs, model_in, model_out):
        ctx.case((table, tuple(h), backend))
        ctx.traces_impl += 1
        ctx.count("backend_" + backend)
        for v, a, p in h:
            verbs_seen[v.lower()] = verbs_seen.get(v.lower(), 0) + 1
        try:
            obs, tree = run_impl(table, h, backend)
        except Exception as e:  # noqa: BLE001 - the (mutated) implementation raised inside the driver: an observation
            hist = [[v, a, (p.decode("latin-1") if p is not None else None)] for v, a, p in h]
            ctx.disagree("session-exception", {"key": "c05-driver-exception", "table": table, "backend": backend, "history": hist},
                         "the model has a prediction for every event", repr(e))
            continue
        ok = compare(ctx, table, h, mo, obs, tree, backend)
        oracles(ctx, table, h, obs, backend)
        if ok and len(xcheck) < 25 and len(h) < 8:
            xcheck.append((0, mi[1], mo))
        if len(ctx.samples) < 4 and len(h) > 4:
            ctx.sample({"table": table, "backend": backend, "history": [[v, a] for v, a, _ in h], "codes": [o["codes"] for o in obs]})
    ctx.extra["verbs_exercised"] = verbs_seen
    ok, out = core.vm_crosscheck(EXTRACT, xcheck)
    ctx.extra["vm_compute_crosscheck"] = {"cases": len(xcheck), "agree": ok}
    if not ok:
        ctx.obligation_broken("extraction-crosscheck", out)


def search(ctx):
    if ctx.violations or ctx.tier == "thorough" or ctx.exe is None:
        return
    try:
        correspondence(ctx, budget=2500)
    except Exception as e:
        ctx.notes.append(f"search aborted: {e!r}")


def replay(ctx, data):
    r = data.get("replay", {})
    if "history" not in r:
        print(data)
        return False
    h = [(v, a, p.encode("latin-1") if p is not None else None) for v, a, p in r["history"]]
    table = r.get("table", "T1")
    backend = r.get("backend", "memory")
    mo = ctx.model([(0, [[user_sx(u) for u in USERS[table]], ftpsim.tree_to_sx(TREE), [event_sx(e) for e in h]])])[0]
    obs, tree = run_impl(table, h, backend)
    for e, o in zip(h, obs):
        print(e[:2], "->", o["codes"], "ended" if o["ended"] else "")
    before = len(ctx.violations) + len(ctx.disagreements) + len(ctx.known_hits)
    compare(ctx, table, h, mo, obs, tree, backend)
    oracles(ctx, table, h, obs, backend)
    return len(ctx.violations) + len(ctx.disagreements) + len(ctx.known_hits) == before
