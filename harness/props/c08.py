"""C08 — file and directory names mean the same thing in every command and reply.

Function-level correspondence of every codec of coq/Model/Names.v with the real aioftp functions
on names from a metacharacter-biased generator, and a wire-level check over real loopback
sessions (MemoryPathIO backend): every path-taking client method must denote the same object."""
import asyncio
import os
import pathlib
import shutil
import stat as statmod
import tempfile

import aioftp
from aioftp import errors

from .. import core, sx, wire
from .c06 import CapStream, NullWriter, _feed_and_run

ID = "C08"
EXTRACT = "ExC08"
TECHNIQUE = (
    "Coq proof (rstrip/partition/lstrip/index lemmas, an induction over the quote-doubled directory string generalising the number "
    "of pending quotes and the accumulator for the PWD parser loop, reuse of the C06 framing theorem and the C02 resolver) about "
    "executable models of the eleven name codecs, composed with the sequential session model Model/Session.v (client line -> "
    "parse_command -> event -> Session.resolve -> abstract tree; per-verb step lemmas over the reference dispatch table, tree "
    "bookkeeping by the C17 graft lemmas); tied to the code by differential correspondence on a metacharacter-biased name "
    "generator (quote-bearing names are ordinary cases), a bounded-exhaustive stream over the PWD formatter/parser pair, "
    "wire-level sessions over loopback comparing the backend tree with the expected one after every operation, and the session "
    "model run on the command lines the real client sent in those sessions"
)
LEVEL_TEXT = (
    "C08_name_transparent (composed statement, proved): for every user table, logged-in world, working directory of any depth and "
    "valid path p (any code points, relative or absolute) denoting a free name n in an existing read/writable directory: MKD creates "
    "exactly that node, CWD enters it and PWD's reply decodes to its path, MLSD of the parent lists exactly one entry named n whose "
    "line decodes to n, MLST asks the backend about exactly it, STOR/RETR below it round-trip the bytes, DELE, RNFR/RNTO to a free "
    "sibling and RMD act on exactly it; built from C08_resolve_to_str, C08_event_of_client_line and the per-command theorems "
    "C08_nt_cwd_pwd, C08_nt_listing, C08_nt_stor_retr, C08_nt_stor_sibling_untouched (an upload leaves every other name of the directory as it was), C08_nt_rename, C08_nt_rename_out / C08_nt_rename_into (source and target in different directories, any spelling, any working directory) (from every ready world), C08_session_table_is_reference "
    "(re-checked each run). Codec theorems for every valid name: C08_cmd_path_roundtrip, C08_cmd_path_resolved, "
    "C08_mlsd_name_roundtrip, C08_build_mlsx_shape, C08_mlst_name_roundtrip, C08_pwd_roundtrip (full strength, quotes anywhere), "
    "C08_pwd_roundtrip_valid, C08_pwd_line_roundtrip, C08_pwd_trailing_text_ignored. The LIST fallback is carved out exactly "
    "where it bites: the session part (C08_nt_listing) holds for LIST too, the client's decoding is proved for names without "
    "leading whitespace (C08_list_name_roundtrip_partial) and refuted otherwise (C08_list_name_leading_space_refuted, finding "
    "F13, inherent to the ls -l format). All Closed under the global context."
)
LEVEL_NOTE = (
    "Trusted: Coq kernel, extraction cross-checked with vm_compute, harness. Assumed: the utf-8 codec round-trips and commutes with "
    "line splitting (C06). Modelled not verified: CPython str methods (str.replace with a one-character pattern as flat_map), "
    "pathlib (C02), the session model Model/Session.v itself (tied to the server by C05's conformance and, for the names of this "
    "property, by the session-model stream here). Outside the composed theorem: RNTO between directories that are not parent and child, paths spelled with '..' (both validated at wire level and against the session model), STOR onto an existing "
    "file / APPE / REST offsets, permission refusals, concurrency; the symlink branch of the LIST parser and date/mode parsing (C07)."
)
TRUSTED = [
    "codec assumption of C06 (utf-8 decode(encode(t)) = t, commutes with splitting at byte 10)",
    "pathlib model of C02 (Lib/PosixPath.v)",
    "sequential session model Model/Session.v with the reference dispatch table (C05; table re-checked against server.py each run)",
]
ASSUMPTIONS = [
    "the composed statement is about the sequential session model; that the real server behaves like it for the generated names is validated (wire-level sessions; model run on the client's real command lines), not proved",
    "names are Unicode text encodable in utf-8 (lone surrogates are outside)",
]

ATOMS = ['"', '""', " ", "  ", ";", "=", "Type=dir;", "type=file;", "->", " -> ", "-", "250", "250-", "250 ", "1", "a", "Z", "\\", "%", "%20",
         "é", "é", "\U0001F600", "\t", " ", "'", ".", "..", "*", "?", "size=1;", "٣", "\x85", "\x0b", "x"]
SPECIAL = ['a"b', '"', '""', '"""', '"a', 'a"', '""a""', " x", "  x", "\tx", "x y", "-", "-rf", "250 ok", "250-x", "Type=dir; x", "a;b=c", "a -> b",
           "\\", "a\\b", "%41", "é́", "\U0001F600\U0001F601", "...", ".x", "..x", "x.", " -> ", "= ;", "226", "1 2 3", " x", "a b",
           "\x85x", "x\x85y", "a\x0bb", "\x1fx", "'", "a'b", "[a]", "{a}", "$(x)", "a&b", "a|b", "a<b>c", "‮x", "﻿x"]
# whole names that are a single special character or a short shell-ish token (home, options, globs, variables, redirections)
TOKENS = ["~", "~~", "~user", "~/", "-", "--", "*", "?", "!", "#", "$HOME", "${x}", "%", "&", "|", ">", "<", "`", "'", "\\", "{}", "[a]", ".hidden",
          "...", "@", ":", "+", "=", ";", ",", "^", "(", ")", "$", "~x", "x~", "!!", "*.*", "-v", "CON", "0"]
SPECIAL += [t for t in TOKENS if t not in SPECIAL]


def valid_name(n):
    return bool(n) and n not in (".", "..") and not any(c in n for c in "/\x00\r\n") and n == n.rstrip()


def gen_name(rng):
    r = rng.random()
    if r < 0.3:
        n = rng.choice(SPECIAL)
    else:
        n = "".join(rng.choice(ATOMS) for _ in range(rng.randint(1, 5)))
    if n != n.rstrip():
        n += rng.choice(["x", '"', ";", "é"])
    if not valid_name(n):
        # a NAME never contains the separator, NUL or line ends ("~/" of the token pool is a path spelling, not a name):
        # drop those characters, then make what is left a legal name
        n = "".join(c for c in n if c not in "/\x00\r\n")
        if n != n.rstrip():
            n += "x"
        if not valid_name(n):
            n = "x" + n
    assert valid_name(n), n
    return n


class Impl:
    def __init__(self):
        self.loop = asyncio.new_event_loop()
        asyncio.set_event_loop(self.loop)
        self.server = aioftp.Server()
        self.client = aioftp.Client()

    def run(self, coro):
        return self.loop.run_until_complete(coro)

    # --- client: capture what a high-level method writes for one command
    def client_lines(self, method, *args, **kw):
        client = aioftp.Client()
        cap = CapStream()
        client.stream = cap
        replies = {"MKD": ("257", [" ok"]), "RMD": ("250", [" ok"]), "DELE": ("250", [" ok"]), "RNFR": ("350", [" ok"]),
                   "RNTO": ("250", [" ok"]), "CWD": ("250", [" ok"]), "CDUP": ("250", [" ok"])}
        base_command = aioftp.Client.command

        async def command(command=None, expected_codes=(), wait_codes=(), censor_after=None):
            if command.startswith("MLST "):  # make_directory asks exists() first: say "no such path"
                raise errors.StatusCodeError(aioftp.Code("2xx"), aioftp.Code("550"), ["path does not exists"])
            await base_command(client, command, (), (), censor_after=censor_after)
            code, info = replies[command.split(" ", 1)[0]]
            return aioftp.Code(code), info

        client.command = command
        self.run(getattr(client, method)(*args, **kw))
        return cap.data

    def server_parse(self, data):
        kind, val, rest = self.run(_feed_and_run(lambda s: self.server.parse_command(s), [data], lambda r: aioftp.StreamIO(r, NullWriter())))
        return kind, val, rest

    def pwd_wire(self, cwd):
        replies = []
        conn = aioftp.Connection(logged=True, current_directory=cwd, response=lambda *a: replies.append(a))
        self.run(self.server.pwd(conn, ""))
        (code, info), = replies
        st = CapStream()
        self.run(self.server.write_response(st, code, info))
        return info, st.data

    def client_parse(self, data):
        def mk(reader):
            self.client.stream = aioftp.StreamIO(reader, NullWriter())
            return self.client.stream

        kind, val, rest = self.run(_feed_and_run(lambda s: self.client.parse_response(), [data], mk))
        return kind, val, rest

    def close(self):
        self.loop.close()


def canon_ppath(p):
    anchor = {"": 0, "/": 1, "//": 2}[p.root]
    return [anchor, list(p.parts[1:] if p.root else p.parts)]


def model_ppath(m):
    return [m[0], sx.txts(m[1])]


def conv_mlsx(mo):
    if mo[0] != 0:
        return "ValueError"
    return [model_ppath(mo[1][0]), {sx.txt(k): sx.txt(v) for k, v in mo[1][1]}]


def shape(names):
    """coarse input shape for finding keys"""
    if any('"' in n for n in names):
        return "quote"
    if any(n != n.lstrip() for n in names):
        return "leading-space"
    return "other"


# ---------------------------------------------------------------- function level
def stream_codecs(ctx, xcheck):
    rng = ctx.rng
    impl = Impl()
    n = 6000 if ctx.tier == "thorough" else 2000
    names = list(dict.fromkeys(SPECIAL + [gen_name(rng) for _ in range(n)]))
    names = [x for x in names if valid_name(x)]
    ctx.count("names", len(names))
    ctx.count("names_with_quote", sum('"' in x for x in names))
    ctx.count("names_leading_space", sum(x != x.lstrip() for x in names))
    ctx.count("names_non_ascii", sum(not x.isascii() for x in names))
    P = pathlib.PurePosixPath
    pio = aioftp.MemoryPathIO(timeout=None, connection=None)
    impl.run(pio.mkdir(P("/d")))
    conn = aioftp.Connection(path_io=pio)
    methods = [("make_directory", "MKD", {"parents": False}), ("remove_directory", "RMD", {}), ("remove_file", "DELE", {}), ("change_directory", "CWD", {})]
    pending = []  # (fn, arg, stream, compare(mo) -> (model_canon, impl_canon))

    def defer(fn, arg, stream, impl_canon, conv):
        pending.append((fn, arg, stream, impl_canon, conv))

    for i, name in enumerate(names):
        depth = 1 + i % 3
        comps = [names[(i * 7 + j * 13) % len(names)] for j in range(depth - 1)] + [name]
        path = P("/" if i % 2 == 0 else "", *comps)
        # (a) command path: client builds, server parses
        mname, verb, kw = methods[i % len(methods)]
        data = impl.client_lines(mname, path, **kw)
        ctx.case(("cmd", verb, str(path)))
        ctx.traces_impl += 1
        defer(50, [verb, str(path)], "client_cmd", data, lambda mo: sx.txt(mo).encode("utf-8"))
        kind, val, rest = impl.server_parse(data)
        ic = [0, val[0], canon_ppath(P(val[1]))] if kind == "ok" else [2]
        defer(51, [data.decode("utf-8")], "server_arg", ic, lambda mo: [0, sx.txt(mo[1][0]), model_ppath(mo[1][1])] if mo[0] == 0 else [2])
        if kind != "ok" or val[0] != verb.lower() or P(val[1]) != path or rest != b"":
            ctx.violation("the server does not parse back the path the client sent", {"key": f"c08-cmd-{shape(comps)}", "verb": verb, "path": str(path), "parsed": repr(val)})

        # (b) PWD: server formatter, reply framing, client parser
        cwd = P("/", *comps)
        info, wire_b = impl.pwd_wire(cwd)
        defer(52, [str(cwd)], "pwd_info", info, lambda mo: sx.txt(mo))
        kind, val, rest = impl.client_parse(wire_b)
        ctx.case(("pwd", str(cwd)))
        ctx.traces_impl += 1
        got = None
        if kind == "ok":
            got = impl.client.parse_directory_response(val[1][-1])
            defer(53, [val[1][-1]], "parse_directory_response", canon_ppath(got), model_ppath)
        if got != cwd:
            ctx.violation("PWD reports a different directory than the working directory", {"key": f"c08-pwd-{shape(comps)}", "cwd": str(cwd), "reported": str(got)})

        # (c) MLSD line, (d) MLST reply, (e) LIST line for a node called `name`
        node = P("/d") / name
        if i % 2:
            impl.run(pio.mkdir(node))
        else:
            async def mk():
                async with pio.open(node, "wb") as f:
                    await f.write(b"12345")
            impl.run(mk())
        st = impl.run(pio.stat(node))
        facts = [[k, str(v)] for k, v in impl.server._build_mlsx_facts_from_stats(st).items()] + [["Type", "dir" if i % 2 else "file"]]
        s = impl.run(impl.server.build_mlsx_string(conn, node))
        defer(54, [facts, name], "build_mlsx_string", s, lambda mo: sx.txt(mo))
        line = (s + "\r\n").encode("utf-8")
        p_got, e_got = impl.client.parse_mlsx_line(line)
        ctx.case(("mlsd", name))
        ctx.traces_impl += 1
        defer(55, [line.decode("utf-8")], "parse_mlsx_line", [canon_ppath(p_got), e_got], conv_mlsx)
        if p_got != P(name) or (P("/d") / p_got) != node:
            ctx.violation("MLSD line decoded to a different name", {"key": f"c08-mlsd-{shape([name])}", "name": name, "decoded": str(p_got)})
        cap = CapStream()
        impl.run(impl.server.write_response(cap, "250", ["start", s, "end"], True))
        kind, val, rest = impl.client_parse(cap.data)
        st_got = impl.client.parse_mlsx_line(val[1][1].lstrip())[0]
        ctx.case(("mlst", name))
        defer(56, [list(val[1])], "stat_parse", canon_ppath(st_got), lambda mo: model_ppath(mo[1][0]) if mo[0] == 0 else None)
        if st_got != P(name):
            ctx.violation("MLST reply decoded to a different name", {"key": f"c08-mlst-{shape([name])}", "name": name, "decoded": str(st_got)})
        ls = impl.run(impl.server.build_list_string(conn, node))
        mode, nlink, size = statmod.filemode(st.st_mode), str(st.st_nlink), str(st.st_size)
        head = " ".join([mode, nlink, "none", "none", size]) + " "
        mtime = ls[len(head): len(head) + 12]
        defer(57, [mode, nlink, size, mtime, name], "build_list_string", ls, lambda mo: sx.txt(mo))
        try:
            l_got = impl.client.parse_list_line_unix((ls + "\r\n").encode("utf-8"))[0]
        except (ValueError, KeyError, IndexError):
            l_got = None
        ctx.case(("list", name))
        defer(58, [ls + "\r\n"], "parse_list_line_unix", l_got and canon_ppath(l_got), lambda mo: model_ppath(mo[1][2]) if mo[0] == 0 else None)
        if l_got != P(name):
            sh = "leading-space" if name != name.lstrip() else ("other" if l_got is not None else "raises")
            ctx.violation("LIST line decoded to a different name", {"key": f"c08-list-{sh}", "name": name, "decoded": str(l_got)})
        impl.run(pio.rmdir(node) if i % 2 else pio.unlink(node))
    # parser-only stream: listing lines WITHOUT a pathname (ValueError since the F12 repair; the caller never gets a '.' entry)
    no_name = ["", " ", "Type=dir;", "Type=dir; ", "Type=dir;  \r\n", "Type=file;Size=1;\r\n", ";", "x", " x", "  x", "Type=dir;\tx", "a=b;\x0bx",
               "Type=dir; \t", "\r\n", "=; y", "Type=dir;x y"]
    for ln in no_name:
        try:
            p_got, e_got = impl.client.parse_mlsx_line(ln)
            ic = [canon_ppath(p_got), e_got]
        except ValueError:
            ic = "ValueError"
        ctx.case(("mlsx-noname", ln))
        defer(55, [ln], "parse_mlsx_line(no name)", ic, conv_mlsx)
    ls_head = "-rw-rw-rw- 1 none none 0 Jan  1 00:00"
    no_name_ls = [ls_head, ls_head + " ", ls_head + "   \r\n", ls_head + " x", ls_head + "  x \r\n", "drwxrwxrwx 2 none none 0 Jan  1 00:00 \t ",
                  ls_head + " \x85", ls_head[:-1], "-rw-rw-rw- 1 none none 0", ""]
    for ln in no_name_ls:
        try:
            l_got = impl.client.parse_list_line_unix(ln.encode("utf-8"))[0]
        except (ValueError, KeyError, IndexError):
            l_got = None
        ctx.case(("list-noname", ln))
        defer(58, [ln], "parse_list_line_unix(no name)", l_got and canon_ppath(l_got), lambda mo: model_ppath(mo[1][2]) if mo[0] == 0 else None)
    ctx.count("listing_lines_without_name", len(no_name) + len(no_name_ls))
    # parser-only stream: hand-made PWD replies (quotes doubled, trailing text, no quotes, unterminated)
    raw = ['"/a"', ' "/a""b" is cwd', '"/a"""', '""', 'no quotes', ' "/a" "b"', '"/x""""y"', '"""', ' "a', '"/a""" x', '"/a" "" b',
           '""""', '"""""', '"a"""""', '"a""""" x', '"a"""" x', ' """a"', ' """"a"', '"a"b"c"', '"a""', '"a"" x']
    raw += [" " + '"' + gen_name(rng) + '"' + rng.choice(["", " x", '"']) for _ in range(200)]
    # ... and every string over {quote, a, space} up to length 6 (9 in thorough): the whole loop, model against code
    alpha = ['"', "a", " "]
    top = 9 if ctx.tier == "thorough" else 6
    layer = [""]
    for _ in range(top):
        layer = [x + c for x in layer for c in alpha]
        raw += layer
    for r in raw:
        got = impl.client.parse_directory_response(r)
        ctx.case(("pdr", r))
        defer(53, [r], "parse_directory_response(raw)", canon_ppath(got), model_ppath)
    ctx.count("raw_directory_responses", len(raw))
    # formatter/parser pair, bounded-exhaustive: every directory string over {quote, a, space, slash} of length <= 5 (7 in
    # thorough) below the root, real Server.pwd -> info line as the client sees it (' ' + info, rstripped) -> real
    # parse_directory_response; oracle: the same PurePosixPath comes back
    alpha = ['"', "a", " ", "/"]
    top = 7 if ctx.tier == "thorough" else 5
    layer, dirs = [""], []
    for _ in range(top):
        layer = [x + c for x in layer for c in alpha]
        dirs += layer
    n_pair = 0
    for d in dirs:
        cwd = P("/" + d)
        if str(cwd) != str(cwd).rstrip():
            continue  # a component with trailing whitespace is not a name of the property
        replies = []
        c2 = aioftp.Connection(logged=True, current_directory=cwd, response=lambda *a_: replies.append(a_))
        impl.run(impl.server.pwd(c2, ""))
        info = replies[0][1]
        n_pair += 1
        ctx.case(("pwd-pair", d))
        if n_pair % 7 == 0:
            defer(52, [str(cwd)], "pwd_info(exhaustive)", info, lambda mo: sx.txt(mo))
        got = impl.client.parse_directory_response((" " + info).rstrip())
        if got != cwd:
            ctx.violation("PWD info line formatted by the server is parsed by the client to a different directory",
                          {"key": f"c08-pwd-{shape([d])}", "cwd": str(cwd), "reported": str(got)})
        # text after the closing quote (257 <quoted> created) is never sent by aioftp's own server: outside the property,
        # so tied to the model (C08_pwd_trailing_text_ignored) instead of the property oracle
        line = " " + info + " is the current directory"
        defer(53, [line], "parse_directory_response(server info + trailing text)", canon_ppath(impl.client.parse_directory_response(line)), model_ppath)
    ctx.traces_impl += n_pair
    ctx.count("pwd_pair_exhaustive", n_pair)
    out = ctx.model([(fn, arg) for fn, arg, _, _, _ in pending])
    for (fn, arg, stream, impl_canon, conv), mo in zip(pending, out):
        mc = conv(mo)
        if mc != impl_canon:
            ctx.disagree(stream, arg, mc if not isinstance(mc, bytes) else mc.decode("utf-8", "replace"),
                         impl_canon if not isinstance(impl_canon, bytes) else impl_canon.decode("utf-8", "replace"))
    step = max(1, len(pending) // 90)
    xcheck.extend((fn, arg, mo) for (fn, arg, _, _, _), mo in list(zip(pending, out))[::step][:90])
    ctx.count("codec_model_evaluations", len(pending))
    ctx.sample({"stream": "codecs", "names": names[:8]})
    impl.close()


# ---------------------------------------------------------------- wire level
async def wire_names(ctx, cases, sessions=None):
    P = pathlib.PurePosixPath
    n_ops = 0
    async with wire.Pair(None, {}) as p:
        # every command line the client really sends, with the first reply code it got (for the session model)
        log = []

        def attach(client):
            real_command = client.command

            async def logged_command(command=None, expected_codes=(), wait_codes=(), censor_after=None):
                try:
                    r = await real_command(command, expected_codes, wait_codes, censor_after=censor_after)
                except errors.StatusCodeError as e:
                    if command:
                        log.append((command, str(e.received_codes[-1])))
                    raise
                if command:
                    log.append((command, str(r[0])))
                return r

            client.command = logged_command
            return client

        c = attach(p.client)
        for comps, other in cases:
            p.server.path_io_factory.state[:] = wire.mem_state({})
            del log[:]
            payloads, obs = [], {"pwd": [], "retr": [], "listed": []}
            cur = ["start"]  # the client operation in progress (an exception is reported against it)
            await c.change_directory("/")
            path = P("/", *comps)
            name = comps[-1]
            sh = shape(comps + [other])
            data = ("data:" + name).encode("utf-8")

            def expect(tree_leaf):
                t = tree_leaf
                for x in reversed(comps):
                    t = {x: t}
                return t

            def bad(step, detail, key_shape=None):
                ctx.violation(
                    f"{step}: the operation did not denote the object named by the path ({detail})",
                    {"key": f"c08-wire-{step}-{key_shape or sh}", "path": str(path), "other": other, "step": step, "detail": detail},
                )

            ctx.case(("wire", tuple(comps), other))
            ctx.traces_impl += 1
            try:
                cur[0] = "mkd"
                await c.make_directory(path)
                n_ops += 1
                if p.tree() != expect({}):
                    bad("mkd", f"tree {p.tree()!r}")
                    continue
                cur[0] = "pwd"
                await c.change_directory(path)
                cwd = await c.get_current_directory()
                obs["pwd"].append(str(cwd))
                n_ops += 2
                if cwd != path:
                    bad("pwd", f"reported {str(cwd)!r}", shape(comps))
                # from inside: relative name
                cur[0] = "stor-relative"
                payloads.append(data)
                async with c.upload_stream(name) as s:
                    await s.write(data)
                n_ops += 1
                if p.tree() != expect({name: data}):
                    bad("stor-relative", f"tree {p.tree()!r}")
                await c.change_directory("/")
                cur[0] = "mlsd"
                listed = sorted((str(q), i["type"]) for q, i in await c.list(path))
                obs["listed"].append(sorted(q.rsplit("/", 1)[-1] for q, _ in listed))
                n_ops += 1
                if listed != [(str(path / name), "file")]:
                    bad("mlsd", f"listed {listed!r}")
                cur[0] = "list"
                listed2 = sorted((str(q), i["type"]) for q, i in await c.list(path, raw_command="LIST"))
                obs["listed"].append(None)  # LIST: the names are compared by the oracle below, not with the model (F13)
                n_ops += 1
                if listed2 != [(str(path / name), "file")]:
                    bad("list", f"listed {listed2!r}", "leading-space" if name != name.lstrip() else "other")
                cur[0] = "mlst"
                info = await c.stat(path / name)
                n_ops += 1
                if info.get("type") != "file" or info.get("size") != str(len(data)):
                    bad("mlst", f"info {info!r}")
                if not await c.is_dir(path):
                    bad("mlst-dir", "not a directory")
                cur[0] = "retr"
                async with c.download_stream(path / name) as s:
                    got = await s.read()
                obs["retr"].append(got)
                n_ops += 1
                if got != data:
                    bad("retr", f"got {got!r}")
                cur[0] = "appe"
                payloads.append(b"+")
                async with c.append_stream(path / name) as s:
                    await s.write(b"+")
                n_ops += 1
                if p.tree() != expect({name: data + b"+"}):
                    bad("appe", f"tree {p.tree()!r}")
                cur[0] = "rename"
                if other != name:
                    await c.rename(path / name, path / other)
                    n_ops += 1
                    if p.tree() != expect({other: data + b"+"}):
                        bad("rename", f"tree {p.tree()!r}")
                    await c.rename(path / other, path / name)
                cur[0] = "dele"
                await c.remove(path / name)
                n_ops += 1
                if p.tree() != expect({}):
                    bad("dele", f"tree {p.tree()!r}")
                cur[0] = "rmd"
                await c.remove_directory(path)
                n_ops += 1
                if p.tree() != _parent_tree(comps):
                    bad("rmd", f"tree {p.tree()!r}")
                # the same node through RELATIVE spellings from inside its parent (the steps of C08_name_transparent)
                cur[0] = "mkd-rel"
                parent = path.parent
                await c.change_directory(parent)
                await c.make_directory(P(name))
                n_ops += 2
                if p.tree() != expect({}):
                    bad("mkd-rel", f"tree {p.tree()!r}")
                    continue
                cur[0] = "mlsd-parent"
                here = sorted((str(q), i["type"]) for q, i in await c.list())  # the default path: 'MLSD' alone
                obs["listed"].append(sorted(q for q, _ in here))
                n_ops += 1
                if here != [(name, "dir")]:
                    bad("mlsd-parent", f"listed {here!r}")
                there = sorted((str(q), i["type"]) for q, i in await c.list(parent))
                obs["listed"].append(sorted(q.rsplit("/", 1)[-1] for q, _ in there))
                n_ops += 1
                if there != [(str(path), "dir")]:
                    bad("mlsd-parent-abs", f"listed {there!r}")
                cur[0] = "mlst-name"
                code, info = await c.command("MLST " + name, "2xx")
                n_ops += 1
                st_name = c.parse_mlsx_line(info[1].lstrip())[0]
                if st_name != P(name):
                    bad("mlst-name", f"reply names {str(st_name)!r}")
                cur[0] = "cwd-rel"
                await c.change_directory(P(name))
                cwd = await c.get_current_directory()
                obs["pwd"].append(str(cwd))
                n_ops += 2
                if cwd != path:
                    bad("cwd-rel", f"PWD reported {str(cwd)!r}", shape(comps))
                cur[0] = "cdup"
                await c.change_directory("..")
                cwd = await c.get_current_directory()
                obs["pwd"].append(str(cwd))
                n_ops += 2
                if cwd != parent:
                    bad("cdup", f"PWD reported {str(cwd)!r}", shape(comps))
                cur[0] = "rename-dir"
                if other != name:
                    await c.rename(P(name), P(other))
                    n_ops += 1
                    if p.tree() != _nest(comps[:-1] + [other]):
                        bad("rename-dir", f"tree {p.tree()!r}")
                    await c.rename(P(other), P(name))
                    if p.tree() != expect({}):
                        bad("rename-dir-back", f"tree {p.tree()!r}")
                cur[0] = "rmd-rel"
                await c.remove_directory(P(name))
                n_ops += 1
                if p.tree() != _parent_tree(comps):
                    bad("rmd-rel", f"tree {p.tree()!r}")
                # the SAME name nested three deep (n/n/n), created step by step with RELATIVE spellings from inside, on this one
                # client session: a relative name must denote the child of the CURRENT working directory every time, and a
                # child carrying its parent's own name must be listed under exactly that name (MLSD and LIST, relative listed
                # path, also recursively)
                nest_ok = True
                for d in (1, 2, 3):
                    cur[0] = "nest-mkd"
                    await c.make_directory(P(name))
                    n_ops += 1
                    if p.tree() != _nest(comps[:-1] + [name] * d):
                        bad("nest-mkd", f"depth {d}: make_directory({name!r}) inside {str(P(parent, *[name] * (d - 1)))!r} left the tree {p.tree()!r}")
                        nest_ok = False
                        break
                    cur[0] = "nest-cwd"
                    await c.change_directory(P(name))
                    cwd = await c.get_current_directory()
                    obs["pwd"].append(str(cwd))
                    n_ops += 2
                    if cwd != P(parent, *[name] * d):
                        bad("nest-pwd", f"depth {d}: PWD reported {str(cwd)!r}", shape(comps))
                if nest_ok:
                    cur[0] = "nest-stor"
                    payloads.append(data)
                    async with c.upload_stream(name) as s:
                        await s.write(data)
                    n_ops += 1
                    if p.tree() != _nest(comps[:-1] + [name] * 3 + [name], data):
                        bad("nest-stor", f"tree {p.tree()!r}")
                    full = [(f"{name}/{name}", "dir"), (f"{name}/{name}/{name}", "dir"), (f"{name}/{name}/{name}/{name}", "file")]
                    for where, listed_from in (("parent", parent), ("inside", parent / name)):
                        cur[0] = "nest-cwd"
                        await c.change_directory(listed_from)
                        want = [full[0]] if where == "parent" else [(f"{name}/{name}", "dir")]
                        for raw in ("MLSD", "LIST"):
                            lsh = "leading-space" if raw == "LIST" and name != name.lstrip() else None
                            cur[0] = f"nest-{raw.lower()}-{where}"
                            before = len(log)
                            got_l = sorted((str(q), i["type"]) for q, i in await c.list(P(name), raw_command=raw))
                            obs["listed"] += [None] * sum(1 for l, _ in log[before:] if l.split(" ", 1)[0] in ("MLSD", "LIST"))
                            n_ops += 1
                            if got_l != want:
                                bad(cur[0], f"list({name!r}, raw_command={raw!r}) from {str(listed_from)!r} gave {got_l!r}, expected {want!r}", lsh)
                                continue
                            if where != "parent":
                                continue
                            # the recursive walk (bounded: a listing that reports the listed directory itself never ends)
                            cur[0] = f"nest-{raw.lower()}-recursive"
                            before = len(log)
                            walked, runaway = [], False
                            async for q, i in c.list(P(name), recursive=True, raw_command=raw):
                                walked.append((str(q), i["type"]))
                                if len(walked) > 12:
                                    runaway = True
                                    break
                            obs["listed"] += [None] * sum(1 for l, _ in log[before:] if l.split(" ", 1)[0] in ("MLSD", "LIST"))
                            n_ops += 1
                            if runaway or sorted(walked) != sorted(full):
                                bad(cur[0], f"recursive list({name!r}, raw_command={raw!r}) gave {walked!r}, expected {full!r}", lsh)
                                if runaway:
                                    raise ConnectionError("listing abandoned")
                    cur[0] = "nest-remove"
                    await c.change_directory(parent)
                    before = len(log)
                    await c.remove(P(name))
                    obs["listed"] += [None] * sum(1 for l, _ in log[before:] if l.split(" ", 1)[0] in ("MLSD", "LIST"))
                    n_ops += 2
                    if p.tree() != _parent_tree(comps):
                        bad("nest-remove", f"tree {p.tree()!r}")
                if nest_ok:
                    # rename where source and target live in DIFFERENT directories, every combination of spelling (bare,
                    # relative with a slash, with '..', absolute) and the working directory elsewhere; files and a directory
                    dn = name
                    do = next(x for x in (other + "d", other + "dd", other + "ddd") if x != dn)
                    tb = next(x for x in (other, other + ".b", other + ".bb") if x not in (dn, do))
                    here_t = lambda sub: _nest(comps[:-1], sub)
                    cur[0] = "xmv-setup"
                    await c.make_directory(P(dn))
                    await c.make_directory(P(do))
                    payloads.append(data)
                    async with c.upload_stream(P(dn) / name) as s:
                        await s.write(data)
                    n_ops += 3
                    if p.tree() != here_t({dn: {name: data}, do: {}}):
                        bad("xmv-setup", f"tree {p.tree()!r}")
                    moves = [
                        # (step, cwd for the command, source as spelled, target as spelled, tree afterwards)
                        ("xmv-relslash-to-bare", parent, P(dn) / name, P(tb), {dn: {}, do: {}, tb: data}),
                        ("xmv-bare-to-relslash", parent, P(tb), P(do) / tb, {dn: {}, do: {tb: data}}),
                        ("xmv-abs-to-bare", parent / dn, parent / do / tb, P(tb), {dn: {tb: data}, do: {}}),
                        ("xmv-bare-to-dotdot", parent / dn, P(tb), P("..") / do / name, {dn: {}, do: {name: data}}),
                        ("xmv-dotdot-to-abs", parent / dn, P("..") / do / name, parent / tb, {dn: {}, do: {}, tb: data}),
                        ("xmv-abs-to-abs", P("/"), parent / tb, parent / dn / tb, {dn: {tb: data}, do: {}}),
                        ("xmv-relslash-to-bare-elsewhere", parent / do, P("..") / dn / tb, P(name), {dn: {}, do: {name: data}}),
                        ("xmv-dir-bare-to-relslash", parent, P(do), P(dn) / do, {dn: {do: {name: data}}}),
                        ("xmv-dir-relslash-to-bare", parent, P(dn) / do, P(tb), {dn: {}, tb: {name: data}}),
                    ]
                    for step_name, wd, src, dst, after in moves:
                        cur[0] = step_name
                        await c.change_directory(wd)
                        await c.rename(src, dst)
                        n_ops += 2
                        if p.tree() != here_t(after):
                            bad(step_name, f"cwd {str(wd)!r}: rename({str(src)!r}, {str(dst)!r}) left the tree {p.tree()!r}, expected {here_t(after)!r}")
                            break
                        if not await c.exists(dst):
                            bad(step_name, f"cwd {str(wd)!r}: after rename({str(src)!r}, {str(dst)!r}) MLST {str(dst)!r} says it does not exist")
                        n_ops += 1
                    cur[0] = "xmv-cleanup"
                    await c.change_directory(parent)
                    before = len(log)
                    for x in (dn, do, tb):
                        if await c.exists(P(x)):
                            await c.remove(P(x))
                    obs["listed"] += [None] * sum(1 for l, _ in log[before:] if l.split(" ", 1)[0] in ("MLSD", "LIST"))
                    if p.tree() != _parent_tree(comps):
                        bad("xmv-cleanup", f"tree {p.tree()!r}")
                if sessions is not None and nest_ok:
                    sessions.append({"case": ["/".join(comps), other], "log": list(log), "payloads": list(payloads), "obs": obs,
                                     "tree": p.tree(), "cwd": str(parent)})
            except (errors.StatusCodeError, errors.PathIOError, ValueError, KeyError, IndexError, ConnectionError, asyncio.TimeoutError) as e:
                # an exception of the implementation is an observation: reported against the operation in progress, then the
                # run goes on with the next case on a fresh client session
                if str(e) != "listing abandoned":
                    bad(cur[0], f"raised {type(e).__name__}: {e}")
                try:
                    c.close()
                    c = aioftp.Client(path_io_factory=aioftp.MemoryPathIO, socket_timeout=20)
                    await c.connect(p.server.server_host, p.server.server_port)
                    await c.login(*p.login)
                    p.client = attach(c)
                except Exception as e2:  # the server itself is gone: nothing more to observe in this chunk
                    ctx.notes.append(f"wire chunk abandoned after {type(e).__name__}: {type(e2).__name__}: {e2}")
                    break
    return n_ops


def _nest(comps, leaf=None):
    t = {} if leaf is None else leaf
    for x in reversed(comps):
        t = {x: t}
    return t


def _model_tree(m):
    """decoded sx of a Session node -> nested dict {name: dict | bytes}"""
    if m[0] == 0:
        return bytes(m[1])
    return {sx.txt(k): _model_tree(v) for k, v in m[1]}


def session_inputs(sess):
    """the lines the client really sent -> inputs of the session model (fn 70): the payload of each STOR/APPE, and the
    peer's data connection right after each accepted EPSV/PASV"""
    inputs, pl = [], list(sess["payloads"])
    for line, code in sess["log"]:
        verb = line.split(" ", 1)[0].upper()
        if verb in ("STOR", "APPE"):
            inputs.append([1, line + "\r\n", pl.pop(0)])
        else:
            inputs.append([0, line + "\r\n"])
        if verb in ("EPSV", "PASV") and code.startswith("2"):
            inputs.append([2])
    return inputs


def check_sessions(ctx, sessions, xcheck):
    """Model/Session.v driven by the client's real lines (Model/NamesSession.irun) against what the real server did:
    first reply code of every command, PWD texts, RETR bytes, listed names, final tree and working directory"""
    if not sessions:
        return
    calls = [(70, [[1, []], session_inputs(x)]) for x in sessions]
    out = ctx.model(calls)
    n_lines = 0
    for sess, (fn, arg), mo in zip(sessions, calls, out):
        ctx.case(("session-model", tuple(sess["case"])))
        if mo[0] != 0:
            ctx.disagree("session-model", sess["case"], "model could not parse a line", [l for l, _ in sess["log"]])
            continue
        m_tree, m_cwd, outs = mo[1]
        m_codes, m_pwd, m_retr, m_listed = [], [], [], []
        for inp, o in zip(arg[1], outs):
            if inp[0] == 2:
                continue
            codes = sx.txts(o[0])
            m_codes.append(codes[0] if codes else None)
            if codes[:1] == ["257"] and inp[1].upper().startswith("PWD"):
                # the model records the 257 text as the server formats it (quotes doubled); the implementation side is
                # the directory the client decoded from it, so undouble (the inverse on doubled strings)
                m_pwd.append(sx.txt(o[1])[1:-1].replace('""', '"'))
            if o[2]:
                m_retr.append(bytes(o[2][0]))
            if o[3]:
                m_listed.append(sorted(sx.txt(e[0]) for e in o[3][0]))
        n_lines += len(m_codes)
        model = {"codes": m_codes, "pwd": m_pwd, "retr": m_retr, "tree": _model_tree(m_tree), "cwd": "/" + "/".join(sx.txts(m_cwd)),
                 "listed": [a for a, b in zip(m_listed, sess["obs"]["listed"]) if b is not None]}
        impl = {"codes": [c for _, c in sess["log"]], "pwd": sess["obs"]["pwd"], "retr": sess["obs"]["retr"], "tree": sess["tree"],
                "cwd": sess["cwd"], "listed": [b for b in sess["obs"]["listed"] if b is not None]}
        if len(m_listed) != len(sess["obs"]["listed"]):
            model["listed"] = m_listed
        if model != impl:
            diff = {k: (repr(model[k]), repr(impl[k])) for k in model if model[k] != impl[k]}
            ctx.disagree("session-model", sess["case"] + [[l for l, _ in sess["log"]]], {k: v[0] for k, v in diff.items()}, {k: v[1] for k, v in diff.items()})
    xcheck.extend((fn, arg, mo) for (fn, arg), mo in list(zip(calls, out))[:4])
    ctx.count("session_model_cases", len(sessions))
    ctx.count("session_model_command_lines", n_lines)


def _parent_tree(comps):
    t = {}
    for x in reversed(comps[:-1]):
        t = {x: t}
    return t


# ---------------------------------------------------------------- siblings and length boundary, every backend
SIB_SUFFIXES = [".part", ".tmp", "~", ".bak", ".swp", ".new", ".old", ".1", "-part", ".filepart", ".crdownload", ".lock"]
SIB_PREFIXES = [".", "~", ".#", "part."]
BACKENDS = {"memory": aioftp.MemoryPathIO, "path": aioftp.PathIO, "async": aioftp.AsyncPathIO}


def _disk_tree(root):
    def walk(d):
        out = {}
        for e in os.scandir(d):
            out[e.name] = walk(e.path) if e.is_dir(follow_symlinks=False) else open(e.path, "rb").read()
        return out

    return walk(root)


def _nbytes(n):
    return len(n.encode("utf-8"))


def long_names(rng, lengths):
    """names of exactly L UTF-8 bytes: ASCII, two-byte, four-byte code points, with metacharacter heads"""
    out = []
    for L in lengths:
        for head, fill in (("", "a"), ("", "é"), ("-d ", "\U0001F600"), ('"', "é"), (" x;=", "a")):
            n = head + fill * ((L - _nbytes(head)) // _nbytes(fill))
            n += "z" * (L - _nbytes(n))
            if valid_name(n) and _nbytes(n) == L:
                out.append(n)
    return out


class BackendPair:
    """real Server + Client over loopback on one of the three backends; .tree() is the backend's tree below the user's home"""

    def __init__(self, backend):
        self.backend = backend
        self.root = None

    async def __aenter__(self):
        if self.backend == "memory":
            self.server = aioftp.Server(None, path_io_factory=aioftp.MemoryPathIO)
            self.server.path_io_factory.state = wire.mem_state({})
        else:
            self.root = tempfile.mkdtemp(prefix="c08_", dir=str(core.BUILD))
            self.server = aioftp.Server([aioftp.User(base_path=self.root)], path_io_factory=BACKENDS[self.backend])
        await self.server.start("127.0.0.1", 0)
        await self.connect()
        return self

    async def connect(self):
        self.client = aioftp.Client(socket_timeout=10)
        await self.client.connect(self.server.server_host, self.server.server_port)
        await self.client.login("anonymous", "anon@")

    async def __aexit__(self, *exc):
        try:
            self.client.close()
            await asyncio.wait_for(self.server.close(), 10)
        finally:
            if self.root:
                shutil.rmtree(self.root, ignore_errors=True)

    def tree(self):
        return wire.snapshot(self.server.path_io_factory.state) if self.backend == "memory" else _disk_tree(self.root)

    def reset(self):
        if self.backend == "memory":
            self.server.path_io_factory.state[:] = wire.mem_state({})
        else:
            for e in os.scandir(self.root):
                shutil.rmtree(e.path) if e.is_dir(follow_symlinks=False) else os.unlink(e.path)


async def wire_siblings(ctx, backend, cases):
    """cases: ("sib", n, s) two names related by a suffix/prefix living in ONE directory, each operated on while the other
    exists; ("long", x, y, z) three names of the same UTF-8 byte length at the backend's limit.  Oracle: the backend tree after
    every operation (an operation on n leaves its sibling untouched); a refusal or a hang of the implementation is an observation."""
    P = pathlib.PurePosixPath
    n_ops = 0
    async with BackendPair(backend) as p:
        for case in cases:
            p.reset()
            c = p.client
            kind = case[0]
            cur = ["start"]
            exp = {}

            def bad(step, detail):
                ctx.violation(f"{kind}/{step} on the {backend} backend: {detail}",
                              {"key": f"c08-{kind}-{step}", "backend": backend, "case": list(case), "step": step, "detail": detail})

            async def put(name, data, append=False):
                async with (c.append_stream if append else c.upload_stream)(P(name)) as st:
                    await st.write(data)

            async def step(name, op, *a, expect=None):
                """one client operation, then the tree oracle"""
                nonlocal n_ops
                cur[0] = name
                r = await asyncio.wait_for(op(*a), 15)
                n_ops += 1
                if expect is not None and p.tree() != {"d": expect}:
                    bad(name, f"tree {p.tree()!r}, expected {{'d': {expect!r}}}")
                return r

            async def get(name):
                async with c.download_stream(P(name)) as st:
                    return await st.read()

            ctx.case(("siblings", backend) + tuple(case))
            ctx.traces_impl += 1
            try:
                await c.change_directory("/")
                if kind == "long":
                    _, x, y, z = case
                    try:
                        await c.make_directory(P("d") / x)
                    except errors.StatusCodeError:
                        continue  # the backend does not carry a name of this length at all: outside the property
                    await step("cwd", c.change_directory, P("d") / x)
                    await step("cdup", c.change_directory, P("/d"))
                    dy = b"y:" + y.encode("utf-8")[:40]
                    await step("stor", put, y, dy, expect={x: {}, y: dy})
                    listed = sorted((str(q), i["type"]) for q, i in await step("mlsd", c.list))
                    if listed != sorted([(x, "dir"), (y, "file")]):
                        bad("mlsd", f"listed {listed!r}")
                    info = await step("mlst", c.stat, P(y))
                    if info.get("type") != "file":
                        bad("mlst", f"info {info!r}")
                    if await step("retr", get, y) != dy:
                        bad("retr", "other bytes")
                    await step("appe", put, y, b"+", True, expect={x: {}, y: dy + b"+"})
                    await step("rename", c.rename, P(y), P(z), expect={x: {}, z: dy + b"+"})
                    await step("stor-again", put, y, dy, expect={x: {}, y: dy, z: dy + b"+"})
                    await step("dele", c.remove, P(z), expect={x: {}, y: dy})
                    await step("rmd", c.remove_directory, P(x), expect={y: dy})
                    continue
                _, n, sib = case
                dn, ds = b"n:" + n.encode("utf-8"), b"s:" + sib.encode("utf-8")
                await c.make_directory(P("d"))
                await c.change_directory(P("d"))
                # the sibling is a file first
                await step("stor-sibling", put, sib, ds, expect={sib: ds})
                await step("stor", put, n, dn, expect={sib: ds, n: dn})
                await step("appe", put, n, b"+", True, expect={sib: ds, n: dn + b"+"})
                if await step("retr", get, n) != dn + b"+" or await step("retr-sibling", get, sib) != ds:
                    bad("retr", "other bytes")
                await step("stor-over", put, n, dn, expect={sib: ds, n: dn})
                listed = sorted((str(q), i["type"]) for q, i in await step("mlsd", c.list))
                if listed != sorted([(n, "file"), (sib, "file")]):
                    bad("mlsd", f"listed {listed!r}")
                await step("rename", c.rename, P(n), P(n + ".moved"), expect={sib: ds, n + ".moved": dn})
                await step("rename-back", c.rename, P(n + ".moved"), P(n), expect={sib: ds, n: dn})
                await step("stor-sibling-over", put, sib, ds + b"2", expect={sib: ds + b"2", n: dn})
                await step("dele", c.remove, P(n), expect={sib: ds + b"2"})
                await step("stor-again", put, n, dn, expect={sib: ds + b"2", n: dn})
                await step("dele-sibling", c.remove, P(sib), expect={n: dn})
                # the sibling is a directory
                await step("mkd-sibling", c.make_directory, P(sib), expect={sib: {}, n: dn})
                await step("stor-next-to-dir", put, n, dn + b"3", expect={sib: {}, n: dn + b"3"})
                await step("dele-next-to-dir", c.remove, P(n), expect={sib: {}})
                await step("stor-new-next-to-dir", put, n, dn, expect={sib: {}, n: dn})
                await step("stor-into-sibling", put, sib + "/" + n, dn, expect={sib: {n: dn}, n: dn})
                await step("dele-2", c.remove, P(n), expect={sib: {n: dn}})
                # and the other way round: n is a directory, the sibling a file
                await step("mkd", c.make_directory, P(n), expect={sib: {n: dn}, n: {}})
                await step("rmd-sibling-tree", c.remove, P(sib), expect={n: {}})
                await step("stor-sibling-next-to-dir", put, sib, ds, expect={n: {}, sib: ds})
                await step("rmd", c.remove_directory, P(n), expect={sib: ds})
            except (errors.StatusCodeError, errors.PathIOError, ValueError, KeyError, IndexError, ConnectionError, asyncio.TimeoutError, OSError) as e:
                bad(cur[0], f"raised {type(e).__name__}: {e}; tree {p.tree()!r}")
                try:
                    p.client.close()
                    await asyncio.wait_for(p.connect(), 10)
                except Exception as e2:
                    ctx.notes.append(f"siblings chunk on {backend} abandoned: {type(e2).__name__}: {e2}")
                    break
    return n_ops


def sibling_cases(ctx):
    rng = ctx.rng
    k = 36 if ctx.tier == "thorough" else 10
    base = ["report", "data", 'a"b', " x", "Type=dir; y", "250 z", "x.part", "é"] + [gen_name(rng) for _ in range(k)]
    cases = []
    for i, n in enumerate(dict.fromkeys(base)):
        for j in range(3 if ctx.tier == "thorough" else 2):
            t = (i * 5 + j * 7) % (len(SIB_SUFFIXES) + len(SIB_PREFIXES))
            sib = n + SIB_SUFFIXES[t] if t < len(SIB_SUFFIXES) else SIB_PREFIXES[t - len(SIB_SUFFIXES)] + n
            if j == 0 and i < 8:
                sib = n + ".part" if i % 2 == 0 else n + ".tmp"
            if valid_name(sib) and sib != n:
                cases.append(("sib", n, sib))
    longs = long_names(rng, [200, 250, 251, 252, 253, 254, 255] if ctx.tier == "thorough" else [250, 251, 254, 255])
    for n in longs:
        y = n[:-1] + ("y" if n[-1] != "y" else "w")
        z = n[:-1] + ("q" if n[-1] != "q" else "w")
        if len({n, y, z}) == 3 and all(valid_name(v) for v in (y, z)):
            cases.append(("long", n, y, z))
    # mix the two kinds so that the first reported replays show both dimensions
    longs_c = [c for c in cases if c[0] == "long"]
    sibs_c = [c for c in cases if c[0] == "sib"]
    return longs_c[:2] + sibs_c[:2] + longs_c[2:] + sibs_c[2:]


def stream_siblings(ctx):
    cases = sibling_cases(ctx)
    total = 0
    for backend in BACKENDS:
        try:
            total += wire.run(wire_siblings(ctx, backend, cases), timeout=900)
        except asyncio.TimeoutError:
            ctx.violation(f"the siblings stream on the {backend} backend did not finish within its budget (a hang of the implementation)",
                          {"key": f"c08-sib-hang-{backend}", "backend": backend})
    ctx.count("sibling_cases_per_backend", sum(c[0] == "sib" for c in cases))
    ctx.count("long_name_cases_per_backend", sum(c[0] == "long" for c in cases))
    ctx.count("sibling_stream_operations", total)
    ctx.sample({"stream": "siblings", "cases": [list(c)[:3] for c in cases[:4]], "backends": list(BACKENDS)})


def stream_wire(ctx, xcheck=None):
    rng = ctx.rng
    n = 600 if ctx.tier == "thorough" else 160
    names = [x for x in SPECIAL if valid_name(x)]
    rng.shuffle(names)
    names = names[: max(n // 2, len(names)) if ctx.tier == "thorough" else (3 * n) // 4] + [gen_name(rng) for _ in range(n // 4)]
    cases = []
    for i, name in enumerate(names):
        depth = 1 + i % 3
        comps = [names[(i * 5 + j * 11 + 1) % len(names)] for j in range(depth - 1)] + [name]
        if i % 4 == 3:
            comps = [name] * depth  # a name equal to its ancestors' names
        cases.append((comps, names[(i * 3 + 2) % len(names)]))
    # a few chunks so that one broken session does not hide the rest
    total = 0
    sessions = []
    for k in range(0, len(cases), 20):
        total += wire.run(wire_names(ctx, cases[k: k + 20], sessions), timeout=600)
    if xcheck is not None and ctx.exe is not None:
        check_sessions(ctx, sessions, xcheck)
    ctx.count("wire_name_cases", len(cases))
    ctx.count("wire_paths_with_quote", sum(any('"' in x for x in c) for c, _ in cases))
    ctx.count("wire_paths_repeating_a_name", sum(len(set(c)) < len(c) for c, _ in cases))
    ctx.count("wire_operations", total)
    ctx.sample({"stream": "wire", "paths": ["/" + "/".join(c) for c, _ in cases[:5]]})


# ---------------------------------------------------------------- known findings
def known(ctx):
    P = pathlib.PurePosixPath
    for f in ctx.kf:
        if "c08-list-leading-space" in f.get("keys", []):
            client = aioftp.Client()
            got = client.parse_list_line_unix(b"-rw-rw-rw- 1 none none 0 Jan  1 00:00  x\r\n")[0]
            if got != P(" x"):
                ctx.known_reproduced(f["id"], f"LIST line for the name ' x' parsed as {str(got)!r}")


def correspondence(ctx):
    ctx.extra["rule"] = (
        "names: a fixed list of 48 metacharacter names (quotes single/doubled/leading/trailing, space runs, ';', '=', 'Type=dir;', "
        "'->', '-', 3-digit prefixes, backslash, '%', combining, astral, NEL/VT/NBSP inside) plus random concatenations of 1-5 atoms "
        "of the same kind, made valid (no '/', NUL, CR, LF, no trailing whitespace). streams: (codecs) per name, at depth 1-3 with "
        "other generated names as parents: client command bytes (real make_directory/remove_directory/remove_file/change_directory) "
        "-> real parse_command; real pwd handler -> write_response -> parse_response -> parse_directory_response; real "
        "build_mlsx_string on a MemoryPathIO node -> parse_mlsx_line; MLST reply -> info[1].lstrip(); build_list_string -> "
        "parse_list_line_unix; each stage against the model, decode(encode(name)) = name as oracle (names with double quotes are "
        "ordinary cases of every stream); raw directory responses: hand-made, random, and every string over {quote, a, space} up to "
        "length 6 (thorough: 9) against the model; every directory string over {quote, a, space, slash} up to length 5 (thorough: 7) through real Server.pwd "
        "and real parse_directory_response, same path back as oracle (with trailing text after the closing quote: against the model); (wire) "
        "real Server+Client over loopback: make_directory, change_directory, get_current_directory, upload_stream (relative), list "
        "(MLSD and raw LIST), stat, is_dir, download_stream, append_stream, rename there and back, remove, remove_directory, the "
        "backend tree compared with the expected tree after every step; then from inside the parent with RELATIVE spellings: "
        "make_directory, list() (MLSD alone) and list(parent): exactly one entry named n of type dir, raw MLST n: the reply's name, "
        "change_directory(n) + PWD, change_directory('..') + PWD, rename of the directory to the other name and back, "
        "remove_directory; then the SAME name nested three deep (n/n/n) on the same client session, created step by step with "
        "relative make_directory + change_directory + PWD from inside, a relative upload at the bottom, list(n) from the parent and "
        "from inside n with MLSD and with LIST (the child carries the listed directory's own name; relative one-component listed "
        "path) and the bounded recursive walk with both, remove of the tree; a quarter of the cases at depth 2-3 repeat one name "
        "along the whole path; an exception of the implementation is reported against the operation in progress and the run goes "
        "on with a fresh client session; then renames whose source and target live in DIFFERENT directories, files and a "
        "directory, every combination of spelling (bare, relative with a slash, with '..', absolute) with the working directory "
        "at the parent, inside the source directory, inside the target directory and at the root, tree + MLST of the target after "
        "each; the fixed name pool also has whole names that are single special characters or short shell-ish tokens (~ ~~ ~user - "
        "-- * ? ! # $HOME % & | > < ` ' \\ {} [a] .hidden ... @ : + = ; , ^ ( ) $ *.* -v); (siblings, on EACH backend MemoryPathIO / PathIO / AsyncPathIO over loopback) two names "
        "related by a suffix or prefix (.part .tmp ~ .bak .swp .new .old .1 -part .filepart .crdownload .lock; . ~ .# part.) in ONE "
        "directory, each uploaded / appended / downloaded / overwritten / renamed / deleted while the other exists as a file and "
        "as a directory, and names of exactly 250..255 UTF-8 bytes (1-, 2- and 4-byte code points, metacharacter heads) that the "
        "backend accepts for MKD: CWD, STOR, MLSD, MLST, RETR, APPE, RNFR/RNTO, DELE, RMD under names of the same length; the "
        "backend tree is compared after every operation (an operation on n leaves its sibling untouched), every operation under "
        "a 15 s watchdog (a hang is an observation); (session-model) every command line the real client sent in a wire case (with the STOR/APPE payloads and "
        "a data connection after each EPSV) is run through Model/NamesSession.irun (parse_command + Model/Session.v): first reply "
        "code of every command, PWD texts, RETR bytes, listed names, final tree and working directory must equal what the real "
        "server did. Non-trivial = distinct input."
    )
    xcheck = []
    stream_codecs(ctx, xcheck)
    xcheck2 = []
    stream_wire(ctx, xcheck2)
    stream_siblings(ctx)
    xcheck = xcheck[:96] + xcheck2
    ok, out = core.vm_crosscheck(EXTRACT, xcheck[:100])
    ctx.extra["vm_compute_crosscheck"] = {"cases": len(xcheck[:100]), "agree": ok}
    if not ok:
        ctx.obligation_broken("extraction-crosscheck", out)


def search(ctx):
    if ctx.violations or ctx.tier == "thorough" or ctx.exe is None:
        return
    try:
        ctx.tier = "thorough"
        stream_wire(ctx)
    except Exception as e:
        ctx.notes.append(f"search aborted: {e!r}")
    finally:
        ctx.tier = "quick"


def replay(ctx, data):
    r = data.get("replay", {})
    key = r.get("key", "")
    P = pathlib.PurePosixPath
    if key.startswith("c08-pwd-"):
        impl = Impl()
        info, wire_b = impl.pwd_wire(P(r["cwd"]))
        kind, val, rest = impl.client_parse(wire_b)
        got = impl.client.parse_directory_response(val[1][-1])
        print("server sends", info, "client parses", str(got))
        return got == P(r["cwd"])
    if key.startswith("c08-list-") or key.startswith("c08-mlsd-") or key.startswith("c08-mlst-"):
        impl = Impl()
        pio = aioftp.MemoryPathIO(timeout=None, connection=None)
        node = P("/") / r["name"]
        impl.run(pio.mkdir(node))
        conn = aioftp.Connection(path_io=pio)
        if key.startswith("c08-list-"):
            ls = impl.run(impl.server.build_list_string(conn, node))
            got = impl.client.parse_list_line_unix((ls + "\r\n").encode())[0]
        else:
            s = impl.run(impl.server.build_mlsx_string(conn, node))
            got = impl.client.parse_mlsx_line((s + "\r\n").encode())[0]
        print("decoded", repr(str(got)))
        return got == P(r["name"])
    if key.startswith("c08-sib-") or key.startswith("c08-long-"):
        before = len(ctx.violations) + len(ctx.known_hits)
        wire.run(wire_siblings(ctx, r["backend"], [tuple(r["case"])]))
        print("violations:", ctx.violations[before:before + 2] or ctx.known_hits[-1:])
        return len(ctx.violations) + len(ctx.known_hits) == before
    if key.startswith("c08-wire-"):
        before = len(ctx.violations) + len(ctx.known_hits)
        comps = [x for x in r["path"].split("/") if x]
        wire.run(wire_names(ctx, [(comps, r["other"])]))
        print("violations:", ctx.violations[-1:] or ctx.known_hits[-1:])
        return len(ctx.violations) + len(ctx.known_hits) == before
    print("replay payload:", data)
    return False
