"""C03 — nothing is served before a completed login; re-USER drops the old login.
Real server on simnet with a SPYING backend; compared with Model/Session.v and with the
property's own oracle (independent Python statement of the login rule)."""
import asyncio
import itertools

import aioftp

from .. import core, ftpsim, simnet, sx
from . import c05

ID = "C03"
EXTRACT = "ExC05"  # same executable model (Model/Session.v)
TECHNIQUE = (
    "Coq proof by case analysis over a generic decorator interpreter: for every dispatch table passing a computable login-guard "
    "check no un-logged-in step touches backend/cwd/listener/data/login state; the check is re-evaluated by vm_compute on the table "
    "and handler footprints regenerated from server.py each run; login state proved to be a function of USER/PASS events; "
    "correspondence on the real server with a spying backend"
)
LEVEL_TEXT = (
    "Proved for every dispatch table passing check_login_guard, every user table, every world and every history: C03_no_touch_before_login "
    "(tree, ghost backend log, cwd, listener, data connection and login state unchanged by any command other than USER/PASS while not "
    "logged in), C03_guarded_verb_refused, C03_step_login / C03_reuser_drops / C03_bad_pass_never_authorises (one step, ANY world) and "
    "C03_logged_implies_password_supplied (histories of any length). The code is tied by C03_source_obligations: the verb table, "
    "decorator stacks and pre-login handler footprints are regenerated from server.py by py2v and the closed checks are recomputed by "
    "vm_compute; behaviourally by bounded-exhaustive and random histories against the real server with a spying backend. "
    "Round 3: C03_login_handlers_are_reference (today's pass_ / user translate to the reference programs: their only awaits are "
    "authenticate / notify_logout, get_user); the same programs split at those awaits: C03_suspended_login_handlers_partial (nothing "
    "handled at the await => the sequential bodies), C03_suspended_pass_authenticated_the_old_user, and the refutations "
    "C03_pipelined_user_during_pass_refuted / C03_pipelined_user_during_user_refuted (finding F20: with a user manager whose "
    "authenticate()/get_user() really suspend, a pipelined USER handled at the await leaves the session logged in as a user whose "
    "password was not supplied; replayed on the real server every run). Transfers served after the command: "
    "C03_scheduled_worker_fixed_at_command_time and C03_served_object_independent_of_later_session (the object is resolved under the "
    "issuing login; what is served does not depend on the session of the moment of serving). Round 4: C03_command_line_decoded_strictly "
    "(parse_command decodes without errors=: nothing is dropped from the bytes before the credential comparison); credentials are "
    "exercised as raw bytes (finding F21: str.rstrip() strips trailing white space of every kind before the comparison)."
)
LEVEL_NOTE = (
    "Trusted: Coq kernel, py2v (footprint extraction is syntactic: connection.<attr> writes, path_io calls, worker spawns), extraction, "
    "simnet. Modelled not verified: custom user managers other than suspension (the harness runs MemoryUserManager and subclasses whose "
    "authenticate()/get_user() suspend; the model lets an arbitrary world transformer run at the two awaits); pipelining is exercised for "
    "login commands only; handler bodies not known to the model are covered only by the guard-first rule (their bodies never run before "
    "login). A NEW constructor option that adds a suspension point is invisible to the histories while it is off (seed C03-r2-2): it is "
    "flagged structurally by C03_login_handlers_are_reference."
)
TRUSTED = ["py2v footprint extraction for quit/rest/syst/appe/cdup/user/pass_ (syntactic)"]
ASSUMPTIONS = ["the sequential theorems assume no handler runs at another handler's await (true for the shipped MemoryUserManager; finding F20 otherwise)",
               "MemoryUserManager lookup / password semantics (a custom manager may decide differently; only its suspension is modelled)"]

VERBS = ["PWD", "CWD", "CDUP", "MKD", "RMD", "DELE", "RNFR", "RNTO", "MLST", "LIST", "MLSD", "RETR", "STOR", "APPE", "TYPE", "PBSZ",
         "PROT", "PASV", "EPSV", "ABOR", "REST", "SYST", "FOO"]
LOGINS = [("USER", "u"), ("USER", "nopw"), ("USER", "nobody"), ("USER", "v"), ("USER", "anonymous"), ("PASS", "pw"), ("PASS", "bad"), ("PASS", "pw2"), ("PASS", "")]


def spy_factory(log):
    class Spy(aioftp.MemoryPathIO):
        pass

    def wrap(name):
        orig = getattr(aioftp.MemoryPathIO, name)

        async def f(self, *a, **k):
            log.append((name, str(a[0]) if a else ""))
            return await orig(self, *a, **k)

        return f

    for n in ("exists", "is_dir", "is_file", "mkdir", "rmdir", "unlink", "stat", "_open", "rename"):
        setattr(Spy, n, wrap(n))
    orig_list = aioftp.MemoryPathIO.list

    def lst(self, path):
        log.append(("list", str(path)))
        return orig_list(self, path)

    Spy.list = lst
    return Spy


def login_oracle(users, st, verb, arg):
    """the property's login rule, stated independently: (user_index|None, logged)"""
    v = verb.lower()
    if v == "user":
        found = None
        for i, u in enumerate(users):
            if u["login"] is None and found is None:
                found = i
            elif u["login"] == arg:
                found = i
                break
        if found is None:
            return (None, False)
        u = users[found]
        return (found, u["login"] is None or u["password"] is None)
    if v == "pass":
        if st[0] is not None and not st[1] and users[st[0]]["password"] == arg:
            return (st[0], True)
    return st


def run_impl(table, events):
    log = []
    obs = []

    async def main(net):
        server = ftpsim.make_server(c05.USERS[table], c05.TREE, "memory", None, wait_future_timeout=1)
        server.path_io_factory.factory = spy_factory(log)
        await server.start("127.0.0.1", ftpsim.PORT)
        s = ftpsim.Session(net, server)
        await s.start()
        for verb, arg, payload in events:
            before = len(log)
            nl = len(net.open_listeners())
            r = await s.event(verb, arg, payload)
            r["probe"] = s.probe()
            r["backend_calls"] = log[before:]
            r["listeners"] = (nl, len(net.open_listeners()))
            obs.append(r)
        tree = ftpsim.final_tree(server, "memory")
        await server.close()
        return tree

    tree = simnet.run(main)
    return obs, tree


GENERIC_ARGS = ["", "/", "d", "g", "d/f", "missing"]
MODEL_VERBS = c05.SUPPORTED | {"foo"}


def server_verbs_unknown_to_harness():
    """verbs of the command table of the aioftp under test that neither the harness alphabet nor the model knows"""
    try:
        table = aioftp.Server().commands_mapping
    except Exception:  # noqa: BLE001 - a server that cannot even be constructed: nothing to add, the histories will say so
        return []
    known = {v.lower() for v in VERBS} | {"user", "pass", "quit"} | c05.SUPPORTED
    return sorted(k.upper() for k in table if k.lower() not in known)


def check_history(ctx, table, h, mo):
    users = c05.USERS[table]
    history = [[v, a, (p.decode("latin-1") if p is not None else None)] for v, a, p in h]
    try:
        obs, tree = run_impl(table, h)
    except Exception as e:  # noqa: BLE001 - the (mutated) implementation raised inside the driver: an observation
        ctx.disagree("session-exception", {"key": "c03-driver-exception", "table": table, "history": history}, "a reply to every command", repr(e))
        return
    st = (None, False)
    prev = {"logged": False, "cwd": None, "passive": False, "data": False}
    if all(v.lower() in MODEL_VERBS or v == ftpsim.DATACONN for v, _, _ in h):
        c05.compare(ctx, table, h, mo, obs, tree, "memory")
    # (a history with a verb the model has no entry for is judged by the property oracle below alone)
    for i, ((verb, arg, payload), ob) in enumerate(zip(h, obs)):
        pr = ob["probe"]
        if verb == ftpsim.DATACONN:
            if pr:
                prev = pr
            continue
        if pr is None:
            break
        st = login_oracle(users, st, verb, arg)
        want_user = users[st[0]]["login"] if st[0] is not None else None
        got = (pr["user"] if pr["has_user"] else None, pr["logged"])
        why = None
        if got != ((want_user if st[0] is not None else None), st[1]) and not (st[0] is not None and want_user is None and got[0] is None and pr["has_user"]):
            why = f"login-state-differs-from-rule (rule {st}, server {got})"
        v = verb.lower()
        if why is None and not prev["logged"] and v not in ("user", "pass"):
            if ob["backend_calls"]:
                why = "backend-touched-before-login"
            elif pr["logged"]:
                why = "logged-in-without-user-pass"
            elif pr["passive"] != prev["passive"] or ob["listeners"][0] != ob["listeners"][1]:
                why = "listener-opened-before-login"
            elif prev["cwd"] is not None and pr["cwd"] != prev["cwd"]:
                why = "cwd-changed-before-login"
            elif any(c.startswith(("1", "2", "3")) for c in ob["codes"]) and v not in ("quit", "syst", "rest") and v in MODEL_VERBS:
                # (of a verb unknown to the harness only the EFFECTS are judged: backend, listener, cwd, login state)
                why = "command-succeeded-before-login"
        if why:
            ctx.violation(
                f"property oracle: {why}",
                {"key": "c03-" + why.split(" ")[0] + "-" + v, "table": table, "history": history[: i + 1], "at": i,
                 "codes": ob["codes"], "backend_calls": ob["backend_calls"][:5]},
            )
            return
        prev = pr


# ------------------------------------------------------------------------------------------------------------
# (d) commands BETWEEN the 150 mark of a transfer and the arrival of its data connection
D_USERS = [
    {"login": "guest", "password": None, "home": "/pub"},
    {"login": "admin", "password": "adminpw", "home": "/adm"},
    {"login": "bob", "password": None, "home": "/bob"},
]
D_TREE = {
    "pub": {"me": b"guest-data", "readme": b"public", "sub": {"n": b"1"}},
    "adm": {"me": b"admin-data", "payroll": b"SECRET", "id_rsa": b"key", "sub": {"s": b"2"}},
    "bob": {"me": b"bob-data", "notes": b"bob's", "sub": {}},
}
D_LOGINS = {
    "guest": [("USER", "guest")],
    "admin": [("USER", "admin"), ("PASS", "adminpw")],
    "bob": [("USER", "bob")],
    "admin-no-pass": [("USER", "admin")],                      # 331 only: NOT logged in
    "admin-bad-pass": [("USER", "admin"), ("PASS", "nope")],   # 530: NOT logged in
    "dropped": [("USER", "guest"), ("USER", "admin")],         # a completed login discarded by USER again
    "nobody": [],
}
D_XFERS = [("LIST", "", None), ("MLSD", "", None), ("LIST", "sub", None), ("RETR", "me", None), ("STOR", "up", b"PAYLOAD"), ("APPE", "me", b"+more")]
D_BETWEEN = [
    [],
    [("USER", "admin")],                       # 331: the previous login is gone, nobody is logged in
    [("USER", "admin"), ("PASS", "nope")],     # 530
    [("USER", "admin"), ("PASS", "adminpw")],  # a complete re-login as somebody else
    [("USER", "bob")],                         # 230 at once: somebody else, another home
    [("USER", "guest")],
    [("USER", "nobody")],                      # 530: unknown
    [("CWD", "sub")],
    [("USER", "admin"), ("PWD", "")],
]
D_PAYLOAD_VERBS = ("STOR", "APPE")


def d_resolve(cwd, arg):
    parts = [] if arg.startswith("/") else [p for p in cwd.split("/") if p]
    for seg in arg.split("/"):
        if seg in ("", "."):
            continue
        if seg == "..":
            parts = parts[:-1]
        else:
            parts.append(seg)
    return parts


def d_get(tree, parts):
    t = tree
    for p in parts:
        if not isinstance(t, dict) or p not in t:
            return None
        t = t[p]
    return t


def run_deferred(login, xfer, between, user_manager=None):
    """one session: <login>; PASV; <xfer>; <between ...>; THEN the data connection; PWD.  The spying backend log is
    cut into phases.  An exception inside the (mutated) implementation is part of the observation."""
    log = []
    ob = {"login": [], "between": [], "probes": []}

    async def main(net):
        server = ftpsim.make_server(D_USERS, D_TREE, "memory", None, wait_future_timeout=5)
        server.path_io_factory.factory = spy_factory(log)
        await server.start("127.0.0.1", ftpsim.PORT)
        s = ftpsim.Session(net, server)
        await s.start()
        raw = s.raw
        for v, a in login:
            ob["login"].append(simnet.final_codes(await raw.send(f"{v} {a}".rstrip())))
        ob["probe_login"] = s.probe()
        pl = await raw.send("PASV")
        ob["pasv"] = simnet.final_codes(pl)
        port = ftpsim.parse_passive(pl)
        ob["port"] = port
        ob["calls_before"] = list(log)
        mark = len(log)
        verb, arg, payload = xfer
        lines = await raw.send(f"{verb} {arg}".rstrip())
        ob["codes"] = simnet.final_codes(lines)
        ob["calls_request"] = log[mark:]
        for v, a in between:
            mark = len(log)
            bl = await raw.send(f"{v} {a}".rstrip())
            ob["between"].append({"codes": simnet.final_codes(bl), "calls": log[mark:], "probe": s.probe()})
        mark = len(log)
        data = b""
        if port is not None:
            try:
                r, w = await net.open_connection("127.0.0.1", port)
                if verb in D_PAYLOAD_VERBS and payload is not None:
                    w.write(payload)
                    w.close()
                await net.settle()
                data = bytes(r._buffer)
                if not w.transport.is_closing():
                    w.close()
            except (ConnectionRefusedError, OSError) as e:
                ob["data_error"] = repr(e)
        await asyncio.sleep(6)  # let a worker still waiting for a data connection time out (425)
        ob["after"] = simnet.final_codes(await raw.drain_replies())
        ob["data"] = data
        ob["calls_serving"] = log[mark:]
        ob["probe_end"] = s.probe()
        pw = await raw.send("PWD")
        ob["pwd_codes"] = simnet.final_codes(pw)
        ob["pwd"] = pw[-1][4:].strip().strip('"') if ob["pwd_codes"] == ["257"] else None
        ob["ended"] = raw.eof
        ob["tree"] = ftpsim.final_tree(server, "memory")
        await server.close()

    try:
        simnet.run(main)
    except Exception as e:  # noqa: BLE001 - observation; the search goes on
        ob["error"] = repr(e)
    return ob


def d_rule(cmds, st=(None, False)):
    for v, a in cmds:
        st = login_oracle(D_USERS, st, v, a)
    return st


def deferred_oracle(login, xfer, between, ob):
    """the property for one such session, stated independently -> list of (kind, detail)"""
    if "error" in ob:
        return [("driver-error", ob["error"])]
    bad = []
    verb, arg, payload = xfer
    st0 = d_rule(login)
    tree0 = ftpsim.canon_tree(D_TREE)
    served = bool(ob["data"]) or bool(ob["calls_serving"]) or ob["tree"] != tree0
    if not st0[1]:
        # not logged in when the transfer command is sent: nothing at all may happen
        if any(c[:1] in "123" for c in ob["codes"] + ob["pasv"]):
            bad.append(("command-succeeded-before-login", f"{verb} {arg!r} / PASV after {login} answered {ob['codes']} / {ob['pasv']}"))
        if ob["calls_before"] or ob["calls_request"] or ob["calls_serving"] or any(b["calls"] for b in ob["between"]) and not any(d_rule(login + between[: i + 1])[1] for i in range(len(between))):
            bad.append(("backend-touched-before-login", f"backend calls without a completed login: {(ob['calls_before'] + ob['calls_request'] + ob['calls_serving'])[:4]}"))
        if ob["data"]:
            bad.append(("served-before-login", f"{len(ob['data'])} bytes on a data connection of a session that never logged in"))
        return bad
    me = D_USERS[st0[0]]
    if ob["codes"] != ["150"]:
        return bad  # refused for another reason: nothing to say here (C05 compares the codes with the model)
    target = d_resolve(me["home"], arg)
    tpath = "/" + "/".join(target)
    old = d_get(D_TREE, target)
    # login state after every in-between command follows the rule; a command sent while not logged in touches nothing
    st = st0
    for i, ((v, a), b) in enumerate(zip(between, ob["between"])):
        was_logged = st[1]
        st = login_oracle(D_USERS, st, v, a)
        pr = b["probe"]
        if pr is not None:
            want = (D_USERS[st[0]]["login"] if st[0] is not None else None, st[1])
            got = (pr["user"] if pr["has_user"] else None, pr["logged"])
            if got != want:
                bad.append(("login-state-differs-from-rule", f"after {between[: i + 1]} (transfer pending): rule {want}, server {got}"))
        if not was_logged and v.lower() not in ("user", "pass") and b["calls"]:
            bad.append(("backend-touched-before-login", f"{v} {a!r} while nobody is logged in (transfer pending): {b['calls'][:3]}"))
    # what is served is the object the ISSUING login was entitled to (RFC 959: a transfer in progress completes under the
    # old access control parameters) - never an object resolved under the login / directory of the moment of serving
    touched = [p for n, p in ob["calls_serving"] if n in ("_open", "list")]
    if any(p != tpath for p in touched):
        bad.append(("served-under-another-login", f"{verb} {arg!r} was accepted for {me['login']} as {tpath!r}; after {between} the worker handed {touched} to the backend"))
    foreign = [p for n, p in ob["calls_serving"] if p and not (p == tpath or p.startswith(tpath.rstrip("/") + "/"))]
    if foreign and not any(k == "served-under-another-login" for k, _ in bad):
        bad.append(("served-under-another-login", f"{verb} {arg!r} accepted for {me['login']} as {tpath!r}; after {between} the backend was asked about {foreign[:4]}"))
    done = any(c in ("226", "200") for c in ob["after"])
    if verb == "RETR" and done and isinstance(old, bytes) and ob["data"] != old:
        bad.append(("served-under-another-login", f"RETR {arg!r} accepted for {me['login']} ({tpath}): after {between} the data connection delivered {ob['data']!r}, that file holds {old!r}"))
    if verb in ("LIST", "MLSD") and done and isinstance(old, dict):
        try:
            names = sorted(n for n, _, _ in ftpsim.parse_listing(ob["data"], verb.lower()))
        except Exception:  # noqa: BLE001
            names = ["<unparsable>"]
        if names != sorted(old):
            bad.append(("served-under-another-login", f"{verb} {arg!r} accepted for {me['login']} ({tpath}): after {between} the listing shows {names}, that directory holds {sorted(old)}"))
    if verb in D_PAYLOAD_VERBS:
        if done:
            content = payload if verb == "STOR" or not isinstance(old, bytes) else old + payload
            want = json_tree_put(D_TREE, target, content)
            if ob["tree"] != ftpsim.canon_tree(want):
                bad.append(("served-under-another-login", f"{verb} {arg!r} accepted for {me['login']} as {tpath!r}: after {between} and the upload the tree is not the initial one with {tpath!r} written"))
        elif ob["tree"] != tree0:
            bad.append(("served-under-another-login", f"{verb} {arg!r} did not complete ({ob['after']}) but the tree changed"))
    elif ob["tree"] != tree0:
        bad.append(("tree-changed-by-reading-transfer", f"{verb} {arg!r}: the tree changed"))
    # at the end the session is what the rule says; a dropped login stays dropped
    pr = ob["probe_end"]
    if pr is not None:
        want = (D_USERS[st[0]]["login"] if st[0] is not None else None, st[1])
        got = (pr["user"] if pr["has_user"] else None, pr["logged"])
        if got != want:
            bad.append(("login-state-differs-from-rule", f"after the pending transfer was served: rule {want}, server {got}"))
        if not st[1] and ob["pwd_codes"] == ["257"]:
            bad.append(("command-succeeded-before-login", f"PWD answered 257 after {login + between}"))
    return bad


def json_tree_put(tree, parts, value):
    import copy

    t = copy.deepcopy(tree)
    node = t
    for p in parts[:-1]:
        node = node[p]
    node[parts[-1]] = value
    return t


def deferred_cases(rng, thorough):
    cases = []
    for login in ("guest", "admin", "bob"):
        for xfer in D_XFERS:
            for between in D_BETWEEN:
                cases.append((login, xfer, between))
    for login in ("admin-no-pass", "admin-bad-pass", "dropped", "nobody"):
        for xfer in D_XFERS:
            cases.append((login, xfer, []))
            cases.append((login, xfer, [("USER", "admin")]))
    if thorough:
        return cases
    # quick: guest x everything; the other logins see every between and every transfer once (round-robin)
    return [c for i, c in enumerate(cases) if c[0] in ("guest", "admin-no-pass", "dropped") or i % 4 == 0]


def stream_deferred(ctx):
    cases = deferred_cases(ctx.rng, ctx.tier == "thorough")
    n150 = 0
    for login, xfer, between in cases:
        ctx.case(("deferred", login, xfer[:2], repr(between)))
        ctx.traces_impl += 1
        ob = run_deferred(D_LOGINS[login], xfer, between)
        n150 += ob.get("codes") == ["150"]
        for kind, detail in deferred_oracle(D_LOGINS[login], xfer, between, ob):
            report(ctx, f"property oracle (command between 150 and the data connection): {detail}",
                   {"key": f"c03-deferred-{kind}-{xfer[0].lower()}", "deferred": True, "login": login,
                    "xfer": [xfer[0], xfer[1], xfer[2].decode("latin-1") if xfer[2] is not None else None], "between": [list(b) for b in between]})
    ctx.count("deferred_sessions", len(cases))
    ctx.count("deferred_150_then_between", n150)


# ------------------------------------------------------------------------------------------------------------
# (p) PIPELINED login commands (several commands in one write) with user managers that do / do not suspend
P_USERS = [
    {"login": "alice", "password": "alicepw", "home": "/pub"},
    {"login": "admin", "password": "adminpw", "home": "/adm"},
    {"login": "bob", "password": None, "home": "/bob"},
]
P_UMS = {
    "default": (None, None),        # MemoryUserManager as shipped: no coroutine of it ever suspends
    "slow-auth": (0.1, None),       # authenticate() really waits (database / PAM / network lookup)
    "slow-both": (0.1, 0.1),        # get_user() waits too
    "slow-lookup": (None, 0.1),
}
P_BURSTS = [
    [("PASS", "alicepw"), ("USER", "admin")],
    [("PASS", "alicepw"), ("USER", "admin"), ("PWD", "")],
    [("PASS", "alicepw"), ("USER", "alice")],
    [("PASS", "alicepw"), ("USER", "bob")],
    [("PASS", "alicepw"), ("USER", "nobody")],
    [("PASS", "wrong"), ("USER", "admin")],
    [("PASS", "wrong"), ("PASS", "alicepw")],
    [("PASS", "alicepw"), ("PASS", "wrong")],
    [("USER", "admin"), ("PASS", "alicepw")],
    [("USER", "admin"), ("PASS", "adminpw")],
    [("USER", "admin"), ("PASS", "adminpw"), ("USER", "alice")],
    [("USER", "bob"), ("USER", "admin"), ("PASS", "x")],
    [("PASS", "alicepw"), ("USER", "admin"), ("PASS", "alicepw")],
    [("PASS", "alicepw"), ("PWD", ""), ("USER", "admin"), ("PWD", "")],
]


def suspending_um(users, auth_delay, lookup_delay):
    class UM(aioftp.MemoryUserManager):
        """MemoryUserManager whose coroutines really suspend, as any manager backed by a database or a service does"""

        async def authenticate(self, user, password):
            if auth_delay:
                await asyncio.sleep(auth_delay)
            return await super().authenticate(user, password)

        async def get_user(self, login):
            if lookup_delay:
                await asyncio.sleep(lookup_delay)
            return await super().get_user(login)

    return UM(users)


def run_pipelined(um_name, pre, burst):
    log = []
    ob = {"pre": []}

    async def main(net):
        server = ftpsim.make_server(P_USERS, D_TREE, "memory", None, wait_future_timeout=1)
        a, l = P_UMS[um_name]
        if a or l:
            server.user_manager = suspending_um(list(server.user_manager.users), a, l)
        server.path_io_factory.factory = spy_factory(log)
        await server.start("127.0.0.1", ftpsim.PORT)
        s = ftpsim.Session(net, server)
        await s.start()
        raw = s.raw
        for v, a_ in pre:
            lines = await raw.send(f"{v} {a_}".rstrip())
            if not simnet.final_codes(lines):  # the user manager is still thinking: one command at a time means waiting for it
                await asyncio.sleep(1)
                lines += await raw.drain_replies()
            ob["pre"].append(simnet.final_codes(lines))
        mark = len(log)
        raw.writer.write("".join(f"{v} {a_}".rstrip() + "\r\n" for v, a_ in burst).encode())
        await asyncio.sleep(3)
        ob["codes"] = simnet.final_codes(await raw.drain_replies())
        ob["probe"] = s.probe()
        ob["calls"] = log[mark:]
        mark = len(log)
        pw = await raw.send("PWD")
        ob["pwd_codes"] = simnet.final_codes(pw)
        ob["pwd"] = pw[-1][4:].strip().strip('"') if ob["pwd_codes"] == ["257"] else None
        ob["ended"] = raw.eof
        await server.close()

    try:
        simnet.run(main)
    except Exception as e:  # noqa: BLE001
        ob["error"] = repr(e)
    return ob


def pipelined_oracle(pre, burst, ob):
    """pipelined commands are still a SEQUENCE of commands: the login rule applies to them in the order sent.
    Judged: the state the burst leaves behind (who is identified, whether logged in), never the reply texts."""
    if "error" in ob:
        return [("driver-error", ob["error"])]
    st = (None, False)
    for v, a in list(pre) + list(burst):
        st = login_oracle(P_USERS, st, v, a)
    pr = ob["probe"]
    if pr is None:
        return []
    bad = []
    want = (P_USERS[st[0]]["login"] if st[0] is not None else None, st[1])
    got = (pr["user"] if pr["has_user"] else None, pr["logged"])
    if got[1]:
        # logged in: as whom, and was THAT user's password supplied after that user was named?
        u = next((x for x in P_USERS if x["login"] == got[0]), None)
        supplied = False
        named = False
        for v, a in list(pre) + list(burst):
            if v == "USER":
                named = a == got[0]
                supplied = named and u is not None and u["password"] is None
            elif v == "PASS" and named and u is not None and u["password"] == a:
                supplied = True
        if u is None or not supplied:
            bad.append(("authorised-without-password", f"{pre} then {burst} in ONE write: logged in as {got[0]!r} ({ob['pwd']}), whose password was not supplied after naming that user"))
    # C03 is a safety property: only states MORE authorised than the rule allows are violations (a pipelined PASS that
    # is turned down because the USER before it is still being looked up is a conformance matter, not an authorisation)
    if not bad and got[1] and (not want[1] or got[0] != want[0]):
        bad.append(("authorised-beyond-rule", f"{pre} then {burst} in one write: rule {want}, server {got}"))
    if not st[1] and not got[1] and ob["pwd_codes"] == ["257"]:
        bad.append(("command-succeeded-before-login", "PWD answered 257"))
    return bad


def stream_pipelined(ctx):
    pre = [("USER", "alice")]
    n = 0
    for um in P_UMS:
        for burst in P_BURSTS:
            ctx.case(("pipelined", um, repr(burst)))
            ctx.traces_impl += 1
            n += 1
            ob = run_pipelined(um, pre, burst)
            for kind, detail in pipelined_oracle(pre, burst, ob):
                verbs = [v for v, _ in burst]
                # one mechanism, one key: a USER handled while an earlier PASS of the same write is still being answered
                overtaken = any(v == "PASS" and "USER" in verbs[i + 1:] for i, v in enumerate(verbs))
                if overtaken:
                    shape = "user-handled-during-pass"
                elif verbs.count("USER") >= 2:
                    shape = "user-handled-during-user"
                else:
                    shape = "-".join(v.lower() for v in verbs)
                tag = "default-um" if um == "default" else "suspending-um"
                report(ctx, f"property oracle (pipelined login, user manager {um}): {detail}",
                       {"key": f"c03-pipelined-{tag}-{shape}", "kind": kind, "pipelined": True, "um": um, "pre": [list(x) for x in pre],
                        "burst": [list(x) for x in burst], "codes": ob.get("codes")})
    ctx.count("pipelined_sessions", n)


# ------------------------------------------------------------------------------------------------------------
# (b) USER / PASS arguments as raw BYTES, including sequences that are invalid in the server's encoding
UNDECODABLE = [b"\xff", b"\xc3", b"\x80", b"\xc0\xaf", b"\xed\xa0\x80", b"\xf8\x88", b"\xff\xf4\xff\xf2"]
WHITESPACE = [b" ", b"\t", b"\xc2\xa0", b"\xe2\x80\x83", b"\x1f", b"\x0c"]


def credential_variants(cred):
    """(class, bytes): byte strings that are NOT the credential (plus the credential itself as the control)"""
    b = cred.encode("utf-8")
    out = [("exact", b)]
    for x in UNDECODABLE:
        for i in range(len(b) + 1):
            out.append(("undecodable", b[:i] + x + b[i:]))
    for ws in WHITESPACE:
        out.append(("trailing-whitespace", b + ws))
        out.append(("leading-whitespace", ws + b))
        if len(b) > 1:
            out.append(("inner-whitespace", b[:1] + ws + b[1:]))
    out += [("nul", b + b"\x00"), ("nul", b"\x00" + b), ("case", b.swapcase()), ("prefix", b[:-1]), ("extended", b + b"x"),
            ("composed", b + "́".encode()), ("fullwidth", "".join(chr(ord(c) + 0xFEE0) if "!" <= c <= "~" else c for c in cred).encode())]
    return [(k, v) for k, v in out if v != b or k == "exact"]


def run_bytes(table, lines):
    """raw command lines (bytes, CRLF added) one at a time; observation per line: codes, probe, eof"""
    obs = []

    async def main(net):
        server = ftpsim.make_server(c05.USERS[table], c05.TREE, "memory", None, wait_future_timeout=1)
        await server.start("127.0.0.1", ftpsim.PORT)
        s = ftpsim.Session(net, server)
        await s.start()
        for l in lines:
            if s.raw.eof:
                obs.append({"codes": [], "probe": None, "eof": True})
                continue
            rep = await s.raw.send(l)
            obs.append({"codes": simnet.final_codes(rep), "probe": s.probe(), "eof": s.raw.eof})
        await server.close()

    try:
        simnet.run(main)
    except Exception as e:  # noqa: BLE001
        obs.append({"error": repr(e)})
    return obs


def bytes_rule(users, lines):
    """the login rule on the BYTES sent: a credential is supplied only by exactly its encoding; a line that is not valid
    in the server encoding supplies nothing"""
    st = (None, False)
    for l in lines:
        verb, _, arg = l.partition(b" ")
        try:
            v, a = verb.decode("ascii"), arg.decode("utf-8")
        except UnicodeDecodeError:
            continue
        st = login_oracle(users, st, v.upper(), a)
    return st


def stream_bytes(ctx):
    n = 0
    for table, login, password in (("T1", "u", "pw"), ("T2", "v", "pw2")):
        users = c05.USERS[table]
        cases = [("pass", k, [b"USER " + login.encode(), b"PASS " + v, b"PWD"]) for k, v in credential_variants(password)]
        if table == "T1":  # (with an anonymous entry every unknown login is, correctly, the anonymous one)
            cases += [("user", k, [b"USER " + v, b"PASS " + password.encode(), b"PWD"]) for k, v in credential_variants(login)]
        for which, cls, lines in cases:
            ctx.case(("bytes", table, which, cls, lines[0 if which == "user" else 1]))
            ctx.traces_impl += 1
            n += 1
            obs = run_bytes(table, lines)
            if obs and "error" in obs[-1]:
                ctx.disagree("bytes-exception", {"key": "c03-driver-exception", "table": table, "lines": [l.decode("latin-1") for l in lines]}, "a verdict", obs[-1]["error"])
                continue
            want = bytes_rule(users, lines[:2])
            pr = obs[1]["probe"] if len(obs) > 1 else None
            got = (pr["user"] if pr and pr["has_user"] else None, bool(pr and pr["logged"]))
            wname = users[want[0]]["login"] if want[0] is not None else None
            pwd_ok = len(obs) > 2 and obs[2]["codes"] == ["257"]
            if (got[1] and (not want[1] or got[0] != wname)) or (pwd_ok and not want[1]):
                sent = lines[0] if which == "user" else lines[1]
                report(ctx, f"property oracle (credentials as bytes): {lines} -> {[o['codes'] for o in obs]}: logged in as {got[0]!r} although the bytes sent "
                            f"({sent!r}) are not the encoding of that user's {'login' if which == 'user' else 'password'}",
                       {"key": f"c03-bytes-{cls}-{which}", "bytes": True, "table": table, "lines": [l.decode("latin-1") for l in lines]})
    ctx.count("byte_credential_sessions", n)


_reported = {}


def report(ctx, what, payload, per_key=3):
    k = payload["key"]
    _reported[k] = _reported.get(k, 0) + 1
    if _reported[k] <= per_key:
        ctx.violation(what, payload)


def correspondence(ctx, budget=None):
    rng = ctx.rng
    thorough = ctx.tier == "thorough"
    ctx.extra["rule"] = (
        "command histories over {USER known/unknown/password-less/password-protected/anonymous, PASS right/wrong/empty} x every other verb "
        "(fixed argument) x the data-connect pseudo-event: all histories of length <= 2 (quick) / <= 3 (thorough) followed by a probe verb, "
        "plus random histories of length <= 14, on two user tables (anonymous absent/present); the real server runs with a spying "
        "MemoryPathIO subclass (every backend call logged) and the listener ledger of simnet. (d) sessions with commands BETWEEN the "
        "150 mark of LIST/MLSD/RETR/STOR/APPE and the arrival of its data connection (USER again to 331/530/230-as-somebody-else, full "
        "re-login, CWD), for three issuing logins and four not-logged-in prefixes: what is served must be the object the ISSUING login was "
        "entitled to, nothing for a session that never logged in. (p) login commands PIPELINED in one write under the shipped user manager "
        "and under subclasses whose authenticate()/get_user() really suspend: the state left behind must be the login rule's. "
        "(b) USER / PASS arguments as raw BYTES: the credential with every undecodable sequence (0xff, lone lead / continuation bytes, "
        "overlong, surrogate, Telnet IAC) inserted at every position, leading / inner / trailing ASCII and Unicode whitespace, NUL, case, "
        "prefix, extension, combining mark, full-width forms: a 230 requires the bytes sent to be exactly the encoded credential. The verb "
        "set of the bounded-exhaustive histories is read from commands_mapping of the server under test; verbs unknown to the model get a "
        "generic argument set in six login states and are judged by the spying-backend oracle alone. "
        "Non-trivial = distinct history."
    )
    others = [(v, "d" if v not in ("REST", "TYPE", "PROT", "PBSZ", "EPSV", "PASV", "ABOR", "SYST", "PWD", "CDUP") else {"REST": "3", "TYPE": "I", "PROT": "P", "PBSZ": "0"}.get(v, "")) for v in VERBS]
    # the verb set is that of the SERVER UNDER TEST (its commands_mapping), not a list frozen in the harness: a verb the
    # model does not know is sent with a generic argument set and judged by the spying-backend oracle alone
    extra = server_verbs_unknown_to_harness()
    ctx.extra["verbs_of_server_unknown_to_model"] = extra
    for v in extra:
        others += [(v, a) for a in GENERIC_ARGS]
    alpha = [(v, a, None) for v, a in LOGINS] + [(v, a, (b"x" if v in ("STOR", "APPE") else None)) for v, a in others]
    jobs = []
    for table in ("T1", "T2"):
        for e in alpha:
            jobs.append((table, [e, ("PWD", "", None)]))
        pairs = list(itertools.product(alpha, repeat=2))
        sel = pairs if thorough else rng.sample(pairs, budget or 350)
        for e1, e2 in sel:
            jobs.append((table, [e1, e2, ("PWD", "", None)]))
        if thorough:
            for _ in range(4000):
                jobs.append((table, [rng.choice(alpha) for _ in range(3)] + [("PWD", "", None)]))
    # every verb the model does not know, with every generic argument, in every login state (nobody / identified 331 /
    # wrong password / unknown user / dropped login / logged in)
    for v in extra:
        for a in GENERIC_ARGS:
            for pre in ([], [("USER", "u", None)], [("USER", "u", None), ("PASS", "bad", None)], [("USER", "nobody", None)],
                        [("USER", "nopw", None), ("USER", "u", None)], [("USER", "u", None), ("PASS", "pw", None)]):
                jobs.append(("T1", pre + [(v, a, None), ("PWD", "", None)]))
    # the re-USER scenarios of the property, every other verb in between
    for e in alpha:
        jobs.append(("T1", [("USER", "u", None), ("PASS", "pw", None), ("PASV", "", None), ("USER", "u", None), e, ("PWD", "", None)]))
        jobs.append(("T2", [("USER", "anonymous", None), ("CWD", "d", None), ("USER", "v", None), e, ("PWD", "", None)]))
        jobs.append(("T1", [("USER", "nopw", None), ("USER", "u", None), e, ("PASS", "pw", None), ("PWD", "", None)]))
    n_rand = 1500 if thorough else 250
    for _ in range(n_rand):
        table = rng.choice(["T1", "T2"])
        jobs.append((table, [rng.choice(alpha if rng.random() < 0.6 else alpha[: len(LOGINS)]) for _ in range(rng.randint(2, 14))]))
    ctx.count("histories", len(jobs))
    model_in = [(0, [[c05.user_sx(u) for u in c05.USERS[t]], ftpsim.tree_to_sx(c05.TREE), [c05.event_sx(e) for e in h]]) for t, h in jobs]
    model_out = ctx.model(model_in)
    xcheck = []
    prelogin = 0
    for (table, h), mi, mo in zip(jobs, model_in, model_out):
        ctx.case((table, tuple(h)))
        ctx.traces_impl += 1
        check_history(ctx, table, h, mo)
        if len(xcheck) < 20:
            xcheck.append((0, mi[1], mo))
        if len(ctx.samples) < 4:
            ctx.sample({"table": table, "history": [[v, a] for v, a, _ in h]})
    ok, out = core.vm_crosscheck(EXTRACT, xcheck)
    ctx.extra["vm_compute_crosscheck"] = {"cases": len(xcheck), "agree": ok}
    if not ok:
        ctx.obligation_broken("extraction-crosscheck", out)
    if budget is None:
        _reported.clear()
        stream_deferred(ctx)
        stream_pipelined(ctx)
        stream_bytes(ctx)


def search(ctx):
    """the checker's own counter-example first: every verb straight after connect and after a dropped login"""
    if ctx.violations or ctx.exe is None:
        return
    try:
        correspondence(ctx, budget=1500)
    except Exception as e:
        ctx.notes.append(f"search aborted: {e!r}")


def replay(ctx, data):
    r = data.get("replay", {})
    if r.get("deferred"):
        xfer = (r["xfer"][0], r["xfer"][1], r["xfer"][2].encode("latin-1") if r["xfer"][2] is not None else None)
        between = [tuple(b) for b in r["between"]]
        ob = run_deferred(D_LOGINS[r["login"]], xfer, between)
        bad = deferred_oracle(D_LOGINS[r["login"]], xfer, between, ob)
        print(D_LOGINS[r["login"]], "PASV", xfer[:2], "->", ob.get("codes"), "| between", between, "->", [b["codes"] for b in ob.get("between", [])],
              "| data connection ->", ob.get("data"), ob.get("after"), "| serving calls", ob.get("calls_serving"))
        for k, d in bad:
            print("  ", k, ":", d)
            ctx.violation(d, dict(r))
        return not bad
    if r.get("bytes"):
        lines = [l.encode("latin-1") for l in r["lines"]]
        obs = run_bytes(r["table"], lines)
        want = bytes_rule(c05.USERS[r["table"]], lines[:2])
        pr = obs[1].get("probe") if len(obs) > 1 else None
        logged = bool(pr and pr["logged"])
        print(lines, "->", [o.get("codes") for o in obs], "| server:", (pr or {}).get("user"), logged, "| rule on the bytes:", want)
        bad = logged and not want[1]
        if bad:
            ctx.violation("logged in although the bytes sent are not the credential", dict(r))
        return not bad
    if r.get("pipelined"):
        pre = [tuple(x) for x in r["pre"]]
        burst = [tuple(x) for x in r["burst"]]
        ob = run_pipelined(r["um"], pre, burst)
        bad = pipelined_oracle(pre, burst, ob)
        print("user manager", r["um"], "|", pre, "then in one write", burst, "->", ob.get("codes"), "| state", ob.get("probe"), "| PWD", ob.get("pwd_codes"), ob.get("pwd"))
        for k, d in bad:
            print("  ", k, ":", d)
            ctx.violation(d, dict(r))
        return not bad
    if "history" not in r:
        print(data)
        return False
    h = [(v, a, p.encode("latin-1") if p is not None else None) for v, a, p in r["history"]]
    table = r.get("table", "T1")
    mo = ctx.model([(0, [[c05.user_sx(u) for u in c05.USERS[table]], ftpsim.tree_to_sx(c05.TREE), [c05.event_sx(e) for e in h]])])[0]
    before = len(ctx.violations) + len(ctx.disagreements)
    check_history(ctx, table, h, mo)
    obs, _ = run_impl(table, h)
    for e, o in zip(h, obs):
        print(e[:2], "->", o["codes"], o["backend_calls"][:3])
    return len(ctx.violations) + len(ctx.disagreements) == before
