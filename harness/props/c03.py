"""C03 — nothing is served before a completed login; re-USER drops the old login.
Real server on simnet with a SPYING backend; compared with Model/Session.v and with the
property's own oracle (independent Python statement of the login rule)."""
import asyncio
import itertools

import aioftp

from .. import core, ftpsim, simnet, sx
from . import c05

ID = "C03"
EXTRACT = "ExC05"  # same executable model (Model/Session.v)
TECHNIQUE = (
    "Coq proof by case analysis over a generic decorator interpreter: for every dispatch table passing a computable login-guard "
    "check no un-logged-in step touches backend/cwd/listener/data/login state; the check is re-evaluated by vm_compute on the table "
    "and handler footprints regenerated from server.py each run; login state proved to be a function of USER/PASS events; "
    "correspondence on the real server with a spying backend"
)
LEVEL_TEXT = (
    "Proved for every dispatch table passing check_login_guard, every user table, every world and every history: C03_no_touch_before_login "
    "(tree, ghost backend log, cwd, listener, data connection and login state unchanged by any command other than USER/PASS while not "
    "logged in), C03_guarded_verb_refused, C03_step_login / C03_reuser_drops / C03_bad_pass_never_authorises (one step, ANY world) and "
    "C03_logged_implies_password_supplied (histories of any length). The code is tied by C03_source_obligations: the verb table, "
    "decorator stacks and pre-login handler footprints are regenerated from server.py by py2v and the closed checks are recomputed by "
    "vm_compute; behaviourally by bounded-exhaustive and random histories against the real server with a spying backend."
)
LEVEL_NOTE = (
    "Trusted: Coq kernel, py2v (footprint extraction is syntactic: connection.<attr> writes, path_io calls, worker spawns), extraction, "
    "simnet. Modelled not verified: custom user managers; pipelined commands; handler bodies not known to the model are covered only by "
    "the guard-first rule (their bodies never run before login)."
)
TRUSTED = ["py2v footprint extraction for quit/rest/syst/appe/cdup/user/pass_ (syntactic)"]
ASSUMPTIONS = ["sequential sessions (one command at a time)", "MemoryUserManager semantics (custom user managers are outside the model)"]

VERBS = ["PWD", "CWD", "CDUP", "MKD", "RMD", "DELE", "RNFR", "RNTO", "MLST", "LIST", "MLSD", "RETR", "STOR", "APPE", "TYPE", "PBSZ",
         "PROT", "PASV", "EPSV", "ABOR", "REST", "SYST", "FOO"]
LOGINS = [("USER", "u"), ("USER", "nopw"), ("USER", "nobody"), ("USER", "v"), ("USER", "anonymous"), ("PASS", "pw"), ("PASS", "bad"), ("PASS", "pw2"), ("PASS", "")]


def spy_factory(log):
    class Spy(aioftp.MemoryPathIO):
        pass

    def wrap(name):
        orig = getattr(aioftp.MemoryPathIO, name)

        async def f(self, *a, **k):
            log.append((name, str(a[0]) if a else ""))
            return await orig(self, *a, **k)

        return f

    for n in ("exists", "is_dir", "is_file", "mkdir", "rmdir", "unlink", "stat", "_open", "rename"):
        setattr(Spy, n, wrap(n))
    orig_list = aioftp.MemoryPathIO.list

    def lst(self, path):
        log.append(("list", str(path)))
        return orig_list(self, path)

    Spy.list = lst
    return Spy


def login_oracle(users, st, verb, arg):
    """the property's login rule, stated independently: (user_index|None, logged)"""
    v = verb.lower()
    if v == "user":
        found = None
        for i, u in enumerate(users):
            if u["login"] is None and found is None:
                found = i
            elif u["login"] == arg:
                found = i
                break
        if found is None:
            return (None, False)
        u = users[found]
        return (found, u["login"] is None or u["password"] is None)
    if v == "pass":
        if st[0] is not None and not st[1] and users[st[0]]["password"] == arg:
            return (st[0], True)
    return st


def run_impl(table, events):
    log = []
    obs = []

    async def main(net):
        server = ftpsim.make_server(c05.USERS[table], c05.TREE, "memory", None, wait_future_timeout=1)
        server.path_io_factory.factory = spy_factory(log)
        await server.start("127.0.0.1", ftpsim.PORT)
        s = ftpsim.Session(net, server)
        await s.start()
        for verb, arg, payload in events:
            before = len(log)
            nl = len(net.open_listeners())
            r = await s.event(verb, arg, payload)
            r["probe"] = s.probe()
            r["backend_calls"] = log[before:]
            r["listeners"] = (nl, len(net.open_listeners()))
            obs.append(r)
        tree = ftpsim.final_tree(server, "memory")
        await server.close()
        return tree

    tree = simnet.run(main)
    return obs, tree


def check_history(ctx, table, h, mo):
    users = c05.USERS[table]
    obs, tree = run_impl(table, h)
    history = [[v, a, (p.decode("latin-1") if p is not None else None)] for v, a, p in h]
    st = (None, False)
    prev = {"logged": False, "cwd": None, "passive": False, "data": False}
    ok = c05.compare(ctx, table, h, mo, obs, tree, "memory")
    for i, ((verb, arg, payload), ob) in enumerate(zip(h, obs)):
        pr = ob["probe"]
        if verb == ftpsim.DATACONN:
            if pr:
                prev = pr
            continue
        if pr is None:
            break
        st = login_oracle(users, st, verb, arg)
        want_user = users[st[0]]["login"] if st[0] is not None else None
        got = (pr["user"] if pr["has_user"] else None, pr["logged"])
        why = None
        if got != ((want_user if st[0] is not None else None), st[1]) and not (st[0] is not None and want_user is None and got[0] is None and pr["has_user"]):
            why = f"login-state-differs-from-rule (rule {st}, server {got})"
        v = verb.lower()
        if why is None and not prev["logged"] and v not in ("user", "pass"):
            if ob["backend_calls"]:
                why = "backend-touched-before-login"
            elif pr["logged"]:
                why = "logged-in-without-user-pass"
            elif pr["passive"] != prev["passive"] or ob["listeners"][0] != ob["listeners"][1]:
                why = "listener-opened-before-login"
            elif prev["cwd"] is not None and pr["cwd"] != prev["cwd"]:
                why = "cwd-changed-before-login"
            elif any(c.startswith(("1", "2", "3")) for c in ob["codes"]) and v not in ("quit", "syst", "rest"):
                why = "command-succeeded-before-login"
        if why:
            ctx.violation(
                f"property oracle: {why}",
                {"key": "c03-" + why.split(" ")[0] + "-" + v, "table": table, "history": history[: i + 1], "at": i,
                 "codes": ob["codes"], "backend_calls": ob["backend_calls"][:5]},
            )
            return
        prev = pr


def correspondence(ctx, budget=None):
    rng = ctx.rng
    thorough = ctx.tier == "thorough"
    ctx.extra["rule"] = (
        "command histories over {USER known/unknown/password-less/password-protected/anonymous, PASS right/wrong/empty} x every other verb "
        "(fixed argument) x the data-connect pseudo-event: all histories of length <= 2 (quick) / <= 3 (thorough) followed by a probe verb, "
        "plus random histories of length <= 14, on two user tables (anonymous absent/present); the real server runs with a spying "
        "MemoryPathIO subclass (every backend call logged) and the listener ledger of simnet. Non-trivial = distinct history."
    )
    others = [(v, "d" if v not in ("REST", "TYPE", "PROT", "PBSZ", "EPSV", "PASV", "ABOR", "SYST", "PWD", "CDUP") else {"REST": "3", "TYPE": "I", "PROT": "P", "PBSZ": "0"}.get(v, "")) for v in VERBS]
    alpha = [(v, a, None) for v, a in LOGINS] + [(v, a, (b"x" if v in ("STOR", "APPE") else None)) for v, a in others]
    jobs = []
    for table in ("T1", "T2"):
        for e in alpha:
            jobs.append((table, [e, ("PWD", "", None)]))
        pairs = list(itertools.product(alpha, repeat=2))
        sel = pairs if thorough else rng.sample(pairs, budget or 350)
        for e1, e2 in sel:
            jobs.append((table, [e1, e2, ("PWD", "", None)]))
        if thorough:
            for _ in range(4000):
                jobs.append((table, [rng.choice(alpha) for _ in range(3)] + [("PWD", "", None)]))
    # the re-USER scenarios of the property, every other verb in between
    for e in alpha:
        jobs.append(("T1", [("USER", "u", None), ("PASS", "pw", None), ("PASV", "", None), ("USER", "u", None), e, ("PWD", "", None)]))
        jobs.append(("T2", [("USER", "anonymous", None), ("CWD", "d", None), ("USER", "v", None), e, ("PWD", "", None)]))
        jobs.append(("T1", [("USER", "nopw", None), ("USER", "u", None), e, ("PASS", "pw", None), ("PWD", "", None)]))
    n_rand = 1500 if thorough else 250
    for _ in range(n_rand):
        table = rng.choice(["T1", "T2"])
        jobs.append((table, [rng.choice(alpha if rng.random() < 0.6 else alpha[: len(LOGINS)]) for _ in range(rng.randint(2, 14))]))
    ctx.count("histories", len(jobs))
    model_in = [(0, [[c05.user_sx(u) for u in c05.USERS[t]], ftpsim.tree_to_sx(c05.TREE), [c05.event_sx(e) for e in h]]) for t, h in jobs]
    model_out = ctx.model(model_in)
    xcheck = []
    prelogin = 0
    for (table, h), mi, mo in zip(jobs, model_in, model_out):
        ctx.case((table, tuple(h)))
        ctx.traces_impl += 1
        check_history(ctx, table, h, mo)
        if len(xcheck) < 20:
            xcheck.append((0, mi[1], mo))
        if len(ctx.samples) < 4:
            ctx.sample({"table": table, "history": [[v, a] for v, a, _ in h]})
    ok, out = core.vm_crosscheck(EXTRACT, xcheck)
    ctx.extra["vm_compute_crosscheck"] = {"cases": len(xcheck), "agree": ok}
    if not ok:
        ctx.obligation_broken("extraction-crosscheck", out)


def search(ctx):
    """the checker's own counter-example first: every verb straight after connect and after a dropped login"""
    if ctx.violations or ctx.exe is None:
        return
    try:
        correspondence(ctx, budget=1500)
    except Exception as e:
        ctx.notes.append(f"search aborted: {e!r}")


def replay(ctx, data):
    r = data.get("replay", {})
    if "history" not in r:
        print(data)
        return False
    h = [(v, a, p.encode("latin-1") if p is not None else None) for v, a, p in r["history"]]
    table = r.get("table", "T1")
    mo = ctx.model([(0, [[c05.user_sx(u) for u in c05.USERS[table]], ftpsim.tree_to_sx(c05.TREE), [c05.event_sx(e) for e in h]])])[0]
    before = len(ctx.violations) + len(ctx.disagreements)
    check_history(ctx, table, h, mo)
    obs, _ = run_impl(table, h)
    for e, o in zip(h, obs):
        print(e[:2], "->", o["codes"], o["backend_calls"][:3])
    return len(ctx.violations) + len(ctx.disagreements) == before
