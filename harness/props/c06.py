"""C06 — reply framing.  Correspondence of coq/Model/Framing.v with the real
Server.write_response / parse_command and Client.parse_response / command / Code.matches,
and the property oracle (decode(encode) = id up to the stated normalisation) on the real code."""
import asyncio
import itertools

import aioftp
from aioftp import errors

from .. import sx

ID = "C06"
EXTRACT = "ExC06"
TECHNIQUE = "Coq proof (induction over reply lines; rstrip/partition lemmas) about an executable model of write_response/parse_response/Code.matches/command/parse_command, tied to the code by differential correspondence of the extracted model against the real functions under explicit byte segmentations"
LEVEL_TEXT = (
    "Theorems C06_decode_encode, C06_mismatch_rejected, C06_mismatch_any_line, C06_matches_spec, C06_command_loop, "
    "C06_decode_sequence, C06_decode_reply_stream(_then), C06_command_then_command and C06_parse_command_build are proved for every 3-digit code, every LF-free line list of any length and content (no bound on line length or reply size), both "
    "framing modes, every following stream and every reply sequence - decode(encode r1 ++ ... ++ encode rn ++ k) = [r1..rn] ++ decode k, no residue - (Closed under the global context). The model is "
    "hand-written; its tie to the code is a differential correspondence (about 5*10^4 cases per quick run, bounded-exhaustive "
    "plus random, real bytes under whole/byte-by-byte/random/MSS/block segmentations, utf-8 and seven single-byte code pages incl. a sweep of every byte value each codec can produce, a deterministic corpus of reply sizes on and around the block size, its multiples and the 64 KiB stream limits, each sized reply followed by further replies on the same stream, and the same sequences through the real server-side and client-side streams over the in-memory network and loopback TCP incl. whole real server/client sessions), so the assurance is a proof "
    "about the model plus sampled agreement of model and code."
)
LEVEL_NOTE = (
    "Trusted: Coq kernel; extraction (ExtrOcamlBasic only) cross-checked with vm_compute; harness. Assumed: codec commutes with "
    "splitting at byte 10 and round-trips (utf-8 and the single-byte code pages latin-1, cp1251, koi8-r, cp866, cp437, cp1252, iso8859-15); StreamReader.readline is a function of the byte stream (exercised). "
    "Modelled not verified: CPython str methods (tables regenerated from the interpreter), asyncio streams, the 64 KiB line limit."
)
TRUSTED = [
    "codec assumption: for utf-8 and the single-byte code pages (latin-1, cp1251, koi8-r, cp866, cp437, cp1252, iso8859-15), splitting the byte stream at byte 10 commutes with decoding and "
    "decode(encode(t)) = t; the model works on decoded text, the implementation is fed real bytes (exercised, not proved)",
    "asyncio.StreamReader.readline is a function of the concatenated byte stream (exercised with explicit segmentations); "
    "its 64 KiB line limit is outside the model (see C19)",
]
ASSUMPTIONS = [
    "modelled, not verified: CPython str.rstrip/isdigit/partition/lower (tables regenerated from the interpreter), asyncio streams",
]

ALPHA = ["1", "2", "5", "0", "-", " ", "a", "Z", "\r", "\t", "é", "²", "\x85", " ", "x", "٣", '"', "%"]
# characters that encode to byte 0xFF / 0xA0 / high bytes in the single-byte code pages below
ALPHA += ["ÿ", "я", "Ъ", "\xa0", "Я", "ю"]
# every encoding the server/client pair is run with: utf-8 and single-byte code pages (the property says
# "in either supported encoding": whatever `encoding=` both sides are configured with)
SINGLE_BYTE = ["latin-1", "cp1251", "koi8-r", "cp866", "cp437", "cp1252", "iso8859-15"]
ENCODINGS = ["utf-8"] + SINGLE_BYTE
SPECIAL_LINES = ["", " ", "-", "250-foo", "250 foo", "250", "25", "123 x", "-x", " 12", "  ", "a-b", "999-", "2xx", "é", "x\r", "\r", " - ", "12²", "²²²", "٣٣٣ a"]
CODES = ["250", "150", "226", "200", "550", "000", "999", "123", "257", "421"]


class CapStream:
    def __init__(self):
        self.data = b""

    async def write(self, b):
        self.data += b


class NullWriter:
    def close(self):
        pass

    def write(self, b):
        pass

    async def drain(self):
        pass


def impl_write_response(loop, server, code, lines, list_mode):
    st = CapStream()
    try:
        loop.run_until_complete(server.write_response(st, code, lines, list_mode))
    except Exception as e:  # ValueError = too few lines (tuple unpacking); anything else is reported by class
        return ("err", type(e).__name__)
    return ("ok", st.data)


async def _feed_and_run(coro_fn, segments, make_stream):
    reader = asyncio.StreamReader(limit=2**24)
    stream = make_stream(reader)
    task = asyncio.ensure_future(coro_fn(stream))
    fed = 0
    await asyncio.sleep(0)
    for seg in segments:
        if task.done():
            break
        reader.feed_data(seg)
        fed += 1
        for _ in range(3):
            await asyncio.sleep(0)
    if not task.done():
        reader.feed_eof()
        for _ in range(6):
            if task.done():
                break
            await asyncio.sleep(0)
    rest = bytes(reader._buffer) + b"".join(segments[fed:])
    if not task.done():  # the (changed) code waits for something that never comes: an observation, not a crash
        task.cancel()
        for _ in range(3):
            await asyncio.sleep(0)
        return ("raised", "DidNotFinish", rest)
    try:
        return ("ok", task.result(), rest)
    except errors.StatusCodeError as e:
        return ("status", e, rest)
    except ConnectionResetError:
        return ("reset", None, rest)
    except BaseException as e:  # whatever else the implementation raises is an observation (model: never)
        return ("raised", type(e).__name__, rest)


def impl_parse_response(loop, client, segments):
    def mk(reader):
        client.stream = aioftp.StreamIO(reader, NullWriter())
        return client.stream

    return loop.run_until_complete(_feed_and_run(lambda s: client.parse_response(), segments, mk))


def impl_command(loop, client, expected, wait, segments):
    def mk(reader):
        client.stream = aioftp.StreamIO(reader, NullWriter())
        return client.stream

    return loop.run_until_complete(
        _feed_and_run(lambda s: client.command(None, tuple(expected), tuple(wait)), segments, mk)
    )


def impl_parse_command(loop, server, segments):
    return loop.run_until_complete(
        _feed_and_run(lambda s: server.parse_command(s), segments, lambda r: aioftp.StreamIO(r, NullWriter()))
    )


def segmentations(rng, data, n_random):
    yield [data]
    if 0 < len(data) <= 40:
        yield [data[i : i + 1] for i in range(len(data))]
    for _ in range(n_random):
        cuts = sorted(rng.sample(range(1, len(data)), min(len(data) - 1, rng.randint(1, 5)))) if len(data) > 1 else []
        segs = [data[a:b] for a, b in zip([0] + cuts, cuts + [len(data)])]
        yield segs
    if len(data) > 2000:  # long streams: network-sized (MSS) and block-sized segments
        for step in (1460, block_size()):
            yield [data[i : i + step] for i in range(0, len(data), step)]


def gen_line(rng):
    r = rng.random()
    if r < 0.25:
        return rng.choice(SPECIAL_LINES)
    if r < 0.35:
        return rng.choice(CODES) + rng.choice(["-", " ", ""]) + "".join(rng.choice(ALPHA) for _ in range(rng.randint(0, 4)))
    return "".join(rng.choice(ALPHA) for _ in range(rng.randint(0, 7)))


def expected_info(code, lines, list_mode):
    """the property's right-hand side: what the client must decode"""
    if list_mode:  # = Proofs/Framing.v decoded_info
        return [("-" + lines[0]).rstrip()] + [(" " + l).rstrip() for l in lines[1:-1]] + [(" " + lines[-1]).rstrip()]
    return [("-" + l).rstrip() for l in lines[:-1]] + [(" " + lines[-1]).rstrip()]


def canon_presult(r):
    kind, val, rest = r
    try:
        if kind == "ok":
            code, info = val
            return [0, str(code), list(info)], rest
        if kind == "status":
            e = val
            exp = e.expected_codes[0] if e.expected_codes else ""
            return [1, str(exp), str(e.received_codes[0]), list(e.info)], rest
    except Exception as e:  # a result of another shape is an observation too
        return [3, "BadResult:" + type(e).__name__], rest
    if kind == "raised":
        return [3, val], rest
    return [2], rest


def model_presult(m, enc):
    tag = m[0]
    if tag == 0:
        return [0, sx.txt(m[1]), sx.txts(m[2])], sx.txt(m[3]).encode(enc)
    if tag == 1:
        return [1, sx.txt(m[1]), sx.txt(m[2]), sx.txts(m[3])], sx.txt(m[4]).encode(enc)
    return [2], None


def encodable(s, enc):
    try:
        s.encode(enc)
        return True
    except UnicodeEncodeError:
        return False


# ---- reply sequences and command() loops on ONE stream -------------------------------------------
SEQ_CODES = ["150", "125", "226", "250", "426", "550", "200", "225", "120", "257"]
MASKS_FULL = ["2xx", "1xx", "x26", "22x", "xxx", "x5x", "4xx", "2x6", "25x", "-26", "2 6", "x2x"]
MASKS_SHORT = ["", "2", "22", "1", "x", "x2", "x5", "12", "25", "4"]
MASKS_LONG = ["2260", "226x", "1xxx", "2xxxx", "150-"]
MASKS_UNI = ["²26", "2٣x", "²xx", "x²"]


def spec_match(mask, code):
    """the property's mask rule, stated on its own: position by position over the common length,
    a digit of the mask must be the same character in the code, anything else is a wildcard"""
    for i in range(min(len(mask), len(code))):
        if mask[i].isdigit() and mask[i] != code[i]:
            return False
    return True


def gen_mask(rng, codes_in_play):
    r = rng.random()
    if r < 0.3:
        return rng.choice(codes_in_play)
    if r < 0.45:  # a code of the sequence with some positions turned into wildcards
        return "".join(c if rng.random() < 0.6 else rng.choice("x-? ") for c in rng.choice(codes_in_play))
    if r < 0.72:
        return rng.choice(MASKS_FULL)
    if r < 0.87:
        return rng.choice(MASKS_SHORT)
    if r < 0.94:
        return rng.choice(MASKS_LONG)
    return rng.choice(MASKS_UNI)


def gen_masks(rng, codes_in_play, allow_empty=True):
    n = rng.choice([0, 1, 1, 1, 2, 2, 3]) if allow_empty else rng.choice([1, 1, 2, 3])
    return [gen_mask(rng, codes_in_play) for _ in range(n)]


def gen_reply(rng, codes=SEQ_CODES, p_any=0.15):
    """one reply in one of the three forms the server can emit"""
    code = "".join(rng.choice("0123456789") for _ in range(3)) if rng.random() < p_any else rng.choice(codes)
    shape = rng.choice(["single", "single", "multi", "multi", "list"])
    n = 1 if shape == "single" else rng.choice([2, 2, 3, 4])
    return [code, [gen_line(rng).replace("\n", "") for _ in range(n)], shape == "list"]


def spec_commands(replies, cmds):
    """what successive command(None, expected, wait) calls must return on the stream of `replies`:
    each skips exactly the replies whose code matches a wait mask, returns the first that does not
    (StatusCodeError iff expected masks are given and none matches it) and leaves the following ones.
    -> (outcomes, index of the first reply left on the stream, statistics)"""
    out, i, st = [], 0, {"skipped": 0, "skipped_also_expected": 0}
    for expected, wait in cmds:
        while i < len(replies) and any(spec_match(m, replies[i][0]) for m in wait):
            st["skipped"] += 1
            st["skipped_also_expected"] += any(spec_match(m, replies[i][0]) for m in expected)
            i += 1
        if i == len(replies):
            out.append([2])  # the stream ends while waiting: ConnectionResetError
            break
        code, lines, lm = replies[i]
        i += 1
        if not expected or any(spec_match(m, code) for m in expected):
            out.append([0, code, expected_info(code, lines, lm)])
        else:
            out.append([1])
    return out, i, st


def as_arg(masks):
    """the two ways callers pass masks: a tuple, or (a single mask, as the library itself mostly does) a bare str"""
    if len(masks) == 1 and len(masks[0]) % 2 == 1:
        return masks[0]
    return tuple(masks)


def impl_commands(loop, client, cmds, segments):
    """the real Client.command, called once per (expected, wait) on one stream"""

    async def run(stream):
        outs = []
        for expected, wait in cmds:
            try:
                code, info = await client.command(None, as_arg(expected), as_arg(wait))
                outs.append([0, str(code), list(info)])
            except errors.StatusCodeError:
                outs.append([1])
            except ConnectionResetError:
                outs.append([2])
                break
            except Exception as e:
                outs.append([3, type(e).__name__])
                break
        return outs

    def mk(reader):
        client.stream = aioftp.StreamIO(reader, NullWriter())
        return client.stream

    kind, val, rest = loop.run_until_complete(_feed_and_run(run, segments, mk))
    if kind != "ok":
        return [[3, str(val)]], rest
    return val, rest


def impl_parse_all(loop, client, n_calls, segments):
    """n_calls successive Client.parse_response calls on one stream"""

    async def run(stream):
        outs = []
        for _ in range(n_calls):
            try:
                code, info = await client.parse_response()
                outs.append([0, str(code), list(info)])
            except errors.StatusCodeError as e:
                outs.append([1, str(e.expected_codes[0]) if e.expected_codes else "", str(e.received_codes[0]) if e.received_codes else ""])
            except ConnectionResetError:
                outs.append([2])
                break
            except Exception as e:
                outs.append([3, type(e).__name__])
                break
        return outs

    def mk(reader):
        client.stream = aioftp.StreamIO(reader, NullWriter())
        return client.stream

    kind, val, rest = loop.run_until_complete(_feed_and_run(run, segments, mk))
    if kind != "ok":
        return [[3, str(val)]], rest
    return val, rest


def model_cresults(mo, enc):
    """decoded result of model fn 6 -> (outcomes, rest bytes after the last command or None)"""
    outs, rest = [], None
    for o in mo:
        if o[0] == 0:
            outs.append([0, sx.txt(o[1]), sx.txts(o[2])])
            rest = sx.txt(o[3]).encode(enc)
        elif o[0] == 1:
            outs.append([1])
            rest = sx.txt(o[1]).encode(enc)
        else:
            outs.append([o[0]])
            rest = None
    return outs, rest


def model_presults(mo):
    outs = []
    for o in mo:
        if o[0] == 0:
            outs.append([0, sx.txt(o[1]), sx.txts(o[2])])
        elif o[0] == 1:
            outs.append([1, sx.txt(o[1]), sx.txt(o[2])])
        else:
            outs.append([2])
    return outs


def pick_segments(rng, data):
    return rng.choice(list(segmentations(rng, data, 2)))


def cut(data, lens):
    segs, pos = [], 0
    for n in lens:
        segs.append(data[pos : pos + n])
        pos += n
    if pos < len(data):
        segs.append(data[pos:])
    return segs


def encode_replies(loop, server, replies):
    """wire of each reply through the real Server.write_response; None when the server raised"""
    wires = []
    for code, lines, lm in replies:
        im = impl_write_response(loop, server, code, list(lines), lm)
        if im[0] != "ok":
            return None
        wires.append(im[1])
    return wires


def item_wire_bad(code, other, head, body, bad):
    """a multi-line reply whose closing line carries another code (no server emits it: built here)"""
    return "".join(l + "\r\n" for l in [code + "-" + head] + [code + "-" + b for b in body] + [other + " " + bad])


def pick_enc(rng, texts):
    """an encoding able to carry all of `texts`: utf-8 or one of the single-byte code pages"""
    cands = [e for e in SINGLE_BYTE if all(encodable(t, e) for t in texts)]
    if not cands or rng.random() < 0.35:
        return "utf-8"
    return rng.choice(cands)


def codec_sweep():
    """for every single-byte encoding, EVERY byte value the codec can produce (LF excepted: lines are
    LF-free) as a character of the reply text - first, inner and last character of a line, in a
    single-line, a multi-line and a listing-style reply - plus one line carrying all of them"""
    cases = []
    for enc in SINGLE_BYTE:
        chars = []
        for b in range(256):
            try:
                ch = bytes([b]).decode(enc)
            except UnicodeDecodeError:
                continue
            if ch == "\n" or ch.encode(enc) != bytes([b]):
                continue
            chars.append(ch)
            first, inner, last = ch + "a", "a" + ch + "b", "a" + ch
            cases.append(("257", [inner], False, enc))
            cases.append(("211", [first, inner, last], False, enc))
            cases.append(("250", [last, first, inner], True, enc))
        everything = "".join(chars)
        cases.append(("200", [everything], False, enc))
        cases.append(("250", ["start", everything, everything[::-1], "end"], True, enc))
    return cases


def empty_line_corpus():
    """every line list of 1..4 lines over {empty, blank, text} in both framing modes: empty first, inner
    and LAST lines (a closing line `NNN ` + CRLF arrives as `NNN` after rstrip)"""
    cases = []
    for n in (1, 2, 3, 4):
        for ls in itertools.product(["", "a", " "], repeat=n):
            for lm in (False, True):
                if n >= (2 if lm else 1):
                    cases.append(("214", list(ls), lm, "utf-8"))
    return cases


# ---- the SIZE dimension: replies whose framed size sits on / around the sizes at which buffers, blocks and
# ---- flow control change state (aioftp.DEFAULT_BLOCK_SIZE, its fractions and multiples, the 64 KiB stream limits)
FILL_UNITS = ["a", "ab1 -x", "é2", "0123456789"]
PACK_MIN = 200


def fill(unit, n):
    return (unit * (n // len(unit) + 1))[:n]


def fill_sized(unit, size, enc=None):
    """LF-free text of exactly `size` characters (enc None) or exactly `size` bytes under `enc`:
    the unit repeated, padded with 'a'"""
    if size <= 0:
        return ""
    if enc is None:
        return fill(unit, size)
    ub = len(unit.encode(enc))
    s = unit * (size // ub)
    rem = size - (size // ub) * ub
    for ch in unit:
        b = len(ch.encode(enc))
        if b > rem:
            break
        s += ch
        rem -= b
    return s + "a" * rem


def pack_line(line):
    """compact, exact representation of a long generated line for replay files"""
    if not isinstance(line, str) or len(line) <= PACK_MIN:
        return line
    for unit in FILL_UNITS:
        body = line if unit == "a" else line.rstrip("a")
        if body == fill(unit, len(body)):
            return {"fill": unit, "n": len(body), "pad": len(line) - len(body)}
    return line


def unpack_line(x):
    if isinstance(x, dict):
        return fill(x["fill"], x["n"]) + "a" * x["pad"]
    return x


def pack_reply(r):
    return [r[0], [pack_line(l) for l in r[1]], r[2]]


def unpack_reply(r):
    return [r[0], [unpack_line(l) for l in r[1]], r[2]]


def pack_item(it):
    if it[0] == "good":
        return ["good", it[1], [pack_line(l) for l in it[2]], it[3]]
    return ["bad", it[1], it[2], pack_line(it[3]), [pack_line(l) for l in it[4]], pack_line(it[5])]


def unpack_item(it):
    if it[0] == "good":
        return ["good", it[1], [unpack_line(l) for l in it[2]], it[3]]
    return ["bad", it[1], it[2], unpack_line(it[3]), [unpack_line(l) for l in it[4]], unpack_line(it[5])]


def brief(x, keep=48):
    """diagnostic fields of a replay (decoded / expected / wire): long strings abbreviated; the INPUT
    fields stay exact (packed)"""
    if isinstance(x, str):
        return x if len(x) <= 2 * keep + 24 else "%s...(%d chars)...%s" % (x[:keep], len(x), x[-keep // 2:])
    if isinstance(x, (list, tuple)):
        if len(x) > 12:
            return [brief(y, keep) for y in x[:4]] + ["...(%d items)..." % len(x)] + [brief(y, keep) for y in x[-3:]]
        return [brief(y, keep) for y in x]
    return x


def pack_segs(segs):
    return [len(x) for x in segs]


SENTINEL = ["200", ["sentinel ok"], False]


def sized_sequences(rng, sized, thorough):
    """reply SEQUENCES around the size corpus: every sized reply followed by another reply on the same
    stream (the property speaks about the stream: what one reply leaves behind is seen by the next),
    some between two small replies, some back to back with another sized one"""
    primary, _ = size_bounds()
    out = []
    for i, (code, lines, lm, enc) in enumerate(sized):
        near_primary = any(abs(sum(map(len, lines)) + framing_overhead(len(lines), lm) - t) <= 4 for t in primary)
        if not (thorough or near_primary or i % 3 == 0):
            continue
        big = [code, lines, lm]
        seq = [big, SENTINEL]
        if i % 4 == 1:
            seq = [gen_reply(rng, CODES, 0.0), big, SENTINEL]
        elif i % 4 == 2:
            c2, l2, lm2, _ = sized[(i * 7 + 3) % len(sized)]
            seq = [big, [c2, l2, lm2], SENTINEL]
        elif i % 4 == 3:
            seq = [big, big, gen_reply(rng, CODES, 0.0)]
        texts = [l for r in seq for l in r[1]]
        out.append((seq, enc if all(encodable(t, enc) for t in texts) else "utf-8"))
    return out


def block_size():
    return int(getattr(aioftp, "DEFAULT_BLOCK_SIZE", 8192))


def size_bounds():
    """sizes around which the reply path may change behaviour: the library's block size, its half and
    multiples, a page, the 64 KiB stream limit / high-water mark"""
    b = block_size()
    return [b, 2 * b], sorted({b // 2, 3 * b, 4 * b, 4096, 65536} - {b, 2 * b})


def framing_overhead(n, lm):
    """characters a reply of n lines adds around the line texts (3-digit code, separator, CRLF)"""
    return 12 + 3 * (n - 2) if lm else 6 * n


def sized_lines(n, lm, total, unit, enc=None, reach_at=None):
    """n lines whose framed reply has exactly `total` characters (bytes under `enc`).  The text is spread
    evenly; with reach_at = k the first k lines already carry the whole size and the others are short"""
    k = n if reach_at is None else reach_at
    short = ["t%d" % i for i in range(n - k)]
    payload = total - framing_overhead(n, lm) - sum(len(x) for x in short)
    if payload < 0 or k < 1:
        return None
    q = payload // k
    sizes = [q] * (k - 1) + [payload - q * (k - 1)]
    return [fill_sized(unit, z, enc) for z in sizes] + short


def size_corpus(thorough):
    """deterministic (seed-independent) replies around every size bound: a single long line, 2..129 lines
    whose LAST line completes the size, many equal short lines summing to it, the size reached in the
    middle of the reply; both framing modes; sizes counted in characters and (utf-8, 2-byte text) in bytes"""
    primary, secondary = size_bounds()
    cases, idx = [], 0
    wide = (-3, -2, -1, 0, 1, 2, 3, 700)
    full = [(1, False, None)] + [(n, m, None) for n in (2, 3, 4, 41, 129) for m in (False, True)] + [(5, False, 3), (6, True, 4)]
    mid = [(1, False, None), (3, False, None), (3, True, None), (41, True, None), (129, False, None), (129, True, None), (5, False, 3), (6, True, 4)]
    few = [(1, False, None), (3, True, None), (129, False, None), (6, True, 4)]
    plan = [(primary[0], wide, full)]
    if thorough:
        plan += [(primary[1], wide, full)] + [(t, (-2, -1, 0, 1, 2), full) for t in secondary]
    else:  # the quick tier keeps every bound and both sides of it, with fewer shapes on the large ones
        plan += [(primary[1], (-1, 0, 1), mid)] + [(t, (-1, 0, 1), mid if t < primary[1] else few) for t in secondary]
    for bound, deltas, base_shapes in plan:
        for d in deltas:
            total = bound + d
            shapes = list(base_shapes)
            if d == 0:
                shapes += [(total // 32, False, None), (total // 64, True, None)] + ([(total // 8, False, None)] if thorough or bound <= primary[1] else [])
            for n, lm, reach in shapes:
                idx += 1
                unit = FILL_UNITS[idx % len(FILL_UNITS)]
                if unit == "é2":
                    enc, measure = ("utf-8", "utf-8") if idx % 8 < 4 else ("latin-1", None)
                else:
                    enc, measure = "utf-8", None
                lines = sized_lines(n, lm, total, unit, measure, reach)
                if lines is None:
                    continue
                code = CODES[idx % len(CODES)]
                cases.append((code, lines, lm, enc))
    return cases


def gen_sized_reply(rng, codes=SEQ_CODES):
    """a random reply whose framed size is near a size bound (or anywhere up to 70000), 1..200 lines"""
    primary, secondary = size_bounds()
    r = rng.random()
    if r < 0.5:
        total = rng.choice(primary) + rng.randint(-4, 4)
    elif r < 0.75:
        total = rng.choice(secondary) + rng.randint(-2, 2)
    else:
        total = int(2 ** rng.uniform(9, 16.1))
    n = rng.choice([1, 1, 2, 3, 5, 17, 64, 200])
    lm = n >= 2 and rng.random() < 0.5
    unit = rng.choice(FILL_UNITS)
    reach = rng.randint(1, n) if n > 2 and rng.random() < 0.3 else None
    lines = sized_lines(n, lm, total, unit, "utf-8" if unit == "é2" and rng.random() < 0.5 else None, reach)
    if lines is None:
        lines, lm = [fill(unit, max(total - 6, 0))], False
    return [rng.choice(codes), lines, lm]


# ---- (h) transport drivers: the REAL server side writes, the REAL client side reads, over the in-memory
# ---- network (simnet, virtual clock) and over real loopback TCP
LINE_LIMIT = 60000  # single lines stay below the 64 KiB readline limit of asyncio streams (C19's subject)


def make_segmenter(spec):
    """("none") | ("chunk", n) | ("cuts", seed): how the bytes of each server write are split"""
    if not spec or spec[0] == "none":
        return None
    if spec[0] == "chunk":
        n = spec[1]
        return lambda data: [data[i : i + n] for i in range(0, len(data), n)]
    import random

    r = random.Random(spec[1])

    def f(data):
        if len(data) < 2:
            return [data]
        cuts = sorted(r.sample(range(1, len(data)), min(len(data) - 1, r.randint(1, 3))))
        return [data[a:b] for a, b in zip([0] + cuts, cuts + [len(data)])]

    return f


async def pair_session(seq, enc, timeout):
    """each reply of `seq` through the REAL Server.write_response on the accepted connection's
    ThrottleStreamIO (as the dispatcher builds it) -> transport -> the stream the REAL BaseClient.connect
    builds -> len(seq)+1 REAL Client.parse_response calls"""
    server = aioftp.Server(encoding=enc)
    state = {"server_raised": None}

    async def handler(reader, writer):
        stream = aioftp.ThrottleStreamIO(reader, writer, throttles={"_": aioftp.StreamThrottle.from_limits()}, write_timeout=timeout)
        try:
            for code, lines, lm in seq:
                await server.write_response(stream, code, list(lines), lm)
        except Exception as e:
            state["server_raised"] = type(e).__name__
        finally:
            stream.close()

    srv = await asyncio.start_server(handler, "127.0.0.1", 0)
    port = srv.sockets[0].getsockname()[1]
    client = aioftp.Client(encoding=enc, socket_timeout=timeout)
    outs = []
    try:
        await aioftp.BaseClient.connect(client, "127.0.0.1", port)
        for _ in range(len(seq) + 1):
            try:
                code, info = await client.parse_response()
                outs.append([0, str(code), list(info)])
            except errors.StatusCodeError as e:
                outs.append([1, str(e.expected_codes[0]) if e.expected_codes else "", str(e.received_codes[0]) if e.received_codes else ""])
            except ConnectionResetError:
                outs.append([2])
                break
            except Exception as e:
                outs.append([3, type(e).__name__])
                break
    except Exception as e:
        outs.append([3, "connect:" + type(e).__name__])
    finally:
        client.close()
        srv.close()
        await srv.wait_closed()
    return outs, state["server_raised"]


def unknown_verb(n):
    return fill("XqZv", n)


async def server_session(verb_lengths, enc, timeout):
    """the REAL Server (dispatcher, parse_command, response queue, response_writer, write_response) and the
    REAL Client (connect, login, command): an unknown verb of each length is answered by 502 echoing it,
    then SYST must be answered by its own reply.  What the server encodes is recorded at write_response."""
    server = aioftp.Server(path_io_factory=aioftp.MemoryPathIO, encoding=enc)
    sent = []
    real_wr = server.write_response

    async def recording(stream, code, lines="", list=False):
        ls = [lines] if isinstance(lines, str) else [*lines]
        sent.append([code, ls, bool(list)])
        return await real_wr(stream, code, ls, list)

    server.write_response = recording
    await server.start("127.0.0.1", 0)
    port = server.server.sockets[0].getsockname()[1]
    client = aioftp.Client(encoding=enc, socket_timeout=timeout)
    outs = []
    try:
        await client.connect("127.0.0.1", port)
        await client.login()
        for n in verb_lengths:
            for cmd in (unknown_verb(n), "SYST"):
                n0 = len(sent)
                try:
                    code, info = await client.command(cmd, "xxx")  # any code is accepted here; judged below
                    got = [0, str(code), list(info)]
                except errors.StatusCodeError as e:
                    got = [1, str(e.expected_codes[0]) if e.expected_codes else "", str(e.received_codes[0]) if e.received_codes else ""]
                except ConnectionResetError:
                    got = [2]
                except Exception as e:
                    got = [3, type(e).__name__]
                outs.append({"command": cmd if len(cmd) < 20 else "unknown verb of %d characters" % n, "got": got, "encoded": [list(x) for x in sent[n0:]]})
                if got[0] >= 2:
                    break
            if outs and outs[-1]["got"][0] >= 2:
                break
    except Exception as e:
        outs.append({"command": "connect/login", "got": [3, type(e).__name__], "encoded": []})
    finally:
        client.close()
        try:
            await asyncio.wait_for(server.close(), 5)
        except Exception:
            pass
    return outs


def judge_session(outs, verb_lengths):
    """-> None when every command was answered by exactly the reply the server encoded for it"""
    if len(outs) != 2 * len(verb_lengths):
        return "the session stopped after %d of %d commands: %s" % (len(outs), 2 * len(verb_lengths), brief(outs[-1:]))
    for i, o in enumerate(outs):
        want_code = "502" if i % 2 == 0 else "215"
        if o["got"][0] != 0 or o["got"][1] != want_code:
            return "%s answered by %s" % (o["command"], brief(o["got"]))
        if len(o["encoded"]) == 1:  # what the server handed to write_response for this command
            c, ls, lm = o["encoded"][0]
            if o["got"] != [0, c, expected_info(c, ls, lm)]:
                return "%s: the server encoded %s, the client decoded %s" % (o["command"], brief([c, ls, lm]), brief(o["got"]))
    return None


def run_tcp(coro_fn, wall):
    """the same coroutine on a real event loop / real loopback sockets"""
    loop = asyncio.new_event_loop()
    try:
        return loop.run_until_complete(asyncio.wait_for(coro_fn(), wall))
    finally:
        try:
            loop.run_until_complete(asyncio.sleep(0.01))
            for t in asyncio.all_tasks(loop):
                t.cancel()
            loop.run_until_complete(asyncio.sleep(0))
        except Exception:
            pass
        loop.close()


def session_verbs(thorough):
    """verb lengths that put the 502 reply's framed size on every value around each primary size bound
    (whatever the fixed part of the message is, up to 40 characters)"""
    primary, secondary = size_bounds()
    out = []
    for t in primary + (secondary if thorough else []):
        if t + 8 < LINE_LIMIT:
            out.append([n for n in range(t - 40, t + 5)] if t == primary[0] or thorough else [n for n in range(t - 30, t - 16)])
    return out


def transport(ctx, sized):
    from .. import simnet

    rng, thorough = ctx.rng, ctx.tier == "thorough"
    seqs = [(seq, enc) for seq, enc in sized_sequences(rng, sized, thorough) if all(len(l.encode(enc)) < LINE_LIMIT for r in seq for l in r[1])]
    for _ in range(60 if thorough else 20):
        seq = [gen_sized_reply(rng, CODES) if rng.random() < 0.6 else gen_reply(rng, CODES, 0.2) for _ in range(rng.randint(2, 4))]
        enc = pick_enc(rng, [l for r in seq for l in r[1]])
        if all(len(l.encode(enc)) < LINE_LIMIT for r in seq for l in r[1]):
            seqs.append((seq, enc))
    jobs = []
    for i, (seq, enc) in enumerate(seqs):
        segspec = [["none"], ["chunk", 1460], ["cuts", i], ["none"], ["chunk", block_size()], ["chunk", 7]][i % 6]
        if segspec == ["chunk", 7] and sum(len(l) for r in seq for l in r[1]) > 20000:
            segspec = ["chunk", 512]
        jobs.append((seq, enc, segspec))

    def judge(seq, enc, segspec, driver, outs, server_raised):
        ctx.case(("transport", driver, repr(segspec), enc, tuple((r[0], tuple(r[1]), r[2]) for r in seq)))
        ctx.traces_impl += 1
        want = [[0, r[0], expected_info(r[0], r[1], r[2])] for r in seq] + [[2]]
        if outs != want or server_raised:
            ctx.violation(
                "replies written by the server on one connection were not decoded reply by reply by the client",
                {"key": "c06-transport-sequence", "driver": driver, "replies": [pack_reply(r) for r in seq], "encoding": enc,
                 "segmenter": segspec, "got": brief(outs), "expected": brief(want), "server_raised": server_raised},
            )

    async def main(net):
        res = []
        for seq, enc, segspec in jobs:
            net.on_connect = lambda ct, st, _s=segspec: setattr(st.out, "segmenter", make_segmenter(_s))
            try:
                res.append(await pair_session(seq, enc, 30))
            except Exception as e:  # an exception of the (changed) implementation is an observation
                res.append(([[3, "session:" + type(e).__name__]], None))
        vres = []
        for k, lens in enumerate(session_verbs(thorough)):
            net.on_connect = lambda ct, st, _k=k: setattr(st.out, "segmenter", make_segmenter([["none"], ["chunk", 1460]][_k % 2]))
            vres.append((lens, await server_session(lens, "utf-8", 30)))
        return res, vres

    try:
        res, vres = simnet.run(main, wall_timeout=240 if thorough else 100)
    except Exception as e:
        ctx.notes.append(f"transport driver (simnet) aborted: {e!r}")
        res, vres = [], []
    for (seq, enc, segspec), (outs, sr) in zip(jobs, res):
        judge(seq, enc, segspec, "simnet", outs, sr)
    ctx.count("transport_simnet_sequences", len(res))
    ctx.count("transport_simnet_replies", sum(len(j[0]) for j in jobs[: len(res)]))
    for lens, outs in vres:
        ctx.case(("session", "simnet", tuple(lens)))
        ctx.traces_impl += 1
        ctx.count("session_simnet_commands", len(outs))
        why = judge_session(outs, lens)
        if why:
            ctx.violation("real server / real client session: " + why,
                          {"key": "c06-session-replies", "driver": "simnet", "verb_lengths": lens, "encoding": "utf-8", "why": why})

    # once over the wire: real loopback TCP, real event loop (kernel segmentation)
    primary, _ = size_bounds()
    near = [j for j in jobs if any(abs(sum(len(l.encode(j[1])) for l in r[1]) + framing_overhead(len(r[1]), r[2]) - primary[0]) <= 1 for r in j[0])]
    wire_jobs = (near[:: max(len(near) // 12, 1)] + jobs[-3:]) if not thorough else near + jobs[-20:]
    n_wire, t_wire = 0, __import__("time").time()
    for seq, enc, _ in wire_jobs:
        if __import__("time").time() - t_wire > (120 if thorough else 40):  # a (changed) implementation that stalls: enough seen
            break
        # real sockets on the real clock: an unexpected outcome is repeated once with generous time limits before it is
        # judged, so that a loaded machine cannot turn a slow correct run into an alarm (a wrong decoding is wrong again)
        for sock_to, wall in ((5, 20), (30, 120)):
            try:
                outs, sr = run_tcp(lambda: pair_session(seq, enc, sock_to), wall)
            except Exception as e:
                outs, sr = [[3, "session:" + type(e).__name__]], None
            if not sr and outs == [[0, r[0], expected_info(r[0], r[1], r[2])] for r in seq] + [[2]]:
                break
        judge(seq, enc, ["kernel"], "tcp", outs, sr)
        n_wire += 1
    ctx.count("transport_tcp_sequences", n_wire)
    b = primary[0]
    lens = list(range(b - 30, b - 16))
    for sock_to, wall in ((5, 40), (30, 180)):  # same rule: one repetition with generous limits before judging
        try:
            outs = run_tcp(lambda: server_session(lens, "utf-8", sock_to), wall)
        except Exception as e:
            outs = [{"command": "session", "got": [3, type(e).__name__], "encoded": []}]
        if not judge_session(outs, lens):
            break
    ctx.case(("session", "tcp", tuple(lens)))
    ctx.traces_impl += 1
    ctx.count("session_tcp_commands", len(outs))
    why = judge_session(outs, lens)
    if why:
        ctx.violation("real server / real client session over loopback TCP: " + why,
                      {"key": "c06-session-replies", "driver": "tcp", "verb_lengths": lens, "encoding": "utf-8", "why": why})


def correspondence(ctx, budget=None):
    rng = ctx.rng
    thorough = ctx.tier == "thorough"
    n_rand = budget or (20000 if thorough else 2500)
    loop = asyncio.new_event_loop()
    ctx.extra["rule"] = (
        "streams: (a) bounded-exhaustive line lists over a 6-symbol alphabet (<=2 chars, <=3 lines) x both framing modes, "
        "(b) random replies from a metacharacter-biased alphabet incl. header-like lines, followed by a second reply, "
        "each decoded by the real client under whole / byte-by-byte / random segmentations in utf-8 and seven single-byte code pages, "
        "(a') codec sweep: per single-byte encoding every byte value the codec can produce (LF excepted) as first / inner / last "
        "character of a line in a single-line, multi-line and listing-style reply + one line with all of them; every line list of "
        "1-4 lines over {empty, blank, text} in both modes, "
        "(c) raw malformed reply streams (code mismatches, non-digit codes, EOF), (d) all mask x code pairs over a 7-symbol "
        "alphabet up to length 3, (e) successive command() calls on one stream of 1-5 replies (single-line, multi-line and "
        "listing-style interleaved; bounded-exhaustive core over 3 codes x <=3 replies x 5 expected x 6 wait mask sets, plus random "
        "mask sets that overlap, are shorter/longer than 3 characters or carry non-digit / non-ASCII-digit characters), judged by "
        "spec_commands: first reply matching no wait mask returned, exactly the following ones left for the next command, "
        "(f) server parse_command lines, (g) whole reply sequences (good replies interleaved with rejected ones and, for the "
        "correspondence only, replies with non-3-digit codes) decoded by successive parse_response calls, "
        "(s) SIZE: a deterministic corpus of replies whose framed size is on / around aioftp.DEFAULT_BLOCK_SIZE, its half and multiples, "
        "4 KiB and 64 KiB (offsets -3..+3, +700): one long line, 2..129 lines with the LAST line completing the size, the size reached "
        "mid-reply, many equal short lines summing to it, both modes, sizes in characters and in utf-8 bytes - fed to (a), and, each "
        "followed by / between / back to back with other replies, to (e) and (g), plus random sized replies, "
        "(h) the same sequences written by the real Server.write_response on the accepted connection and read by the real client stream "
        "over the in-memory network (per-write segmenters) and over loopback TCP, and whole real Server/Client sessions in which unknown "
        "verbs of every length around the block size are answered by the 502 echo and followed by SYST. A case is non-trivial "
        "when distinct (hash of input); trivial = duplicate input."
    )
    servers = {e: aioftp.Server(encoding=e) for e in ENCODINGS}
    clients = {e: aioftp.Client(encoding=e) for e in ENCODINGS}

    # ---------------- (a)+(b) encode then decode
    enc_cases = []
    small = ["", "1", "-", " ", "a", "\r"]
    small_lines = [""] + small[1:] + [a + b for a in small[1:] for b in small[1:]]
    for n in (1, 2, 3) if thorough else (1, 2):
        pool = small_lines if n < 3 else small_lines[:8]
        for ls in itertools.product(pool, repeat=n):
            for lm in (False, True):
                enc_cases.append(("250", list(ls), lm, "utf-8"))
    ctx.count("encode_exhaustive", len(enc_cases))
    sweep = codec_sweep()
    ctx.count("encode_codec_sweep", len(sweep))
    empties = empty_line_corpus()
    ctx.count("encode_empty_line_corpus", len(empties))
    sized = size_corpus(thorough)
    ctx.count("encode_size_corpus", len(sized))
    ctx.count("encode_size_corpus_bytes", sum(sum(map(len, c[1])) for c in sized))
    enc_cases += sweep + empties + sized
    for _ in range(n_rand):
        code = rng.choice(CODES) if rng.random() < 0.7 else "".join(rng.choice("0123456789") for _ in range(3))
        n = rng.choice([1, 1, 2, 2, 3, 4, 6])
        lines = [gen_line(rng) for _ in range(n)]
        lm = rng.random() < 0.5
        enc = pick_enc(rng, lines)
        enc_cases.append((code, lines, lm, enc))
    # a few degenerate ones: too few lines (server raises)
    enc_cases += [("250", [], False, "utf-8"), ("250", [], True, "utf-8"), ("250", ["a"], True, "utf-8")]
    ctx.count("encode_random", n_rand)

    model_in = [(0, [c, l, lm]) for c, l, lm, _ in enc_cases]
    model_out = ctx.model(model_in)
    xcheck = []
    decode_jobs = []
    for (code, lines, lm, enc), mo in zip(enc_cases, model_out):
        ctx.case(("enc", code, tuple(lines), lm, enc))
        im = impl_write_response(loop, servers[enc], code, list(lines), lm)
        if im[0] == "err":
            mcanon = ("err", "ValueError") if mo[0] == -1 else ("ok", None)
            if mcanon != im:
                ctx.disagree("write_response", brief([code, lines, lm]), mo, im)
            if len(lines) >= (2 if lm else 1):  # inside the property's domain: the server must emit it
                ctx.violation(
                    "the server raised instead of emitting a reply",
                    {"key": "c06-encode-raised", "code": code, "lines": [pack_line(l) for l in lines], "list": lm, "encoding": enc, "raised": im[1]},
                )
            continue
        if mo[0] == -1 or sx.txt(mo[1]).encode(enc) != im[1]:
            ctx.disagree("write_response", brief([code, lines, lm, enc]), str(mo)[:300], repr(im[1])[:300])
        if len(xcheck) < 40 and sum(map(len, lines)) < 400:
            xcheck.append((0, [code, lines, lm], mo))
        ctx.sample({"stream": "encode", "code": code, "lines": brief(lines), "list": lm, "wire": brief(im[1].decode(enc))})
        # lines with LF are outside the property's domain (a line is LF-free)
        if any("\n" in l for l in lines):
            continue
        decode_jobs.append((code, lines, lm, enc, im[1]))

    # decode: real client on wire ++ next reply
    follow = b"226 next\r\n"
    dec_model_in = []
    for code, lines, lm, enc, wire in decode_jobs:
        dec_model_in.append((1, [(wire + follow).decode(enc)]))
    dec_model_out = ctx.model(dec_model_in)
    for (code, lines, lm, enc, wire), mo in zip(decode_jobs, dec_model_out):
        data = wire + follow
        mcanon, mrest = model_presult(mo, enc)
        want = [0, code, expected_info(code, lines, lm)]
        nseg = 2 if thorough else 1
        for segs in segmentations(rng, data, nseg):
            ctx.case(("dec", data, tuple(map(len, segs))))
            ctx.traces_impl += 1
            r, rest = canon_presult(impl_parse_response(loop, clients[enc], segs))
            if r != mcanon or (mrest is not None and rest != mrest):
                ctx.disagree("parse_response", {"wire": brief(data.decode(enc)), "segs": brief(list(map(len, segs)))}, brief([mcanon, repr(mrest)]), brief([r, repr(rest)]))
            # property oracle on the implementation
            if r != want or rest != follow:
                ctx.violation(
                    "reply decoded differently from what was encoded",
                    {"key": "c06-roundtrip", "code": code, "lines": [pack_line(l) for l in lines], "list": lm, "encoding": enc,
                     "segments": pack_segs(segs), "emitted_bytes": len(wire), "decoded": brief(r), "expected": brief(want), "rest": brief(repr(rest))},
                )
        if len(xcheck) < 80 and len(data) < 400:
            xcheck.append((1, [data.decode(enc)], mo))
    ctx.count("decode_wires", len(decode_jobs))

    # ---------------- (c) raw / malformed reply streams
    raw_cases = []
    n_raw = n_rand
    for _ in range(n_raw):
        nl = rng.randint(1, 5)
        code = rng.choice(CODES)
        ls = []
        for i in range(nl):
            r = rng.random()
            if r < 0.45:
                c = code
            elif r < 0.65:
                c = rng.choice(CODES)
            elif r < 0.8:
                c = "".join(rng.choice(ALPHA) for _ in range(rng.randint(0, 3)))
            else:
                c = ""
            sep = rng.choice(["-", " ", "", "-", " "])
            ls.append(c + sep + gen_line(rng))
        term = rng.choice(["\r\n", "\r\n", "\n", "\r\n"])
        s = term.join(ls) + (term if rng.random() < 0.85 else "")
        enc = pick_enc(rng, [s])
        raw_cases.append((s, enc))
    raw_out = ctx.model([(1, [s]) for s, _ in raw_cases])
    kinds = {0: 0, 1: 0, 2: 0}
    for (s, enc), mo in zip(raw_cases, raw_out):
        data = s.encode(enc)
        mcanon, mrest = model_presult(mo, enc)
        kinds[mcanon[0]] += 1
        for segs in segmentations(rng, data, 1):
            ctx.case(("raw", data, tuple(map(len, segs))))
            ctx.traces_impl += 1
            r, rest = canon_presult(impl_parse_response(loop, clients[enc], segs))
            if r != mcanon or (mrest is not None and rest != mrest):
                ctx.disagree("parse_response_raw", {"wire": s, "segs": list(map(len, segs))}, [mcanon, repr(mrest)], [r, repr(rest)])
            # oracle: a continuation line with a different numeric code is rejected, never misread
            if r[0] == 0:
                lines = data.decode(enc).split("\n")
                consumed = data[: len(data) - len(rest)].decode(enc)
                for ln in consumed.split("\n"):
                    t = ln.rstrip()
                    if t[:3].isdigit() and t[:3] != r[1] and consumed.strip():
                        ctx.violation(
                            "reply with a continuation line of a different code was accepted",
                            {"key": "c06-mismatch-accepted", "wire": s, "encoding": enc, "decoded": r},
                        )
        if len(xcheck) < 120:
            xcheck.append((1, [s], mo))
    ctx.count("raw_ok", kinds[0])
    ctx.count("raw_status_error", kinds[1])
    ctx.count("raw_reset", kinds[2])
    ctx.sample({"stream": "raw", "wire": raw_cases[0][0]})

    # ---------------- (d) Code.matches, exhaustive over a small alphabet
    malpha = ["1", "2", "x", "²", "٣", " ", "-"]
    strs = [""] + ["".join(p) for n in (1, 2, 3) for p in itertools.product(malpha, repeat=n)]
    if not thorough:
        strs3 = [s for s in strs if len(s) <= 2] + ["".join(rng.choice(malpha) for _ in range(3)) for _ in range(120)]
    else:
        strs3 = strs
    pairs = [(m, c) for m in strs3 for c in strs3]
    if not thorough and len(pairs) > 30000:
        pairs = rng.sample(pairs, 30000)
    mo = ctx.model([(2, [m, c]) for m, c in pairs])
    for (m, c), o in zip(pairs, mo):
        ctx.case(("match", m, c))
        try:
            im = aioftp.Code(c).matches(m)
        except Exception as e:
            im = "raised " + type(e).__name__
        if bool(o) != im:
            ctx.disagree("matches", [m, c], o, im)
        spec = spec_match(m, c)
        if im != spec:
            ctx.violation("Code.matches differs from the digit-for-digit rule", {"key": "c06-matches", "mask": m, "code": c, "got": im})
    ctx.count("matches_pairs", len(pairs))
    ctx.extra["exhaustive_matches"] = thorough

    # ---------------- (e) command() wait/expect loops: successive commands on one stream of replies
    # (all three reply forms interleaved; masks overlapping, shorter/longer than 3, with non-digit and
    # non-ASCII-digit characters).  Oracle = spec_commands, stated without the model.
    cmd_cases = []
    # bounded-exhaustive core: every sequence of <= 3 single-line replies over 3 codes x mask sets
    ex_codes = ["226", "250", "150"]
    ex_expected = [[], ["2xx"], ["226"], ["250", "22x"], ["1xx"]]
    ex_wait = [[], ["1xx"], ["226"], ["x26"], ["2xx"], ["15", "2x6"]]
    for n in (1, 2, 3):
        for cs in itertools.product(ex_codes, repeat=n):
            for e in ex_expected:
                for w in ex_wait:
                    if e or w:
                        cmd_cases.append(([[c, ["r%d" % i], False] for i, c in enumerate(cs)], [[e, w], [["xxx"], []]], "utf-8", None))
    ctx.count("command_exhaustive", len(cmd_cases))
    n_cmd = n_rand if thorough else max(n_rand // 2, 1200)
    for _ in range(n_cmd):
        pool = rng.sample(SEQ_CODES, rng.choice([2, 3, 4]))
        replies = [gen_reply(rng, pool) for _ in range(rng.randint(1, 5))]
        in_play = [r[0] for r in replies]
        cmds = []
        for k in range(rng.choice([1, 2, 2, 3])):
            if k and rng.random() < 0.4:
                cmds.append([["xxx"], []])  # plain "read the next reply"
                continue
            e, w = gen_masks(rng, in_play), gen_masks(rng, in_play)
            if rng.random() < 0.8:  # a wait mask without any digit skips everything: keep those rare
                w = [m for m in w if any(ch.isdigit() for ch in m)]
            if not e and not w:
                w = [rng.choice(in_play + MASKS_FULL[:3])]
            cmds.append([e, w])
        enc = pick_enc(rng, [l for r in replies for l in r[1]])
        cmd_cases.append((replies, cmds, enc, rng.random()))
    ctx.count("command_random", n_cmd)
    n_before = len(cmd_cases)
    for k, (seq, enc) in enumerate(sized_sequences(rng, sized, thorough)):
        if not thorough and k % 2:
            continue
        first = seq[0][0]
        cmds = [[[[first[0] + "xx"], []], [["xxx"], []], [["xxx", "2"], []]],
                [[[], [first]], [["xxx"], []]],
                [[["xxx"], []]] * (len(seq) + 1)][k % 3]
        cmd_cases.append((seq, cmds, enc, 0.5 if k % 2 else None))
    for _ in range(n_cmd // 20):
        pool = rng.sample(SEQ_CODES, 3)
        replies = [gen_sized_reply(rng, pool) if rng.random() < 0.5 else gen_reply(rng, pool) for _ in range(rng.randint(2, 4))]
        in_play = [r[0] for r in replies]
        cmds = [[gen_masks(rng, in_play), [m for m in gen_masks(rng, in_play) if any(ch.isdigit() for ch in m)]] for _ in range(rng.choice([1, 2, 3]))]
        cmds = [c if c[0] or c[1] else [["xxx"], []] for c in cmds]  # command(None, (), ()) is not a call the library supports
        cmd_cases.append((replies, cmds, pick_enc(rng, [l for r in replies for l in r[1]]), rng.random()))
    ctx.count("command_sized_sequences", len(cmd_cases) - n_before)
    cmd_jobs = []
    for replies, cmds, enc, r in cmd_cases:
        wires = encode_replies(loop, servers[enc], replies)
        if wires is None:  # the server raised: judged in stream (a)/(b)
            ctx.count("command_server_raised")
            continue
        cmd_jobs.append((replies, cmds, enc, wires, r))
    mo = ctx.model([(6, [cmds, b"".join(wires).decode(enc)]) for _, cmds, enc, wires, _ in cmd_jobs])
    for (replies, cmds, enc, wires, r), o in zip(cmd_jobs, mo):
        data = b"".join(wires)
        segs = [data] if r is None else pick_segments(rng, data)
        ctx.case(("cmd", repr(cmds), data, tuple(map(len, segs))))
        ctx.traces_impl += 1
        got, rest = impl_commands(loop, clients[enc], cmds, segs)
        m_out, m_rest = model_cresults(o, enc)
        if got != m_out or (m_rest is not None and rest != m_rest):
            ctx.disagree("command", {"commands": cmds, "wire": brief(data.decode(enc)), "segs": brief(pack_segs(segs))}, str(brief([m_out, repr(m_rest)])), str(brief([got, repr(rest)])))
        want, left, st = spec_commands(replies, cmds)
        want_rest = b"".join(wires[left:])
        ctx.count("command_first_" + ["ok", "statuserror", "reset"][want[0][0]])
        ctx.count("command_replies_skipped", st["skipped"])
        ctx.count("command_skipped_reply_also_matched_expected", st["skipped_also_expected"])
        ctx.count("command_second_call_reached", len(want) > 1)
        ctx.count("command_replies_left_after_last_call", left < len(replies))
        if got != want or rest != want_rest:
            ctx.violation(
                "command() did not return the first reply matching no wait mask / did not leave exactly the following replies",
                {"key": "c06-command-loop", "replies": [pack_reply(x) for x in replies], "commands": cmds, "encoding": enc, "segments": pack_segs(segs),
                 "wire": brief(data.decode(enc)), "got": brief(got), "expected": brief(want), "rest": brief(repr(rest)), "expected_rest": brief(repr(want_rest))},
            )
        if len(xcheck) < 140 and r is not None and len(data) < 400:
            xcheck.append((6, [cmds, data.decode(enc)], o))
    ctx.sample({"stream": "command", "commands": cmd_jobs[-1][1], "wire": brief(b"".join(cmd_jobs[-1][3]).decode(cmd_jobs[-1][2]))})

    # ---------------- (g) whole reply sequences decoded by successive parse_response calls: replies of
    # all three forms interleaved with rejected ones (closing line of another code) and, for the
    # correspondence only, replies whose code is not three ASCII digits
    seq_cases = []
    n_seq = n_rand if thorough else max(n_rand // 2, 1000)
    odd_codes = ["²26", "2x6", "12", "٣٣٣", "2260", " 26", "-50", "abc", ""]
    for _ in range(n_seq):
        items, in_domain = [], True
        for _ in range(rng.randint(1, 5)):
            r = rng.random()
            if r < 0.7:
                items.append(["good"] + gen_reply(rng, CODES, 0.3))
            elif r < 0.93:
                code, other = rng.sample(CODES, 2) if rng.random() < 0.7 else ["".join(rng.choice("0123456789") for _ in range(3)) for _ in range(2)]
                if code == other:
                    other = "%03d" % ((int(code) + 1) % 1000)
                items.append(["bad", code, other, gen_line(rng).replace("\n", ""),
                              [gen_line(rng).replace("\n", "") for _ in range(rng.choice([0, 0, 1, 2]))], gen_line(rng).replace("\n", "")])
            else:
                rp = gen_reply(rng)
                rp[0] = rng.choice(odd_codes)
                items.append(["good"] + rp)
                in_domain = False
        enc = pick_enc(rng, [x for it in items for x in ([it[1]] + it[2] if it[0] == "good" else [it[1], it[2], it[3], it[5]] + it[4])])
        seq_cases.append((items, enc, in_domain))
    n_before = len(seq_cases)
    for seq, enc in sized_sequences(rng, sized, thorough):
        seq_cases.append(([["good"] + list(r) for r in seq], enc, True))
    for _ in range(n_seq // 20):  # random: sized replies between small ones and rejected ones
        items = []
        for _ in range(rng.randint(2, 4)):
            r = rng.random()
            if r < 0.5:
                items.append(["good"] + gen_sized_reply(rng, CODES))
            elif r < 0.85:
                items.append(["good"] + gen_reply(rng, CODES, 0.3))
            else:
                code, other = rng.sample(CODES, 2)
                items.append(["bad", code, other, "h", [fill("ab1 -x", rng.choice(size_bounds()[0]) - 20 + rng.randint(-3, 3))], "tail"])
        seq_cases.append((items, pick_enc(rng, [x for it in items for x in (it[2] if it[0] == "good" else [it[3], it[5]] + it[4])]), True))
    ctx.count("sequence_sized", len(seq_cases) - n_before)
    seq_jobs = []
    for items, enc, in_domain in seq_cases:
        wires = []
        for it in items:
            if it[0] == "good":
                im = impl_write_response(loop, servers[enc], it[1], list(it[2]), it[3])
                if im[0] != "ok":
                    wires = None
                    break
                wires.append(im[1])
            else:
                wires.append(item_wire_bad(*it[1:]).encode(enc))
        if wires is None:
            ctx.count("sequence_server_raised")
            continue
        seq_jobs.append((items, enc, in_domain, wires))
    mo = ctx.model([(5, [b"".join(w).decode(enc)]) for _, enc, _, w in seq_jobs])
    for (items, enc, in_domain, wires), o in zip(seq_jobs, mo):
        data = b"".join(wires)
        segs = pick_segments(rng, data)
        ctx.case(("seq", data, tuple(map(len, segs))))
        ctx.traces_impl += 1
        got, rest = impl_parse_all(loop, clients[enc], len(items) + 1, segs)
        m_out = model_presults(o)
        if got != m_out[: len(items) + 1]:
            ctx.disagree("parse_sequence", {"wire": brief(data.decode(enc)), "segs": brief(pack_segs(segs))}, str(brief(m_out)), str(brief(got)))
        ctx.count("sequence_in_domain" if in_domain else "sequence_odd_codes")
        ctx.count("sequence_items_good", sum(it[0] == "good" for it in items))
        ctx.count("sequence_items_rejected", sum(it[0] == "bad" for it in items))
        if in_domain:
            want = [[0, it[1], expected_info(it[1], it[2], it[3])] if it[0] == "good" else [1, it[1], it[2]] for it in items] + [[2]]
            if got != want or rest != b"":
                ctx.violation(
                    "a reply sequence was not decoded reply by reply (a reply mis-framed, or one desynchronised a later one)",
                    {"key": "c06-sequence", "items": [pack_item(it) for it in items], "encoding": enc, "segments": pack_segs(segs),
                     "wire": brief(data.decode(enc)), "got": brief(got), "expected": brief(want), "rest": brief(repr(rest))},
                )
        if len(xcheck) < 160 and len(data) < 400:
            xcheck.append((5, [data.decode(enc)], o))
    ctx.sample({"stream": "sequence", "wire": brief(b"".join(seq_jobs[-1][3]).decode(seq_jobs[-1][1]))})

    # ---------------- (f) server parse_command
    pc_cases = []
    verbs = ["USER", "pass", "PaSs", "RETR", "mKd", "KWD", "X", "", "ſ"]
    for _ in range(n_rand // 2):
        verb = rng.choice(verbs)
        arg = gen_line(rng).replace("\n", "")
        line = rng.choice([verb + " " + arg, verb, " " + arg, verb + "  " + arg]) + rng.choice(["\r\n", "\n", "", " \r\n"])
        pc_cases.append(line)
    pc_cases.append("")
    mo = ctx.model([(4, [l]) for l in pc_cases])
    for l, o in zip(pc_cases, mo):
        ctx.case(("pc", l))
        ctx.traces_impl += 1
        kind, val, rest = impl_parse_command(loop, servers["utf-8"], [l.encode("utf-8")] if l else [])
        ic = [0, val[0], val[1]] if kind == "ok" else [2]
        mc = [0, sx.txt(o[1][0]), sx.txt(o[1][1])] if o[0] == 0 else [2]
        if ic != mc:
            ctx.disagree("parse_command", l, mc, ic)
        # oracle: a client-built command line is parsed back to (lower verb, arg)
    for verb in ["RETR", "stor", "CwD"]:
        for _ in range(200 if not thorough else 2000):
            arg = gen_line(rng).replace("\n", "")
            if arg != arg.rstrip() or not arg:
                continue
            enc = pick_enc(rng, [arg])
            ctx.case(("pcb", verb, arg, enc))
            kind, val, rest = impl_parse_command(loop, servers[enc], [(verb + " " + arg + "\r\n").encode(enc)])
            if kind != "ok" or val != (verb.lower(), arg):
                ctx.violation("command line not parsed back to (verb, arg)", {"key": "c06-parse-command", "verb": verb, "arg": arg, "encoding": enc, "got": repr(val)})
    ctx.count("parse_command_lines", len(pc_cases))

    # ---------------- (h) the same sized sequences over transports: in-memory network and loopback TCP
    if budget is None:
        transport(ctx, sized)

    ok, out = __import__("harness.core", fromlist=["x"]).vm_crosscheck(EXTRACT, xcheck)
    ctx.extra["vm_compute_crosscheck"] = {"cases": len(xcheck), "agree": ok}
    if not ok:
        ctx.obligation_broken("extraction-crosscheck", out)
    loop.close()


def search(ctx):
    """failing-input search: the oracle already ran on every implementation output above;
    widen the budget once when something is broken and nothing was found yet."""
    if ctx.violations or ctx.tier == "thorough" or ctx.exe is None:
        return
    try:
        correspondence(ctx, budget=12000)
    except Exception as e:  # the search must not mask the original breakage
        ctx.notes.append(f"search aborted: {e!r}")


def replay(ctx, data):
    """re-run one recorded failing input on the implementation; returns True when the property holds on it"""
    r = data.get("replay", {})
    loop = asyncio.new_event_loop()
    enc = r.get("encoding", "utf-8")
    if r.get("key") == "c06-roundtrip":
        server = aioftp.Server(encoding=enc)
        client = aioftp.Client(encoding=enc)
        r["lines"] = [unpack_line(l) for l in r["lines"]]
        kind, wire = impl_write_response(loop, server, r["code"], r["lines"], r["list"])
        if kind != "ok":
            print("the server raised while encoding the reply:", wire)
            return False
        data_b = wire + b"226 next\r\n"
        segs, pos = [], 0
        for n in r["segments"]:
            segs.append(data_b[pos : pos + n])
            pos += n
        got, rest = canon_presult(impl_parse_response(loop, client, segs))
        print("emitted bytes:", len(wire), "decoded:", brief(got), "rest:", brief(repr(rest)))
        return got == [0, r["code"], expected_info(r["code"], r["lines"], r["list"])] and rest == b"226 next\r\n"
    if r.get("key") == "c06-matches":
        try:
            im = aioftp.Code(r["code"]).matches(r["mask"])
        except Exception as e:
            im = "raised " + type(e).__name__
        print("matches:", im)
        return im == spec_match(r["mask"], r["code"])
    if r.get("key") == "c06-encode-raised":
        im = impl_write_response(loop, aioftp.Server(encoding=enc), r["code"], [unpack_line(l) for l in r["lines"]], r["list"])
        print("write_response:", brief(repr(im)))
        return im[0] == "ok"
    if r.get("key") == "c06-command-loop":
        r["replies"] = [unpack_reply(x) for x in r["replies"]]
        wires = encode_replies(loop, aioftp.Server(encoding=enc), r["replies"])
        if wires is None:
            print("the server raised while encoding the replies")
            return False
        data_b = b"".join(wires)
        got, rest = impl_commands(loop, aioftp.Client(encoding=enc), r["commands"], cut(data_b, r["segments"]))
        want, left, _ = spec_commands(r["replies"], r["commands"])
        print("wire:", brief(repr(data_b)), "\ncommands:", r["commands"], "\ngot:     ", brief(got), "rest:", brief(repr(rest)), "\nexpected:", brief(want), "rest:", brief(repr(b"".join(wires[left:]))))
        return got == want and rest == b"".join(wires[left:])
    if r.get("key") == "c06-sequence":
        server = aioftp.Server(encoding=enc)
        wires = []
        r["items"] = [unpack_item(it) for it in r["items"]]
        for it in r["items"]:
            if it[0] == "good":
                im = impl_write_response(loop, server, it[1], list(it[2]), it[3])
                if im[0] != "ok":
                    print("the server raised while encoding", it)
                    return False
                wires.append(im[1])
            else:
                wires.append(item_wire_bad(*it[1:]).encode(enc))
        data_b = b"".join(wires)
        got, rest = impl_parse_all(loop, aioftp.Client(encoding=enc), len(r["items"]) + 1, cut(data_b, r["segments"]))
        want = [[0, it[1], expected_info(it[1], it[2], it[3])] if it[0] == "good" else [1, it[1], it[2]] for it in r["items"]] + [[2]]
        print("wire:", brief(repr(data_b)), "\ngot:     ", brief(got), "rest:", brief(repr(rest)), "\nexpected:", brief(want))
        return got == want and rest == b""
    if r.get("key") == "c06-transport-sequence":
        from .. import simnet

        seq = [unpack_reply(x) for x in r["replies"]]
        if r.get("driver") == "tcp":
            outs, sr = run_tcp(lambda: pair_session(seq, enc, 5), 20)
        else:
            async def main(net):
                net.on_connect = lambda ct, st: setattr(st.out, "segmenter", make_segmenter(r.get("segmenter")))
                return await pair_session(seq, enc, 30)

            outs, sr = simnet.run(main, wall_timeout=60)
        want = [[0, x[0], expected_info(x[0], x[1], x[2])] for x in seq] + [[2]]
        print("driver:", r.get("driver"), "\ngot:     ", brief(outs), "server raised:", sr, "\nexpected:", brief(want))
        return outs == want and not sr
    if r.get("key") == "c06-session-replies":
        from .. import simnet

        lens = r["verb_lengths"]
        if r.get("driver") == "tcp":
            outs = run_tcp(lambda: server_session(lens, enc, 5), 40)
        else:
            outs = simnet.run(lambda net: server_session(lens, enc, 30), wall_timeout=60)
        why = judge_session(outs, lens)
        print("driver:", r.get("driver"), "commands answered:", len(outs), "of", 2 * len(lens), "\nverdict:", why or "every command answered by the reply the server encoded for it")
        return why is None
    if r.get("key") == "c06-parse-command":
        kind, val, rest = impl_parse_command(loop, aioftp.Server(encoding=enc), [(r["verb"] + " " + r["arg"] + "\r\n").encode(enc)])
        print("parsed:", kind, val)
        return kind == "ok" and val == (r["verb"].lower(), r["arg"])
    if r.get("key") == "c06-mismatch-accepted":
        got, rest = canon_presult(impl_parse_response(loop, aioftp.Client(encoding=enc), [r["wire"].encode(enc)]))
        print("decoded:", got, "rest:", rest)
        if got[0] != 0:
            return True
        consumed = r["wire"].encode(enc)[: len(r["wire"].encode(enc)) - len(rest)].decode(enc)
        return not any(ln.rstrip()[:3].isdigit() and ln.rstrip()[:3] != got[1] for ln in consumed.split("\n"))
    print("replay payload:", data)
    return False
