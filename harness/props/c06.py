"""C06 — reply framing.  Correspondence of coq/Model/Framing.v with the real
Server.write_response / parse_command and Client.parse_response / command / Code.matches,
and the property oracle (decode(encode) = id up to the stated normalisation) on the real code."""
import asyncio
import itertools

import aioftp
from aioftp import errors

from .. import sx

ID = "C06"
EXTRACT = "ExC06"
TECHNIQUE = "Coq proof (induction over reply lines; rstrip/partition lemmas) about an executable model of write_response/parse_response/Code.matches/command/parse_command, tied to the code by differential correspondence of the extracted model against the real functions under explicit byte segmentations"
LEVEL_TEXT = (
    "Theorems C06_decode_encode, C06_mismatch_rejected, C06_mismatch_any_line, C06_matches_spec, C06_command_loop and "
    "C06_parse_command_build are proved for every 3-digit code, every LF-free line list of any length and content, both "
    "framing modes, every following stream and every reply sequence (Closed under the global context). The model is "
    "hand-written; its tie to the code is a differential correspondence (about 5*10^4 cases per quick run, bounded-exhaustive "
    "plus random, real bytes under whole/byte-by-byte/random segmentations, utf-8 and latin-1), so the assurance is a proof "
    "about the model plus sampled agreement of model and code."
)
LEVEL_NOTE = (
    "Trusted: Coq kernel; extraction (ExtrOcamlBasic only) cross-checked with vm_compute; harness. Assumed: codec commutes with "
    "splitting at byte 10 and round-trips (utf-8, latin-1); StreamReader.readline is a function of the byte stream (exercised). "
    "Modelled not verified: CPython str methods (tables regenerated from the interpreter), asyncio streams, the 64 KiB line limit."
)
TRUSTED = [
    "codec assumption: for utf-8 and latin-1, splitting the byte stream at byte 10 commutes with decoding and "
    "decode(encode(t)) = t; the model works on decoded text, the implementation is fed real bytes (exercised, not proved)",
    "asyncio.StreamReader.readline is a function of the concatenated byte stream (exercised with explicit segmentations); "
    "its 64 KiB line limit is outside the model (see C19)",
]
ASSUMPTIONS = [
    "modelled, not verified: CPython str.rstrip/isdigit/partition/lower (tables regenerated from the interpreter), asyncio streams",
]

ALPHA = ["1", "2", "5", "0", "-", " ", "a", "Z", "\r", "\t", "é", "²", "\x85", " ", "x", "٣", '"', "%"]
SPECIAL_LINES = ["", " ", "-", "250-foo", "250 foo", "250", "25", "123 x", "-x", " 12", "  ", "a-b", "999-", "2xx", "é", "x\r", "\r", " - ", "12²", "²²²", "٣٣٣ a"]
CODES = ["250", "150", "226", "200", "550", "000", "999", "123", "257", "421"]


class CapStream:
    def __init__(self):
        self.data = b""

    async def write(self, b):
        self.data += b


class NullWriter:
    def close(self):
        pass

    def write(self, b):
        pass

    async def drain(self):
        pass


def impl_write_response(loop, server, code, lines, list_mode):
    st = CapStream()
    try:
        loop.run_until_complete(server.write_response(st, code, lines, list_mode))
    except Exception as e:  # ValueError = too few lines (tuple unpacking); anything else is reported by class
        return ("err", type(e).__name__)
    return ("ok", st.data)


async def _feed_and_run(coro_fn, segments, make_stream):
    reader = asyncio.StreamReader(limit=2**24)
    stream = make_stream(reader)
    task = asyncio.ensure_future(coro_fn(stream))
    fed = 0
    await asyncio.sleep(0)
    for seg in segments:
        if task.done():
            break
        reader.feed_data(seg)
        fed += 1
        for _ in range(3):
            await asyncio.sleep(0)
    if not task.done():
        reader.feed_eof()
        for _ in range(6):
            if task.done():
                break
            await asyncio.sleep(0)
    assert task.done(), "reader task did not finish"
    rest = bytes(reader._buffer) + b"".join(segments[fed:])
    try:
        return ("ok", task.result(), rest)
    except errors.StatusCodeError as e:
        return ("status", e, rest)
    except ConnectionResetError:
        return ("reset", None, rest)


def impl_parse_response(loop, client, segments):
    def mk(reader):
        client.stream = aioftp.StreamIO(reader, NullWriter())
        return client.stream

    return loop.run_until_complete(_feed_and_run(lambda s: client.parse_response(), segments, mk))


def impl_command(loop, client, expected, wait, segments):
    def mk(reader):
        client.stream = aioftp.StreamIO(reader, NullWriter())
        return client.stream

    return loop.run_until_complete(
        _feed_and_run(lambda s: client.command(None, tuple(expected), tuple(wait)), segments, mk)
    )


def impl_parse_command(loop, server, segments):
    return loop.run_until_complete(
        _feed_and_run(lambda s: server.parse_command(s), segments, lambda r: aioftp.StreamIO(r, NullWriter()))
    )


def segmentations(rng, data, n_random):
    yield [data]
    if 0 < len(data) <= 40:
        yield [data[i : i + 1] for i in range(len(data))]
    for _ in range(n_random):
        cuts = sorted(rng.sample(range(1, len(data)), min(len(data) - 1, rng.randint(1, 5)))) if len(data) > 1 else []
        segs = [data[a:b] for a, b in zip([0] + cuts, cuts + [len(data)])]
        yield segs


def gen_line(rng):
    r = rng.random()
    if r < 0.25:
        return rng.choice(SPECIAL_LINES)
    if r < 0.35:
        return rng.choice(CODES) + rng.choice(["-", " ", ""]) + "".join(rng.choice(ALPHA) for _ in range(rng.randint(0, 4)))
    return "".join(rng.choice(ALPHA) for _ in range(rng.randint(0, 7)))


def expected_info(code, lines, list_mode):
    """the property's right-hand side: what the client must decode"""
    if list_mode:  # = Proofs/Framing.v decoded_info
        return [("-" + lines[0]).rstrip()] + [(" " + l).rstrip() for l in lines[1:-1]] + [(" " + lines[-1]).rstrip()]
    return [("-" + l).rstrip() for l in lines[:-1]] + [(" " + lines[-1]).rstrip()]


def canon_presult(r):
    kind, val, rest = r
    if kind == "ok":
        code, info = val
        return [0, str(code), list(info)], rest
    if kind == "status":
        e = val
        exp = e.expected_codes[0] if e.expected_codes else ""
        return [1, str(exp), str(e.received_codes[0]), list(e.info)], rest
    return [2], rest


def model_presult(m, enc):
    tag = m[0]
    if tag == 0:
        return [0, sx.txt(m[1]), sx.txts(m[2])], sx.txt(m[3]).encode(enc)
    if tag == 1:
        return [1, sx.txt(m[1]), sx.txt(m[2]), sx.txts(m[3])], sx.txt(m[4]).encode(enc)
    return [2], None


def encodable(s, enc):
    try:
        s.encode(enc)
        return True
    except UnicodeEncodeError:
        return False


def correspondence(ctx, budget=None):
    rng = ctx.rng
    thorough = ctx.tier == "thorough"
    n_rand = budget or (20000 if thorough else 2500)
    loop = asyncio.new_event_loop()
    ctx.extra["rule"] = (
        "streams: (a) bounded-exhaustive line lists over a 6-symbol alphabet (<=2 chars, <=3 lines) x both framing modes, "
        "(b) random replies from a metacharacter-biased alphabet incl. header-like lines, followed by a second reply, "
        "each decoded by the real client under whole / byte-by-byte / random segmentations in utf-8 and latin-1, "
        "(c) raw malformed reply streams (code mismatches, non-digit codes, EOF), (d) all mask x code pairs over a 7-symbol "
        "alphabet up to length 3, (e) command() wait/expect loops, (f) server parse_command lines. A case is non-trivial when "
        "distinct (hash of input); trivial = duplicate input."
    )
    servers = {e: aioftp.Server(encoding=e) for e in ("utf-8", "latin-1")}
    clients = {e: aioftp.Client(encoding=e) for e in ("utf-8", "latin-1")}

    # ---------------- (a)+(b) encode then decode
    enc_cases = []
    small = ["", "1", "-", " ", "a", "\r"]
    small_lines = [""] + small[1:] + [a + b for a in small[1:] for b in small[1:]]
    for n in (1, 2, 3) if thorough else (1, 2):
        pool = small_lines if n < 3 else small_lines[:8]
        for ls in itertools.product(pool, repeat=n):
            for lm in (False, True):
                enc_cases.append(("250", list(ls), lm, "utf-8"))
    ctx.count("encode_exhaustive", len(enc_cases))
    for _ in range(n_rand):
        code = rng.choice(CODES) if rng.random() < 0.7 else "".join(rng.choice("0123456789") for _ in range(3))
        n = rng.choice([1, 1, 2, 2, 3, 4, 6])
        lines = [gen_line(rng) for _ in range(n)]
        lm = rng.random() < 0.5
        enc = rng.choice(["utf-8", "latin-1"])
        if not all(encodable(l, enc) for l in lines):
            enc = "utf-8"
        enc_cases.append((code, lines, lm, enc))
    # a few degenerate ones: too few lines (server raises)
    enc_cases += [("250", [], False, "utf-8"), ("250", [], True, "utf-8"), ("250", ["a"], True, "utf-8")]
    ctx.count("encode_random", n_rand)

    model_in = [(0, [c, l, lm]) for c, l, lm, _ in enc_cases]
    model_out = ctx.model(model_in)
    xcheck = []
    decode_jobs = []
    for (code, lines, lm, enc), mo in zip(enc_cases, model_out):
        ctx.case(("enc", code, tuple(lines), lm, enc))
        im = impl_write_response(loop, servers[enc], code, list(lines), lm)
        if im[0] == "err":
            mcanon = ("err", "ValueError") if mo[0] == -1 else ("ok", None)
            if mcanon != im:
                ctx.disagree("write_response", [code, lines, lm], mo, im)
            continue
        if mo[0] == -1 or sx.txt(mo[1]).encode(enc) != im[1]:
            ctx.disagree("write_response", [code, lines, lm, enc], str(mo)[:300], repr(im[1])[:300])
        if len(xcheck) < 40:
            xcheck.append((0, [code, lines, lm], mo))
        ctx.sample({"stream": "encode", "code": code, "lines": lines, "list": lm, "wire": im[1].decode(enc)})
        # lines with LF are outside the property's domain (a line is LF-free)
        if any("\n" in l for l in lines):
            continue
        decode_jobs.append((code, lines, lm, enc, im[1]))

    # decode: real client on wire ++ next reply
    follow = b"226 next\r\n"
    dec_model_in = []
    for code, lines, lm, enc, wire in decode_jobs:
        dec_model_in.append((1, [(wire + follow).decode(enc)]))
    dec_model_out = ctx.model(dec_model_in)
    for (code, lines, lm, enc, wire), mo in zip(decode_jobs, dec_model_out):
        data = wire + follow
        mcanon, mrest = model_presult(mo, enc)
        want = [0, code, expected_info(code, lines, lm)]
        nseg = 2 if thorough else 1
        for segs in segmentations(rng, data, nseg):
            ctx.case(("dec", data, tuple(map(len, segs))))
            ctx.traces_impl += 1
            r, rest = canon_presult(impl_parse_response(loop, clients[enc], segs))
            if r != mcanon or (mrest is not None and rest != mrest):
                ctx.disagree("parse_response", {"wire": data.decode(enc), "segs": list(map(len, segs))}, [mcanon, repr(mrest)], [r, repr(rest)])
            # property oracle on the implementation
            if r != want or rest != follow:
                ctx.violation(
                    "reply decoded differently from what was encoded",
                    {"key": "c06-roundtrip", "code": code, "lines": lines, "list": lm, "encoding": enc,
                     "segments": list(map(len, segs)), "decoded": r, "expected": want, "rest": repr(rest)},
                )
        if len(xcheck) < 80:
            xcheck.append((1, [data.decode(enc)], mo))
    ctx.count("decode_wires", len(decode_jobs))

    # ---------------- (c) raw / malformed reply streams
    raw_cases = []
    n_raw = n_rand
    for _ in range(n_raw):
        nl = rng.randint(1, 5)
        code = rng.choice(CODES)
        ls = []
        for i in range(nl):
            r = rng.random()
            if r < 0.45:
                c = code
            elif r < 0.65:
                c = rng.choice(CODES)
            elif r < 0.8:
                c = "".join(rng.choice(ALPHA) for _ in range(rng.randint(0, 3)))
            else:
                c = ""
            sep = rng.choice(["-", " ", "", "-", " "])
            ls.append(c + sep + gen_line(rng))
        term = rng.choice(["\r\n", "\r\n", "\n", "\r\n"])
        s = term.join(ls) + (term if rng.random() < 0.85 else "")
        enc = "utf-8" if not encodable(s, "latin-1") or rng.random() < 0.5 else "latin-1"
        raw_cases.append((s, enc))
    raw_out = ctx.model([(1, [s]) for s, _ in raw_cases])
    kinds = {0: 0, 1: 0, 2: 0}
    for (s, enc), mo in zip(raw_cases, raw_out):
        data = s.encode(enc)
        mcanon, mrest = model_presult(mo, enc)
        kinds[mcanon[0]] += 1
        for segs in segmentations(rng, data, 1):
            ctx.case(("raw", data, tuple(map(len, segs))))
            ctx.traces_impl += 1
            r, rest = canon_presult(impl_parse_response(loop, clients[enc], segs))
            if r != mcanon or (mrest is not None and rest != mrest):
                ctx.disagree("parse_response_raw", {"wire": s, "segs": list(map(len, segs))}, [mcanon, repr(mrest)], [r, repr(rest)])
            # oracle: a continuation line with a different numeric code is rejected, never misread
            if r[0] == 0:
                lines = data.decode(enc).split("\n")
                consumed = data[: len(data) - len(rest)].decode(enc)
                for ln in consumed.split("\n"):
                    t = ln.rstrip()
                    if t[:3].isdigit() and t[:3] != r[1] and consumed.strip():
                        ctx.violation(
                            "reply with a continuation line of a different code was accepted",
                            {"key": "c06-mismatch-accepted", "wire": s, "encoding": enc, "decoded": r},
                        )
        if len(xcheck) < 120:
            xcheck.append((1, [s], mo))
    ctx.count("raw_ok", kinds[0])
    ctx.count("raw_status_error", kinds[1])
    ctx.count("raw_reset", kinds[2])
    ctx.sample({"stream": "raw", "wire": raw_cases[0][0]})

    # ---------------- (d) Code.matches, exhaustive over a small alphabet
    malpha = ["1", "2", "x", "²", "٣", " ", "-"]
    strs = [""] + ["".join(p) for n in (1, 2, 3) for p in itertools.product(malpha, repeat=n)]
    if not thorough:
        strs3 = [s for s in strs if len(s) <= 2] + ["".join(rng.choice(malpha) for _ in range(3)) for _ in range(120)]
    else:
        strs3 = strs
    pairs = [(m, c) for m in strs3 for c in strs3]
    if not thorough and len(pairs) > 30000:
        pairs = rng.sample(pairs, 30000)
    mo = ctx.model([(2, [m, c]) for m, c in pairs])
    for (m, c), o in zip(pairs, mo):
        ctx.case(("match", m, c))
        im = aioftp.Code(c).matches(m)
        if bool(o) != im:
            ctx.disagree("matches", [m, c], o, im)
        spec = all((not mm.isdigit()) or mm == cc for mm, cc in zip(m, c))
        if im != spec:
            ctx.violation("Code.matches differs from the digit-for-digit rule", {"key": "c06-matches", "mask": m, "code": c, "got": im})
    ctx.count("matches_pairs", len(pairs))
    ctx.extra["exhaustive_matches"] = thorough

    # ---------------- (e) command() wait/expect loop over reply sequences
    cmd_cases = []
    for _ in range(n_rand // 4):
        nrep = rng.randint(1, 4)
        wire = ""
        for _ in range(nrep):
            code = rng.choice(["150", "125", "226", "250", "426", "550", "200"])
            lines = [gen_line(rng).replace("\n", "") for _ in range(rng.choice([1, 1, 2]))]
            wire += servers["utf-8"].encoding and "".join(
                l + "\r\n" for l in ([code + "-" + x for x in lines[:-1]] + [code + " " + lines[-1]])
            )
        expected = rng.choice([[], ["2xx"], ["226"], ["2xx", "1xx"], ["250", "55x"]])
        wait = rng.choice([[], ["1xx"], ["426"], ["1xx", "426"]])
        if not expected and not wait:
            wait = ["1xx"]
        cmd_cases.append((expected, wait, wire))
    mo = ctx.model([(3, [e, w, s]) for e, w, s in cmd_cases])
    for (e, w, s), o in zip(cmd_cases, mo):
        data = s.encode("utf-8")
        ctx.case(("cmd", tuple(e), tuple(w), s))
        ctx.traces_impl += 1
        kind, val, rest = impl_command(loop, clients["utf-8"], e, w, list(segmentations(rng, data, 1))[-1])
        if kind == "ok":
            ic = [0, str(val[0]), list(val[1]), rest]
        elif kind == "status":
            ic = [1, rest]
        else:
            ic = [2]
        if o[0] == 0:
            mc = [0, sx.txt(o[1]), sx.txts(o[2]), sx.txt(o[3]).encode("utf-8")]
        elif o[0] == 1:
            mc = [1, sx.txt(o[1]).encode("utf-8")]
        else:
            mc = [o[0]]
        if mc != ic:
            ctx.disagree("command", [e, w, s], str(mc), str(ic))
    ctx.count("command_loops", len(cmd_cases))

    # ---------------- (f) server parse_command
    pc_cases = []
    verbs = ["USER", "pass", "PaSs", "RETR", "mKd", "KWD", "X", "", "ſ"]
    for _ in range(n_rand // 2):
        verb = rng.choice(verbs)
        arg = gen_line(rng).replace("\n", "")
        line = rng.choice([verb + " " + arg, verb, " " + arg, verb + "  " + arg]) + rng.choice(["\r\n", "\n", "", " \r\n"])
        pc_cases.append(line)
    pc_cases.append("")
    mo = ctx.model([(4, [l]) for l in pc_cases])
    for l, o in zip(pc_cases, mo):
        ctx.case(("pc", l))
        ctx.traces_impl += 1
        kind, val, rest = impl_parse_command(loop, servers["utf-8"], [l.encode("utf-8")] if l else [])
        ic = [0, val[0], val[1]] if kind == "ok" else [2]
        mc = [0, sx.txt(o[1][0]), sx.txt(o[1][1])] if o[0] == 0 else [2]
        if ic != mc:
            ctx.disagree("parse_command", l, mc, ic)
        # oracle: a client-built command line is parsed back to (lower verb, arg)
    for verb in ["RETR", "stor", "CwD"]:
        for _ in range(200 if not thorough else 2000):
            arg = gen_line(rng).replace("\n", "")
            if arg != arg.rstrip() or not arg:
                continue
            ctx.case(("pcb", verb, arg))
            kind, val, rest = impl_parse_command(loop, servers["utf-8"], [(verb + " " + arg + "\r\n").encode("utf-8")])
            if kind != "ok" or val != (verb.lower(), arg):
                ctx.violation("command line not parsed back to (verb, arg)", {"key": "c06-parse-command", "verb": verb, "arg": arg, "got": repr(val)})
    ctx.count("parse_command_lines", len(pc_cases))

    ok, out = __import__("harness.core", fromlist=["x"]).vm_crosscheck(EXTRACT, xcheck)
    ctx.extra["vm_compute_crosscheck"] = {"cases": len(xcheck), "agree": ok}
    if not ok:
        ctx.obligation_broken("extraction-crosscheck", out)
    loop.close()


def search(ctx):
    """failing-input search: the oracle already ran on every implementation output above;
    widen the budget once when something is broken and nothing was found yet."""
    if ctx.violations or ctx.tier == "thorough" or ctx.exe is None:
        return
    try:
        correspondence(ctx, budget=12000)
    except Exception as e:  # the search must not mask the original breakage
        ctx.notes.append(f"search aborted: {e!r}")


def replay(ctx, data):
    """re-run one recorded failing input on the implementation; returns True when the property holds on it"""
    r = data.get("replay", {})
    loop = asyncio.new_event_loop()
    enc = r.get("encoding", "utf-8")
    if r.get("key") == "c06-roundtrip":
        server = aioftp.Server(encoding=enc)
        client = aioftp.Client(encoding=enc)
        kind, wire = impl_write_response(loop, server, r["code"], r["lines"], r["list"])
        data_b = wire + b"226 next\r\n"
        segs, pos = [], 0
        for n in r["segments"]:
            segs.append(data_b[pos : pos + n])
            pos += n
        got, rest = canon_presult(impl_parse_response(loop, client, segs))
        print("decoded:", got, "rest:", rest)
        return got == [0, r["code"], expected_info(r["code"], r["lines"], r["list"])] and rest == b"226 next\r\n"
    if r.get("key") == "c06-matches":
        im = aioftp.Code(r["code"]).matches(r["mask"])
        return im == all((not mm.isdigit()) or mm == cc for mm, cc in zip(r["mask"], r["code"]))
    print("replay payload:", data)
    return False
