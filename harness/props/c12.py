"""C12 — a session that ends, at any point and for any reason, releases everything it held.

The REAL aioftp.Server runs on harness/simnet.py (harness/xfer.py: gated, handle-counting backend; exact
quiescence; resource ledger = open server-side transports, passive listeners, ports missing from
available_data_ports, back-end file handles, unfinished tasks, connection slots, Server.connections).

Two families of cases
  A  stage cuts: for RETR / STOR / APPE / LIST / MLSD (and for PASV / EPSV listener start-up, and idle sessions)
     the session is held at every stage of the model (waiting for the data connection; back-end open / seek /
     k-th read / write / directory step / stat / close suspended; waiting for the peer's bytes; waiting for
     the peer to read; inside asyncio.start_server before / after the bind; command handler suspended before
     150; transfer finished) and is then ended in every way: the peer resets all its sockets, closes them,
     loses only the control connection, sends QUIT, makes a handler raise, stays silent until idle_timeout,
     or Server.close() is called; with and without a data-port pool, alone or next to other sessions.
  B  event cuts: every script of a corpus covering all verbs and transfer kinds is cut after each network
     event k = 0..N (k-th delivery on any link of the in-memory network): peer reset / peer close / control
     connection lost / Server.close().

Per case
  * oracle (independent of the model): after the end, with no further input and no time passing, the ledger
    of the session is empty, the other sessions are untouched and usable, Server.close() has completed and
    left nothing at all;
  * correspondence: the abstract state at the instant of the cut is read off the real server (Connection
    futures, listener start-up progress, coroutine stack of the transfer task -> model stage); the canonical
    model trace to that state must reproduce the resources the real session holds at that instant, and
    end_session + unwinding in the extracted Coq model (Model/Transfer.v) must predict the real final ledger.

Smoke test:
    >>> r = xfer.run_case(end_case("STOR", ("gate", "write", 2), "close"))
    >>> xfer.norm_real(r.final)
    [0, 0, 0, 0, 0, 0, 0, 0, 0]
"""
import json

from .. import core, xfer

ID = "C12"
EXTRACT = "ExC12"
TECHNIQUE = (
    "Coq proof about a small-step machine of one session, its passive listener and its transfer worker with an explicit "
    "resource ledger (Model/Transfer.v), parametric in the structure tools/py2v re-extracts from server.py on every run "
    "(the statements of the dispatcher's finally block with their guards, in order; the except ladders; the items and order "
    "of each worker's `async with`; detach-first; decorator order); the finally block is model-checked on every session "
    "configuration by a proved-sound boolean checker (fin_ok).  Tied to behaviour by ending the real server's sessions at "
    "every model stage and after every network event on an in-memory network and comparing the ledger with the extracted "
    "model, the model state being read off the real server's own state at the instant of the cut"
)
LEVEL_TEXT = (
    "Proved (Closed under the global context) for EVERY reachable state of the model of a live session (any command / "
    "transfer in any stage - the back-end open included -, any number of workers and blocks) and every ending event "
    "(QUIT, peer EOF, handler error, idle timeout, server close): C12_end_releases_all_partial (finally block + at most "
    "|ctx|+1 steps of each cancelled worker leave the ledger empty; the only premise left is that no listener start-up "
    "is in progress: finding F5, not repaired), C12_end_by_failed_task_partial, C12_unwinding_terminates (every worker "
    "of a reachable state, no carve-out), C12_server_close_completes, C12_startup_hole_closed_by_giveback.  The "
    "theorems rest on C12_facts_ok (repaired12 genF: finally block model-checked, workers own the stream through an "
    "`async with` whose first item is the stream - false on the former file-first shape).  Refuted with witnesses "
    "replayed on the real server every run: C12_end_releases_all_refuted_listener_startup (F5), hence "
    "C12_end_releases_all_refuted.  PARTIAL: GC-time closing, an executor thread finishing an open after cancellation and "
    "the kernel's treatment of half-closed sockets are runtime behaviour the model does not exhibit."
)
LEVEL_NOTE = (
    "Trusted: Coq kernel; extraction cross-checked with vm_compute; py2v; simnet.  Modelled, not verified: asyncio rules "
    "R1-R7 at the top of Model/Transfer.v; asyncio.wait()/Task.cancel() deliver cancellation to every task of the session."
)
TRUSTED = [
    "asyncio cancellation semantics (rules R1-R7 at the top of coq/Model/Transfer.v): encoded in the model, exercised by "
    "the cuts against the real event loop, not proved",
    "harness/xfer.py abstraction function (Connection futures, bind log, coroutine stack of the transfer task -> model state)",
    "simnet: a listener whose start-up was cancelled after the bind stays bound (as asyncio's half-started Server does until GC)",
]
ASSUMPTIONS = [
    "one transfer at a time per session",
    "a peer reset closes the server-side socket at the runtime level whoever owns it: for resets the data-socket slot is "
    "not compared with the model (the model tracks ownership, the transport is gone either way)",
    "back-end suspension is modelled by gates: an open cancelled while suspended has opened nothing; a close that has "
    "started completes",
]

KEY_F4 = "c12-end-during-file-open-data-stream-left-open"
KEY_F5A = "c12-end-during-listener-startup-port-not-returned"
KEY_F5B = "c12-end-during-listener-startup-bound-listener-left"

HOWS = ["rst", "eof", "ctrl_eof", "close", "quit", "error", "idle"]
EMPTY = [0] * 9


def end_steps(how):
    if how in ("rst", "eof", "ctrl_eof", "close"):
        return [["cut", how]]
    if how == "quit":
        return [["mark"], ["cmd", "QUIT"]]
    if how == "error":
        return [["mark"], ["cmdhex", "fffe"]]  # not UTF-8: UnicodeDecodeError in the session's parse_command task
    if how == "idle":
        return [["mark"], ["sleep", 4]]
    raise ValueError(how)


ACTORS = [
    [["cmd", "USER anonymous"], ["cmd", "PASV"], ["dconn"], ["cmd", "STOR a1"], ["dsend", 3]],  # upload waiting for the peer's bytes
    [["cmd", "USER anonymous"], ["cmd", "PASV"], ["cmd", "RETR f"]],  # waiting for the data connection
    [["cmd", "USER anonymous"], ["cmd", "EPSV"], ["dconn"]],  # listener + unused data connection
]


def end_case(verb, place, how, pool=True, sessions=0, size=None, rest=None, listen="PASV", slow_close=False, actors=0):
    """slow_close: the back-end close() that the unwinding worker performs is slow as well (it is released after the
    end): the dispatcher must wait for its cancelled tasks, Server.close() must not return before they are done"""
    steps, gates, files, block, payload = xfer.transfer_setup(verb, place, size=size, rest=rest, listen=listen)
    steps = steps + [["snap", "held"]] + end_steps(how)
    stalled = place[0] in ("stalled", "stalled_gate") or "retr_stalled" in place[1:]
    if place[0] == "tgate" and place[1] == "close":
        # the back-end close is running in its executor thread: it completes when the back-end lets it
        steps = steps + [["snap", "unwinding"], ["release", None]]
    if slow_close:
        gates = gates + [["close", 1]]
        steps = steps + [["snap", "unwinding"], ["release", "close"]]
    steps = steps + [["snap", "ended"]]
    case = {
        "verb": verb, "place": list(place), "how": how, "steps": steps, "gates": gates, "pool": pool, "files": files,
        "payload": payload, "block": block, "sessions": sessions, "wait_future_timeout": 50, "listen": listen,
        "slow_close": slow_close, "actors": ACTORS[:actors],
        **({"water": [8, 16]} if stalled else {}),
        **({"backend": "async"} if place[0] == "tgate" else {}),
    }
    if place[0] == "bind":
        case["bind_gate"] = place[1]
    if how == "idle":
        case["idle_timeout"] = 3
    return case


# ------------------------------------------------------------------ corpus for the event cuts
U = [["cmd", "USER anonymous"]]
CORPUS = {
    "login_pwd_quit": U + [["cmd", "PWD"], ["cmd", "SYST"], ["cmd", "TYPE I"], ["cmd", "QUIT"]],
    "tree": U + [["cmd", "MKD x"], ["cmd", "CWD x"], ["cmd", "CDUP"], ["cmd", "RNFR x"], ["cmd", "RNTO y"], ["cmd", "MLST y"],
                 ["cmd", "RMD y"], ["cmd", "DELE f"], ["cmd", "PBSZ 0"], ["cmd", "PROT P"], ["cmd", "NOPE"]],
    "userpass": [["cmd", "USER anonymous"], ["cmd", "PASS x"], ["cmd", "USER anonymous"], ["cmd", "PWD"]],
    "pasv_twice": U + [["cmd", "PASV"], ["dconn"], ["cmd", "PASV"], ["cmd", "EPSV"]],
    "retr": U + [["cmd", "PASV"], ["dconn"], ["cmd", "RETR f"], ["cmd", "PWD"]],
    "retr_late": U + [["cmd", "EPSV"], ["cmd", "RETR f"], ["dconn"], ["cmd", "PWD"]],
    "rest_retr": U + [["cmd", "PASV"], ["dconn"], ["cmd", "REST 3"], ["cmd", "RETR f"]],
    "stor": U + [["cmd", "PASV"], ["dconn"], ["cmd", "STOR up"], ["dsend", 5], ["dsend", 5], ["deof"], ["cmd", "PWD"]],
    "appe_late": U + [["cmd", "PASV"], ["cmd", "APPE old"], ["dconn"], ["dsend", 9], ["deof"]],
    "list": U + [["cmd", "PASV"], ["dconn"], ["cmd", "LIST d"], ["cmd", "PWD"]],
    "mlsd": U + [["cmd", "EPSV"], ["dconn"], ["cmd", "MLSD d"]],
    "two_transfers": U + [["cmd", "PASV"], ["dconn"], ["cmd", "RETR f"], ["dconn"], ["cmd", "STOR up"], ["dsend", 6], ["deof"], ["dconn"], ["cmd", "LIST d"]],
    "abor_mid": U + [["cmd", "PASV"], ["dconn"], ["cmd", "STOR up"], ["dsend", 6], ["cmd", "ABOR"], ["dconn"], ["cmd", "RETR f"]],
    "no_data_425": U + [["cmd", "PASV"], ["cmd", "RETR f"], ["sleep", 2], ["cmd", "PWD"]],
    "retr_missing": U + [["cmd", "PASV"], ["dconn"], ["cmd", "RETR nosuch"], ["cmd", "STOR nodir/x"]],
}


def event_case(name, k, how, pool, sessions=0):
    return {
        "script": name, "steps": CORPUS[name] + [["snap", "ended"]], "cut_at_event": k, "cut_how": how, "how": how, "pool": pool,
        "files": xfer.FILES, "payload": 10, "block": xfer.BLOCK, "sessions": sessions,
        "wait_future_timeout": 1 if name == "no_data_425" else 50, "verb": None, "place": ["event", k],
    }


# ------------------------------------------------------------------ oracle
def pre_of(r):
    """observation at the instant the dispatcher starts its finally block (None: the session never ended, or ended
    before it was in the table)"""
    return r.end_obs


def oracle(case, r):
    """C12 on the observations of one run; returns ([(aspect, message)], leftover vector)"""
    bad = []
    how = case["how"]
    ended = (r.final["table"] - (0 if how == "close" else r.baseline["table"])) == 0
    ctrl_gone = r.raw.eof or how in ("rst", "eof", "ctrl_eof", "close")
    if how == "close":
        left = xfer.norm_real(r.final)  # every session of the server, the bystanders' and the other active ones included
        if not getattr(r, "close_completed", False):
            bad.append(("close-hangs", "Server.close() has not completed although nothing is runnable any more"))
        if r.at_close is not None:
            # what Server.close() left behind at the instant it returned and that went away only later
            late = [n for n, v, w in zip(xfer.SLOT_NAMES, xfer.norm_real(r.at_close), left) if v and not w]
            if case["place"][:2] == ["tgate", "close"] and late == ["files"]:
                late = []  # the back-end close is running in an executor thread: Server.close() does not wait for threads
            if late:
                bad.append(("at-close:" + "+".join(late), f"at the instant Server.close() returned the server still had {late}: {r.at_close}"))
        if r.final["main_listener"]:
            bad.append(("main-listener", "the server's listening socket is still open after Server.close()"))
    else:
        left = xfer.norm_real(r.final, r.baseline)
        if not all(r.others_ok):
            bad.append(("others", "another session stopped answering after this one ended"))
        f, b = r.final, r.baseline
        lost = [k for k in ("ctrl", "ports_out", "data", "files", "slot", "user", "table") if f[k] < b[k]]
        if not set(b["listeners"]) <= set(f["listeners"]):
            lost.append("listeners")
        rest = list(f["tasks"])
        for t in b["tasks"]:
            if t in rest:
                rest.remove(t)
            elif "tasks" not in lost:
                lost.append("tasks")
        if lost:
            bad.append(("others", f"resources of the other sessions were released ({lost}): before {b}, after {f}"))
    if r.cut_done is None and how in ("quit", "error", "idle") and not r.raw.eof:
        bad.append(("not-ended", f"the session did not end on {how}"))
    if left != EMPTY:
        names = [n for n, v in zip(xfer.SLOT_NAMES, left) if v]
        bad.append(("leftover:" + "+".join(names), f"after the session ended ({how}) it still holds {names}; ledger {r.final}"))
    return bad, left


def key_for(case, r, bad, left):
    pre = pre_of(r)
    a = pre["abs"] if pre else None
    lst = a["lst"][0] if a else "gone"
    stage = a["workers"][0]["stage"] if a and a["workers"] else None
    aspects = sorted(x for x, _ in bad)
    if stage is not None and stage[0] == 3 and aspects == ["leftover:data"]:
        return KEY_F4
    if lst == "taking" and aspects == ["leftover:port"]:
        return KEY_F5A
    if lst == "bound" and aspects in (["leftover:listener+port"], ["leftover:listener"]):
        return KEY_F5B
    return "c12-" + "+".join(aspects) + "-listener-" + lst + "-stage-" + ("none" if stage is None else "-".join(str(x) for x in stage))


# ------------------------------------------------------------------ correspondence
def model_queries(case, r, facts):
    pre = pre_of(r)
    if pre is None or pre["abs"] is None:
        return None
    if len(pre["abs"]["workers"]) > 2:
        return None
    wabs = xfer.resolve_workers(pre, facts, case["block"], ever_data=bool(r.data))
    try:
        evs = xfer.model_trace(pre["abs"], wabs)
    except ValueError:
        return None  # a combination of stages of several transfers the canonical trace builder does not cover: oracle only
    end = xfer.END_EVENT[case["how"]]
    return [(0, [case["pool"], evs, False]), (0, [case["pool"], evs + [[end]], True])], wabs, pre


def run_cases(ctx, cases, facts, stream):
    runs, queries = [], []
    for case in cases:
        r = xfer.run_case(case)
        ctx.traces_impl += 1
        q = model_queries(case, r, facts) if facts is not None else None
        runs.append((case, r, q))
        if q is not None:
            queries += q[0]
    outs = ctx.model(queries) if queries else []
    xs, oi = [], 0
    for case, r, q in runs:
        how = case["how"]
        ctx.case((stream, case.get("script"), case["verb"], tuple(case["place"]), how, case["pool"], case["sessions"], case.get("listen"), case.get("slow_close"), len(case.get("actors") or ())))
        if case.get("actors"):
            ctx.count(f"concurrent_active_sessions:{1 + len(case['actors'])}")
        if case.get("slow_close"):
            ctx.count("slow_close")
        ctx.count(f"how:{how}")
        ctx.count("stream:" + stream)
        if stream == "stage":
            ctx.count(f"place:{case['place'][0]}" + (f":{case['place'][1]}" if case["place"][0] in ("gate", "late_gate", "idle", "bind", "handler_gate", "stalled_gate", "tgate") else ""))
        bad, left = oracle(case, r)
        if bad:
            key = key_for(case, r, bad, left)
            ctx.count("oracle:" + key)
            ctx.violation("; ".join(m for _, m in bad), {"key": key, "case": case, "what": [m for _, m in bad]})
        else:
            ctx.count("oracle:ok")
        if q is None:
            ctx.count("model:session-not-in-table-at-cut")
            continue
        m0, m1 = outs[oi], outs[oi + 1]
        oi += 2
        _, wabs, pre = q
        want_stages = [list(w[1]) for w in wabs]
        got_stages = [w[0] for w in m0[3]]
        tag = {"case": case, "stages": want_stages, "lst": pre["abs"]["lst"]}
        if want_stages != got_stages:
            ctx.disagree(stream + ":abstract-state", tag, got_stages, want_stages)
            continue
        for w in m0[3]:
            if not w[5] and w[0][0] not in (0, 7, 8, 9, 10, 11):
                ctx.disagree(stream + ":parked-at-non-suspension-stage", tag, w[0], "real task is suspended there")
        pre_real = xfer.norm_real(pre["ledger"], r.baseline)
        pre_model = xfer.norm_model(m0[1])
        if how in ("rst", "eof", "ctrl_eof"):
            pre_model[0] = pre_real[0]  # the control socket may already be gone when its loss is what ends the session
        if how == "rst":
            pre_model[3] = pre_real[3]
        if how == "close" and (case["sessions"] or case.get("actors")):
            # the other sessions end in the same instant, some before this one: the shared counters are not attributable
            for i in (0, 2, 3, 4, 5, 6, 7, 8) if case.get("actors") else (0, 5, 6, 7, 8):
                pre_model[i] = pre_real[i]
        if pre_real != pre_model:
            ctx.disagree(stream + ":ledger-at-cut", tag, dict(zip(xfer.SLOT_NAMES, pre_model)), dict(zip(xfer.SLOT_NAMES, pre_real)))
            continue
        fin_model = xfer.norm_model(m1[1])
        fin_real = list(left)
        if how == "rst":
            fin_model[3] = fin_real[3] = 0  # see ASSUMPTIONS: a reset closes the socket whoever owns it
        if fin_real != fin_model or bool(m1[0]):
            ctx.disagree(stream + ":ledger-after-end", tag, dict(zip(xfer.SLOT_NAMES, fin_model)), dict(zip(xfer.SLOT_NAMES, fin_real)))
        # the model's hole_free is exactly where the real server leaves nothing
        if bool(m0[4]) and any(a.startswith("leftover") for a, _ in bad):
            ctx.disagree(stream + ":hole_free-but-leftover", tag, "hole_free", [a for a, _ in bad])
        ctx.count("model-state:" + pre["abs"]["lst"][0] + "/" + ("no-worker" if not want_stages else "stage-" + str(want_stages[0][0])))
        if len(xs) < 40 and (want_stages or pre["abs"]["lst"][0] in ("taking", "bound")):
            xs.append((0, [case["pool"], q[0][1][1][1], True], m1))
        if bad or (want_stages and want_stages[0][0] in (3, 5, 6) and how in ("quit", "close")):
            ctx.sample({"case": [case.get("script"), case["verb"], case["place"], how], "state_at_cut": {"listener": pre["abs"]["lst"], "stages": want_stages},
                        "held_at_cut": dict(zip(xfer.SLOT_NAMES, pre_real)), "left_after_end": dict(zip(xfer.SLOT_NAMES, left)),
                        "model_left": dict(zip(xfer.SLOT_NAMES, xfer.norm_model(m1[1])))})
    return xs


TWO_PAIRS = [("stor", "stor"), ("stor", "retr_stalled"), ("stor", "retr_gate"), ("retr_stalled", "stor"),
             ("retr_gate", "stor"), ("retr_gate", "retr_stalled"), ("list_gate", "stor"), ("list_gate", "retr_stalled")]


def stage_cases(thorough):
    cases = []
    B = xfer.BLOCK
    for verb in xfer.VERBS:
        places = [("nodata",), ("done",), ("handler_gate", "is_dir" if verb in ("STOR", "APPE") else "exists", 1)]
        if verb in ("RETR", "STOR", "APPE"):
            op = "read" if verb == "RETR" else "write"
            places += [("gate", "open", 1), ("late_gate", "open", 1), ("gate", op, 1), ("gate", op, 2), ("gate", op, 3), ("gate", "close", 1), ("late_gate", "close", 1)]
        if verb in ("STOR", "APPE"):
            places += [("sent", 0), ("sent", 1), ("sent", B), ("sent", 2 * B + 1)]
        if verb == "RETR":
            places += [("noread",)]
        if verb in ("RETR", "LIST", "MLSD"):
            places += [("stalled",)]  # data peer connected, not reading, the transport's write buffer full
            # ... combined with a slow n-th back-end call (before / at / after the block at which the socket write suspends)
            op = "read" if verb == "RETR" else "stat"
            places += [("stalled_gate", op, n) for n in ((1, 2, 3, 4, 5, 6, 7, 8) if verb == "RETR" else (1, 2, 3))]
        if verb in ("LIST", "MLSD"):
            places += [("gate", "list", 1), ("gate", "list", 3), ("gate", "stat", 2), ("late_gate", "stat", 1)]
            if verb == "LIST":
                places += [("gate", "exists", 2)]
        for place in places:
            for how in HOWS:
                for pool in (True, False):
                    for sessions in ((0, 2) if thorough or pool else (0,)):
                        if how == "idle" and sessions:
                            continue  # idle_timeout is server-wide: silent bystanders would be dropped as well
                        cases.append(end_case(verb, place, how, pool=pool, sessions=sessions))
        # 2..4 sessions active at once, each in the middle of something different
        main_place = ("gate", "read", 2) if verb == "RETR" else ("sent", 5) if verb in ("STOR", "APPE") else ("gate", "stat", 2)
        for how in HOWS:
            if how == "idle":
                continue
            for n in ((1, 2, 3) if thorough else (3,)):
                for pool in ((True, False) if thorough else (True,)):
                    cases.append(end_case(verb, main_place, how, pool=pool, actors=n))
        if thorough:
            for how in ("close", "rst", "quit"):
                cases.append(end_case(verb, ("gate", "open", 1) if verb in ("RETR", "STOR", "APPE") else ("nodata",), how, actors=3))
        for how in HOWS:
            cases.append(end_case(verb, ("gate", "seek", 1), how, rest=2))
            if verb in ("RETR", "STOR", "APPE"):
                cases.append(end_case(verb, ("gate", "read" if verb == "RETR" else "write", 2), how, slow_close=True))
                cases.append(end_case(verb, ("sent", 5) if verb != "RETR" else ("gate", "seek", 1), how, slow_close=True, rest=1))
    # the shipped AsyncPathIO back-end on a scratch directory: the session ends while an EXECUTOR job of the transfer runs
    for verb, ops in (("RETR", [("open", 1), ("read", 1), ("read", 2), ("close", 1)]),
                      ("STOR", [("open", 1), ("write", 1), ("write", 2), ("close", 1)]),
                      ("LIST", [("stat", 2)])):
        for op, n in ops:
            for how in HOWS:
                if how == "idle":
                    continue  # no virtual time passes while an executor job is outstanding
                cases.append(end_case(verb, ("tgate", op, n), how))
    # two transfers alive in the session that ends
    for first, second in TWO_PAIRS:
        for how in HOWS:
            for pool in ((True, False) if thorough else (True,)):
                cases.append(end_case(None, ("two", first, second), how, pool=pool))
    for listen in ("PASV", "EPSV"):
        for where in ("login", "pasv", "pasv_dconn"):
            for how in HOWS:
                for pool in (True, False):
                    for sessions in (0, 2):
                        if how == "idle" and sessions:
                            continue
                        cases.append(end_case(None, ("idle", where), how, pool=pool, sessions=sessions, listen=listen))
        for stage in (1, 2):
            for how in ("rst", "eof", "ctrl_eof", "close"):
                for pool in (True, False):
                    for sessions in (0, 2):
                        cases.append(end_case(None, ("bind", stage), how, pool=pool, sessions=sessions, listen=listen))
    return cases


def event_cases(ctx, thorough):
    cases = []
    totals = {}
    for name in CORPUS:
        for pool in (True, False):
            ref = dict(event_case(name, None, "rst", pool))
            del ref["cut_at_event"]
            r = xfer.run_case(ref)
            totals[(name, pool)] = r.total_events
            bad, left = oracle(dict(ref, how="none"), r) if False else ([], None)
    for (name, pool), n in totals.items():
        hows = ["rst", "eof", "ctrl_eof", "close"]
        for k in range(0, n + 1):
            for how in hows:
                if not thorough and not pool and how in ("eof", "ctrl_eof"):
                    continue
                cases.append(event_case(name, k, how, pool, sessions=(2 if (thorough and k % 2) else 0)))
    ctx.extra["events_per_script"] = {f"{n}/{'pool' if p else 'nopool'}": t for (n, p), t in totals.items()}
    return cases


def obligations(ctx):
    o = ctx.model([(1, [])])[0]
    flags = {"sound12": o[0], "workers_ok": o[2], "fin_ok": o[3], "repaired12": o[7], "stream_first_ok": o[9]}
    for n, v in flags.items():
        if not v:
            ctx.obligation_broken("C12_facts_ok:" + n, "the structural fact the C12 theorems rest on no longer holds in server.py "
                                  "(a statement of the dispatcher's finally block, a worker's `async with` / detach-first, "
                                  "or the stream is no longer the first item of a worker's `async with`)")


def correspondence(ctx, thorough=None):
    thorough = (ctx.tier == "thorough") if thorough is None else thorough
    ctx.extra["rule"] = (
        "A (stage cuts): verb x stage the session is held at (waiting for the data connection; handler / open / seek / k-th "
        "read or write / directory step / stat / close suspended, data connection before or after 150; after j bytes of an "
        "upload; peer not reading, also with the transport's write buffer full (close() lingers until flushed, as an asyncio "
        "transport does); TWO transfers alive in the ending session; listener start-up before / after the bind, PASV and EPSV; idle with / without listener / "
        "data connection; transfer finished) x way of ending (peer reset, peer close, control connection lost, QUIT, handler "
        "exception, idle timeout, Server.close()) x data-port pool on/off x 0 or 2 other sessions.  B (event cuts): 15 "
        "scripts covering all 25 verbs and all transfer kinds, cut after every network event k = 0..N x (reset, close, "
        "control lost, Server.close()).  Each case runs the real server once; non-trivial = new (script/verb, position, "
        "ending, pool, sessions) tuple."
    )
    if ctx.exe is not None:
        facts = xfer.facts_of(ctx)
        obligations(ctx)
    else:
        facts = None  # the model did not build (reported as a broken obligation): the oracle still judges every case
    a = stage_cases(thorough)
    ctx.count("stage_cases", len(a))
    xs = run_cases(ctx, a, facts, "stage")
    b = event_cases(ctx, thorough)
    ctx.count("event_cases", len(b))
    xs += run_cases(ctx, b, facts, "event")
    ok, out = core.vm_crosscheck(EXTRACT, xs[:40]) if ctx.exe is not None else (True, "no model")
    ctx.extra["vm_compute_crosscheck"] = {"cases": len(xs[:40]), "agree": ok}
    if not ok:
        ctx.obligation_broken("extraction-crosscheck", out)
    ctx.extra["level_text"] = LEVEL_TEXT
    ctx.extra["partial_because"] = (
        "closing at garbage-collection time, an executor thread that finishes an open after its awaiter was cancelled, and "
        "the kernel's handling of half-closed sockets are runtime behaviour the model does not exhibit; the model proves "
        "ownership and the finally block, the runtime is explored on the in-memory network"
    )


def search(ctx):
    if ctx.violations or ctx.tier == "thorough":
        return
    try:
        correspondence(ctx, thorough=True)
    except Exception as e:  # pragma: no cover
        ctx.notes.append(f"search aborted: {e!r}")


KNOWN = {
    "F5-pasv-cancel-port-leak-seen-from-C12": [
        (KEY_F5A, lambda: end_case(None, ("bind", 1), "eof")),
        (KEY_F5B, lambda: end_case(None, ("bind", 2), "close")),
    ],
}


def known(ctx):
    for fid, lst in KNOWN.items():
        for key, mk in lst:
            case = mk()
            r = xfer.run_case(case)
            bad, left = oracle(case, r)
            if bad and key_for(case, r, bad, left) == key:
                ctx.known_reproduced(fid, "; ".join(m for _, m in bad))


def replay(ctx, data):
    rp = data.get("replay", {})
    case = rp.get("case")
    if case is None:
        print("replay payload:", json.dumps(data)[:2000])
        return False
    r = xfer.run_case(case)
    for rec in r.log:
        print("  ", rec["step"], rec["lines"], "CONTROL-EOF" if rec["ctrl_eof"] else "")
    pre = pre_of(r)
    if pre:
        print("state at the cut:", xfer.strip_obs(pre)["abs"], "ledger:", pre["ledger"])
    print("baseline (other sessions):", r.baseline)
    print("final ledger:", r.final)
    bad, left = oracle(case, r)
    for a, m in bad:
        print("ORACLE:", a, m)
    return not bad
