"""C19 helper: hard wall-clock bounds for everything that runs the REAL aioftp code.

"Never hangs or loops forever" is part of C19, and a hang can be CPU-bound inside C code that holds the GIL (a regular expression
with catastrophic backtracking): no thread, no asyncio timeout and no signal handler of the same process is a reliable guard.  So every
stream of the harness runs in a forked CHILD process; the parent only supervises:

* before each call of real code the child writes a BEACON into shared memory (sequence number, budget in seconds, name of the
  operation, pickled input); after the call it marks the beacon idle.  Writing is a memcpy, so the cost per call is negligible;
* the parent polls the result pipe; when the same beacon stays in flight for longer than its budget the operation HANGS: the child is
  killed, the hang is recorded with the exact input (`hangs` list: name, input, budget), the input is added to the skip set and the
  stream is re-run from the parent's pristine state (the fork copied ctx and the rng, so the re-run is identical up to the skipped call,
  which then yields the pseudo-exception `ParserHang`).  After MAX_HANGS_PER_NAME hangs of the same operation the operation is disabled
  for the rest of the run (every further call yields `ParserHang` immediately), which bounds the total cost;
* a stream as a whole has a wall budget too (backstop: code that never reaches a beacon).

The child returns the stream's return value and the mutated ctx fields through a pipe; the parent installs them.
"""
import mmap
import os
import pickle
import signal
import struct
import time
import traceback

MAX_HANGS_PER_NAME = 3
HDR = struct.Struct("<QdI")  # sequence (odd = in flight, even = idle), budget seconds, payload length
SIZE = 1 << 20


class ParserHang(Exception):
    """pseudo-exception standing for 'this call was found not to return within its wall-clock budget'"""


class _Beacon:
    def __init__(self):
        self.mm = mmap.mmap(-1, SIZE)  # anonymous, shared with forked children
        self.seq = 0
        self.mm[: HDR.size] = HDR.pack(0, 0.0, 0)

    def enter(self, name, payload, budget):
        try:
            blob = pickle.dumps((name, payload), protocol=4)
        except Exception:  # noqa: BLE001
            blob = pickle.dumps((name, repr(payload)[:2000]), protocol=4)
        if len(blob) > SIZE - HDR.size:
            blob = pickle.dumps((name, {"truncated": repr(payload)[:4000]}), protocol=4)
        self.seq += 1 if self.seq % 2 == 0 else 2
        self.mm[HDR.size : HDR.size + len(blob)] = blob
        self.mm[: HDR.size] = HDR.pack(self.seq, float(budget), len(blob))

    def leave(self):
        self.seq += 1
        self.mm[: HDR.size] = HDR.pack(self.seq, 0.0, 0)

    def read(self):
        seq, budget, n = HDR.unpack(self.mm[: HDR.size])
        if seq % 2 == 0:
            return seq, budget, None
        try:
            return seq, budget, pickle.loads(self.mm[HDR.size : HDR.size + n])
        except Exception:  # noqa: BLE001 - torn read: the caller looks again
            return seq, budget, ("?", None)


BEACON = None  # set in the child
SKIP = set()  # (name, key of input) found to hang
DISABLED = set()  # operation names disabled after MAX_HANGS_PER_NAME hangs
HANGS = []  # parent side: [{"name":…, "input":…, "budget":…}]
STATE_FIELDS = ("evaluations", "nontrivial", "samples", "dist", "disagreements", "violations", "broken", "known_hits", "notes",
                "traces_impl", "extra", "violation_keys", "known_keys")


def key_of(payload):
    try:
        return pickle.dumps(payload, protocol=4)
    except Exception:  # noqa: BLE001
        return repr(payload).encode()


class guard:
    """`with guard(name, payload, budget):` around one run of real code (in the child; a no-op when not supervised).
    Raises ParserHang instead of entering when this input / operation is already known to hang."""

    def __init__(self, name, payload, budget=5.0):
        self.name, self.payload, self.budget = name, payload, budget

    def __enter__(self):
        if self.name in DISABLED or (self.name, key_of(self.payload)) in SKIP:
            raise ParserHang(self.name)
        if BEACON is not None:
            BEACON.enter(self.name, self.payload, self.budget)
        return self

    def __exit__(self, *exc):
        if BEACON is not None:
            BEACON.leave()
        return False


def _child(ctx, fn, args, wfd, beacon):
    global BEACON
    BEACON = beacon
    try:
        ret = fn(ctx, *args)
        out = ("ok", ret, {f: getattr(ctx, f) for f in STATE_FIELDS if hasattr(ctx, f)}, ctx.rng.getstate())
    except BaseException:  # noqa: BLE001 - reported to the parent together with everything observed so far
        out = ("error", traceback.format_exc(), {f: getattr(ctx, f) for f in STATE_FIELDS if hasattr(ctx, f)}, ctx.rng.getstate())
    try:
        blob = pickle.dumps(out, protocol=4)
    except Exception:  # noqa: BLE001
        blob = pickle.dumps(("error", "unpicklable stream result:\n" + traceback.format_exc(), None, None), protocol=4)
    with os.fdopen(wfd, "wb") as w:
        w.write(struct.pack("<Q", len(blob)))
        w.write(blob)
    os._exit(0)


def run_guarded(ctx, stream_name, fn, *args, wall_budget=1500.0):
    """run fn(ctx, *args) in a forked child under supervision; returns fn's return value (None when the stream had to be abandoned)"""
    while True:
        beacon = _Beacon()
        rfd, wfd = os.pipe()
        pid = os.fork()
        if pid == 0:
            os.close(rfd)
            _child(ctx, fn, args, wfd, beacon)
        os.close(wfd)
        os.set_blocking(rfd, False)
        buf = bytearray()
        t0 = time.time()
        last_seq, since = None, time.time()
        hang = None
        done = False
        while True:
            try:
                chunk = os.read(rfd, 1 << 20)
                if chunk == b"":
                    done = True
                    break
                buf += chunk
                continue
            except BlockingIOError:
                pass
            seq, budget, info = beacon.read()
            now = time.time()
            if seq != last_seq:
                last_seq, since = seq, now
            elif info is not None and now - since > budget:
                hang = {"name": info[0], "input": info[1], "budget": budget}
                break
            if now - t0 > wall_budget:
                hang = {"name": "stream:" + stream_name, "input": None if info is None else {"at": info[0]}, "budget": wall_budget, "whole_stream": True}
                break
            time.sleep(0.02 if now - t0 < 2 else 0.1)
        os.close(rfd)
        if hang is not None:
            try:
                os.kill(pid, signal.SIGKILL)
            except ProcessLookupError:
                pass
            os.waitpid(pid, 0)
            HANGS.append(hang)
            if hang.get("whole_stream"):
                return None
            SKIP.add((hang["name"], key_of(hang["input"])))
            if sum(1 for h in HANGS if h["name"] == hang["name"]) >= MAX_HANGS_PER_NAME:
                DISABLED.add(hang["name"])
            continue  # re-run the stream with the hanging input skipped
        os.waitpid(pid, 0)
        if not done or len(buf) < 8:
            raise RuntimeError(f"C19 stream {stream_name}: child died without a result")
        (n,) = struct.unpack("<Q", bytes(buf[:8]))
        status, ret, state, rngstate = pickle.loads(bytes(buf[8 : 8 + n]))
        if state is not None:
            for f, v in state.items():
                setattr(ctx, f, v)
            ctx.rng.setstate(rngstate)
        if status != "ok":
            # an exception escaped the stream (typically raised by the implementation under test in a place the stream did not expect):
            # what was observed before is kept, the exception is recorded, the run goes on with the next stream
            ctx.obligation_broken("stream-exception:" + stream_name, str(ret)[-1500:])
            return None
        return ret
