"""C10 — connection limits are exact and slots are always returned.

Correspondence of coq/Model/Counters.v with the REAL aioftp.Server running on harness/simnet
(in-memory network, virtual clock): the same history of session events is given to the extracted
model and to the real server; after EVERY action the real counters
(server.available_connections.value, user_manager.available_connections[u].value), the per-session
flags (acquired / user / logged / still registered) and the reply codes are compared with the
model, and the property oracle is evaluated directly on the real objects:

    value      = maximum - |{registered connections with acquired}|
    value_u    = maximum_u - |{registered connections whose user is u}|
    421 / 530  exactly when the limit is reached, 220 / 230 / 331 otherwise
    no ValueError/KeyError from the accounting (logger 'aioftp.server' + loop exception handler)
    after everything ended: every counter back at its maximum

Smoke test of simnet usage (what one run does):

    async def main(net):
        server = aioftp.Server(users, maximum_connections=1, idle_timeout=10)
        await server.start("127.0.0.1", 2121)
        raw = await Raw.connect(net, 2121); await raw.drain_replies()   # ['220 welcome']
        await raw.send("USER a")                                          # ['331 password required']
        raw.close(); await net.settle()                                   # peer vanished
        assert server.available_connections.value == 1
    simnet.run(main)
"""
import asyncio
import errno
import itertools
import json
import logging
import re

import aioftp

from .. import core, simnet, sx
from ..simnet import Raw, final_codes

ID = "C10"
EXTRACT = "ExC10"
TECHNIQUE = (
    "Coq proof (induction over the event list with a counting invariant, for all limits, any number of sessions and all "
    "interleavings) about an executable multi-session model of AvailableConnections / greeting / user / pass_ / the dispatcher's "
    "finally block; the finally block, the handler footprints and the absence of suspension points in the user manager are "
    "regenerated from server.py on every run (Gen.Dispatch, Gen.UserMgr) and enter the theorems as closed obligations; the model "
    "is tied to the code by running the real server on an in-memory network with a virtual clock and comparing the real counter "
    "objects with the model after every event"
)
LEVEL_TEXT = (
    "Theorems C10_srv_conservation, C10_user_conservation, C10_refusal_421_not_counted, C10_admission_exact, "
    "C10_refusal_530_not_counted, C10_accounting_never_fails, C10_quiescent_full, C10_limits_respected are proved for every "
    "server limit and per-user limit (None or n >= 0, including 0), every user list, any number of sessions and every "
    "interleaving of Connect / greeting / USER / PASS / QUIT / drop / idle timeout / handler error / server close / logout-task "
    "events (Closed under the global context), instantiated with the finally block and footprints extracted from today's "
    "server.py. C10_finally_guard_needed, C10_finally_logout_needed and C10_atomicity_needed show that the extracted facts are "
    "load-bearing. The full property is REFUTED on the current source for one family of histories (finding F24, "
    "C10_every_end_reaches_finally_refuted_F24, reproduced on simnet and on real loopback TCP): a burst containing QUIT on a control "
    "connection that fails with at least one reply queued behind the first reply that cannot be written never reaches the "
    "dispatcher's finally block, the session "
    "keeps its slots until Server.close(); the theorems are the carved part (histories in which every dispatched QUIT / refused "
    "greeting is followed by its end event - checked per history on the real server). The tie is bounded-exhaustive + crash-point + random histories over <= 3 sessions on the real server "
    "(simnet), counters read from the real objects after every event."
)
LEVEL_NOTE = (
    "Trusted: Coq kernel; tools/py2v; extraction cross-checked with vm_compute; simnet + harness. Modelled, not verified: "
    "asyncio semantics (a task cancelled before its first step never runs; awaiting a coroutine without suspension points runs "
    "it to completion; FIFO scheduling is NOT assumed by the model), custom user managers with real awaits (outside the model: "
    "C10_atomicity_needed shows what then fails)."
)
TRUSTED = [
    "asyncio rules encoded by the model: cancellation is delivered only at a suspension point, a task cancelled before its first "
    "step never runs its body, `await coro()` of a coroutine without suspension constructs completes synchronously",
    "simnet (in-memory transports, virtual clock) drives the real aioftp.Server faithfully",
]
ASSUMPTIONS = [
    "the model's `Quit i` / refused `Greeting i` mean: dispatched AND the dispatcher left `await response_queue.join()`; on the real "
    "server that holds unless the connection fails with a reply queued behind the first one that cannot be written (finding F24: "
    "QUIT anywhere in a pipelined burst); every other way of losing the "
    "control connection on write (the n-th reply, the final reply of QUIT, a refused USER, the greeting 220/421, behind a write "
    "speed limit) is exercised and ends the session",
    "modelled, not verified: user managers whose get_user, or notify_logout called from user(), really suspend (a notify_logout "
    "that suspends in the teardown task is inside the model: phase Closing, event LogoutRuns, and is exercised)",
    "under asyncio's FIFO scheduling the greeting task always runs before its dispatcher can end; the model also covers the "
    "order 'session ends before the greeting ran' (never observed on the implementation)",
]

PORT = 2121
IDLE = 10
WPAUSE = 60  # virtual seconds given to a server with a write speed limit to say everything it has queued
KEY_ENDED = "c10-ended-session-holds-slot"
# finding F24 (unchanged aioftp): a burst that contains QUIT (anywhere) on a control connection that fails while at least one
# reply is queued BEHIND the first reply that cannot be written: response_writer dies at that reply (one task_done()), the
# dispatcher - already in `await response_queue.join()` after QUIT or getting there - waits for ever for the replies behind
# it; its finally block never runs
KEY_F24 = "c10-quit-burst-reply-queued-behind-failed-write"
NOCODES = ("cmds_end", "cmds_wfault", "connect_wfault")  # how many replies still get out before the end is not a C10 matter

# model event tags (Model/Counters.v event_of_sx)
CONNECT, GREETING, USER, USERERR, PASS, OTHER, QUIT, DROP, IDLET, HERR, LOGOUT, SCLOSE, UBEGIN, UEND, PASSERR = range(15)


# ----------------------------------------------------------------------------- configurations
def user_sets():
    """(name, [(login, password, limit)]) -- limits filled in by configs()"""
    return {
        "ab": [("a", "pw", None), ("b", None, None)],
        "a_anon": [("a", "pw", None), (None, None, None)],
        "anon_a": [(None, None, None), ("a", "pw", None)],
    }


def make_cfg(limit, uset, la, lb):
    us = user_sets()[uset]
    users = [(us[0][0], us[0][1], la), (us[1][0], us[1][1], lb)]
    return {"limit": limit, "users": users}


# the two statements of the dispatcher's finally block the model interprets, as the current source has them; used ONLY
# when the translator could not read the source (a broken obligation by itself): the implementation is then still run
# against the model of the unchanged code and the oracle, so that a concrete failing input can be found
FALLBACK_FIN = ["acquired=>release:server_slot", "has:user=>notify_logout"]


def fin_from_gen(ctx=None):
    try:
        txt = (core.COQ / "Gen" / "Dispatch.v").read_text()
    except OSError:
        txt = ""
    m = re.search(r"d_finally := \[(.*?)\];", txt, re.S)
    if not m:
        if ctx is not None:
            ctx.obligation_broken("Gen.Dispatch.d_finally", "the translator did not produce the dispatcher's finally block; model run with the unchanged block")
        return list(FALLBACK_FIN)
    return re.findall(r'"((?:[^"]|"")*)"', m.group(1))


def cfg_sx(cfg, fin):
    opt = lambda v: [] if v is None else [v]
    return [
        opt(cfg["limit"]),
        [[opt(l), opt(p), opt(m)] for (l, p, m) in cfg["users"]],
        list(fin),
        True,
        True,
    ]


# ----------------------------------------------------------------------------- actions -> model events
def quit_position(burst):
    """1-based position of the reply to the first QUIT of a burst among the replies the burst produces (None: no QUIT reached)"""
    m = 0
    for verb, arg in burst:
        if arg == "boom":
            return None
        m += 1
        if verb == "QUIT":
            return m
    return None


def burst_shape(burst):
    """(QUIT is dispatched, number of commands that can queue a reply): QUIT counts when no injected handler error comes
    before it (that one ends the session by itself); every command without an injected error can queue a reply - those
    pipelined AFTER QUIT too: the dispatcher has already started the next parse_command when QUIT's handler runs"""
    quit_seen, boom_seen, r = False, False, 0
    for verb, arg in burst:
        if arg == "boom":
            boom_seen = True
            continue
        r += 1
        if verb == "QUIT" and not boom_seen:
            quit_seen = True
    return quit_seen, r


def ended_key(a):
    """the replay key of 'control connection closed, session still registered' left behind by action a.  Finding F24's
    input class: a burst that contains QUIT (anywhere) on a control connection that fails while at least one reply can be
    queued BEHIND the first reply that cannot be written (the failing write is not that of the burst's last possible
    reply; or the peer ends the connection while >= 2 replies of the burst are due).  The generic, unlisted key otherwise:
    QUIT alone, the last reply failing, no QUIT at all, the greeting alone, any other action"""
    if a[0] in ("cmds_end", "cmds_wfault"):
        has_quit, r = burst_shape(a[2])
        if has_quit and r >= 2 and (a[0] == "cmds_end" or a[3] < r):
            return KEY_F24
    return KEY_ENDED


def model_events(actions, gated=False, stuck=None):
    """returns (events, boundaries): boundaries[k] = index of the last model event of action k.
    gated: the logout notification a session's teardown starts is held open by the harness (GatedUserManager): the model's
    LogoutRuns i happens only at the action ("release", i) -- until then the session is in the model's Closing phase"""
    evs, bounds = [], []
    n = 0
    stuck = dict(stuck or {})  # action index -> session left behind by it in the way of finding F24 (seen on the real server)
    stuck_sessions = set()
    for k_act, a in enumerate(actions):
        kind = a[0]
        if kind in ("cmds", "cmds_end", "cmds_wfault", "drop", "reset", "dropmid", "idle") and a[1] in stuck_sessions:
            # nothing reaches a dispatcher that waits for its reply queue for ever; only Server.close() ends it
            evs.append([OTHER, 99, ""])
            bounds.append(len(evs) - 1)
            continue
        if k_act in stuck and kind in ("cmds_end", "cmds_wfault") and stuck[k_act][0] == a[1]:
            # F24 as the implementation behaves: everything before QUIT was carried out, QUIT was dispatched, and the
            # session stays registered with whatever it holds.  Of the commands pipelined AFTER QUIT the first `extra`
            # were carried out as well: their handler tasks were started before the dispatcher got to QUIT's result
            # (the order in which asyncio.wait's `done` set is walked decides: scheduling, not input)
            extra = stuck[k_act][1]
            after = False
            for c in a[2]:
                if c[0] == "QUIT" and not after:
                    after = True
                    continue
                if after:
                    if extra <= 0:
                        break
                    extra -= 1
                    if c[0] == "QUIT" or c[1] == "boom":
                        continue
                evs.append(cmd_event(a[1], c))
            evs.append([OTHER, 99, ""])
            bounds.append(len(evs) - 1)
            stuck_sessions.add(a[1])
            continue
        if kind == "release":
            evs.append([LOGOUT, a[1], ""])
            bounds.append(len(evs) - 1)
            continue
        if kind == "restart":  # Server.start() again on the same object: counters and (dead) sessions persist, no event
            evs.append([OTHER, 99, ""])
            bounds.append(len(evs) - 1)
            continue
        if kind == "end_close":
            # session a[1] ends (QUIT | EOF | RST) and Server.close() lands a[3] loop iterations later (a second close()
            # a[4] iterations after the first was started, when given): whichever order the implementation sees, after
            # quiescence the session is gone, its logout has run and the server is closed
            evs += [[DROP, a[1], ""], [LOGOUT, a[1], ""], [SCLOSE, 0, ""]] + [[LOGOUT, j, ""] for j in range(n)]
            bounds.append(len(evs) - 1)
            continue
        if kind == "connect":
            evs += [[CONNECT, 0, ""], [GREETING, n, ""], [LOGOUT, n, ""]]
            n += 1
        elif kind == "connect_many":
            # a[1] connections accepted in ONE pass of the event loop: every dispatcher takes its first step (creates the
            # connection object and the greeting task) before any greeting task runs
            m = a[1]
            evs += [[CONNECT, 0, ""] for _ in range(m)]
            evs += [[GREETING, n + j, ""] for j in range(m)]
            evs += [[LOGOUT, n + j, ""] for j in range(m)]
            n += m
        elif kind == "cmds":
            i = a[1]
            for c in a[2]:
                evs.append(cmd_event(i, c))
            evs.append([LOGOUT, i, ""])
        elif kind in ("drop", "reset", "dropmid"):
            evs += [[DROP, a[1], ""], [LOGOUT, a[1], ""]]
        elif kind in ("cmds_end", "cmds_wfault"):
            # the commands are sent and the control connection fails while their replies are pending: seen by the reader
            # (EOF / RST k loop iterations or t seconds later) or by the WRITER (the n-th reply cannot be written).  However
            # many of the commands were carried out, the session is over afterwards and holds nothing
            evs += [cmd_event(a[1], c) for c in a[2]] + [[DROP, a[1], ""], [LOGOUT, a[1], ""]]
        elif kind == "connect_wfault":
            # the greeting (220 or 421) cannot be written
            evs += [[CONNECT, 0, ""], [GREETING, n, ""], [LOGOUT, n, ""], [DROP, n, ""], [LOGOUT, n, ""]]
            n += 1
        elif kind == "idle":
            evs += [[IDLET, a[1], ""], [LOGOUT, a[1], ""]]
        elif kind == "close":
            evs.append([SCLOSE, 0, ""])
            evs += [[LOGOUT, j, ""] for j in range(n)]
        elif kind == "connect_close":
            # a connection accepted right before Server.close(): its dispatcher has not taken its first step,
            # is not registered yet and is therefore not cancelled -- the session starts after close()
            evs.append([SCLOSE, 0, ""])
            evs += [[LOGOUT, j, ""] for j in range(n)]
            evs += [[CONNECT, 0, ""], [GREETING, n, ""], [LOGOUT, n, ""]]
            n += 1
        else:
            raise ValueError(a)
        bounds.append(len(evs) - 1)
    if gated:
        # keep the indices: a held logout is replaced by a no-op on a session that does not exist
        keep_from = [k for k, a in enumerate(actions) if a[0] == "release"]
        rel = {bounds[k] for k in keep_from}
        evs = [e if (e[0] != LOGOUT or idx in rel) else [OTHER, 99, ""] for idx, e in enumerate(evs)]
    return evs, bounds


def cmd_event(i, c):
    verb, arg = c
    if verb == "USER":
        return [USERERR, i, ""] if arg == "boom" else [USER, i, arg]
    if verb == "PASS":
        return [PASSERR, i, ""] if arg == "boom" else [PASS, i, arg]
    if verb == "QUIT":
        return [QUIT, i, ""]
    return [OTHER, i, ""]


# ----------------------------------------------------------------------------- the real server
class BoomUserManager(aioftp.MemoryUserManager):
    """MemoryUserManager plus two injected internal errors (the accounting itself is inherited)"""

    async def authenticate(self, user, password):
        if password == "boom":
            raise RuntimeError("injected authenticate failure")
        return await super().authenticate(user, password)

    async def get_user(self, login):
        if login == "boom":
            raise RuntimeError("injected get_user failure")
        return await super().get_user(login)


class GatedUserManager(BoomUserManager):
    """the logout notification that a session's teardown starts (dispatcher `finally`: its own task) SUSPENDS until the
    harness releases it: the teardown window of a session stays open for as long as the harness wants, and other
    events (Server.close(), a second close(), other sessions) can be placed inside it.  notify_logout called from
    user() (re-USER) is not held: that would be a suspension inside user(), which is outside the model.
    The accounting itself is MemoryUserManager's."""

    def __init__(self, users, session_of_task):
        super().__init__(users)
        self.session_of_task = session_of_task
        self.gates = {}  # session index -> list of futures

    def notify_logout(self, user):
        # runs synchronously in the caller's task: the dispatcher (finally block) or a command handler (user())
        i = self.session_of_task(asyncio.current_task())
        return self._notify(user, i)

    async def _notify(self, user, i):
        if i is not None:
            f = asyncio.get_running_loop().create_future()
            self.gates.setdefault(i, []).append((f, user))
            await f
        await super().notify_logout(user)

    def release(self, i=None):
        n = 0
        for j, fs in list(self.gates.items()):
            if i is None or j == i:
                for f, _ in fs:
                    if not f.done():
                        f.set_result(None)
                        n += 1
                self.gates[j] = []
        return n

    def held(self, user, registered=()):
        """logout notifications of `user` that were started and not yet allowed to run, of sessions that are no
        longer registered (a registered session is counted through server.connections)"""
        return sum(1 for j, fs in self.gates.items() if j not in registered for (f, u) in fs if u is user and not f.done())


class LogCap(logging.Handler):
    def __init__(self):
        super().__init__(level=logging.WARNING)
        self.records = []

    def emit(self, r):
        exc = r.exc_info[0].__name__ if r.exc_info and r.exc_info[0] else None
        self.records.append((r.getMessage(), exc, str(r.exc_info[1]) if r.exc_info and r.exc_info[1] else ""))


EXPECTED_DISPATCHER_EXC = {"RuntimeError", "TimeoutError", "ConnectionResetError", "ConnectionError", "BrokenPipeError"}


def run_impl(cfg, actions, segment=False):
    """run the history on the real server; returns (snapshots, problems)
    snapshot per action: dict(codes, srv, users, sessions[(registered, acquired, user, logged)], oracle)"""
    cap = LogCap()
    lg = logging.getLogger("aioftp.server")
    old_level = lg.level
    lg.addHandler(cap)
    lg.setLevel(logging.WARNING)
    loop_errors = []
    snaps = []
    zombie_log = []  # (action index, session, key)

    async def main(net):
        net.loop.set_exception_handler(lambda loop, c: loop_errors.append(repr(c.get("exception") or c.get("message"))))
        if segment:
            net.default_segmenter = lambda b: [b[i : i + 1] for i in range(len(b))]
        users = [aioftp.User(l, p, maximum_connections=m) for (l, p, m) in cfg["users"]]
        gated = bool(cfg.get("gated"))
        raws = []

        def session_of_task(task):
            for c in server.connections.values():
                if c._dispatcher is task:
                    for j, r in enumerate(raws):
                        if r.writer.transport.get_extra_info("sockname")[1] == c.client_port:
                            return j
            return None

        um = GatedUserManager(users, session_of_task) if gated else BoomUserManager(users)
        wl = cfg.get("wlimit")  # [server-wide, per connection] write speed limit in bytes / second: replies leave slowly
        kw = {}
        if wl:
            kw = {"write_speed_limit": wl[0], "write_speed_limit_per_connection": wl[1]}
            orig_settle = net.settle

            async def settle_slow(rounds=3):
                # quiescence of a throttled server needs (virtual) time: the queued replies sleep in the throttle
                await orig_settle(rounds)
                await asyncio.sleep(WPAUSE)
                await orig_settle(rounds)

            net.settle = settle_slow
        server = aioftp.Server(um, maximum_connections=cfg["limit"], idle_timeout=cfg.get("idle", IDLE), **kw)
        sts = {}  # client port -> the server's transport of that control connection
        zombies = set()
        current = [None]
        ended_by_harness = set()  # sessions whose control connection the harness itself has ended / broken

        def addressed(j):
            """may session j still be talked to and judged?  Not once the harness has ended its connection (whatever the
            server then does with the session is judged by the oracles, not by sending it more commands)"""
            return j not in ended_by_harness and conn_of(raws[j]) is not None
        armed = []  # a write fault waiting for the next accepted connection

        def arm(st, nth, exc_kind):
            """the nth write on the server's side of this control connection fails the way a selector transport fails:
            the transport is closing at once, connection_lost(exc) follows on the next loop iteration, the data is
            dropped, the peer sees a reset; drain() of this and of every later write raises"""
            orig_write = st.write
            seen = [0]

            def write(data):
                seen[0] += 1
                if seen[0] == nth and not st.closing and not st.closed:
                    st.closing = True
                    st.out.push("rst")
                    exc = (BrokenPipeError(errno.EPIPE, "Broken pipe") if exc_kind == "pipe"
                           else ConnectionResetError(errno.ECONNRESET, "Connection reset by peer"))
                    net.loop.call_soon(st._connection_lost, exc)
                    return
                orig_write(data)

            st.write = write

        def on_connect(ct, st):
            if st.listener_port == PORT:
                sts[ct.get_extra_info("sockname")[1]] = st
                if armed:
                    arm(st, *armed.pop())

        net.on_connect = on_connect
        await server.start("127.0.0.1", PORT)
        closed = [False]
        close_tasks = []
        extra_q = []

        async def do_close():
            """Server.close(): awaited directly, or - when logout notifications are held - started as a task (close()
            itself waits for the dispatchers it cancelled, and those wait for their logout notification)"""
            closed[0] = True
            if gated:
                close_tasks.append(asyncio.create_task(server.close()))
                await net.settle()
            else:
                await server.close()
                await net.settle()

        def conn_of(raw):
            cport = raw.writer.transport.get_extra_info("sockname")[1]
            for c in server.connections.values():
                if c.client_port == cport:
                    return c
            return None

        def count_admitted(exclude=None):
            return sum(1 for c in server.connections.values() if c.acquired and c is not exclude)

        def count_user(u, exclude=None):
            # a session whose teardown has started but whose logout notification has not run yet still holds its user slot
            pending = um.held(u, {j for j, r in enumerate(raws) if conn_of(r) is not None}) if gated else 0
            return pending + sum(
                1 for c in server.connections.values() if c is not exclude and c.future.user.done() and c.user is u
            )

        def oracle():
            bad = []
            ac = server.available_connections
            if ac.maximum_value is not None and ac.value != ac.maximum_value - count_admitted():
                bad.append(("c10-srv-conservation", f"value={ac.value} max={ac.maximum_value} admitted={count_admitted()}"))
            if ac.maximum_value is not None and not (0 <= count_admitted() <= ac.maximum_value):
                bad.append(("c10-srv-limit-exceeded", f"admitted={count_admitted()} max={ac.maximum_value}"))
            for k, u in enumerate(users):
                c = um.available_connections[u]
                if c.maximum_value is not None and c.value != c.maximum_value - count_user(u):
                    bad.append(("c10-user-conservation", f"user#{k} value={c.value} max={c.maximum_value} attached={count_user(u)}"))
                if c.maximum_value is not None and count_user(u) > c.maximum_value:
                    bad.append(("c10-user-limit-exceeded", f"user#{k} attached={count_user(u)} max={c.maximum_value}"))
            return bad

        def lookup(login):
            user = None
            for u in users:
                if u.login is None and user is None:
                    user = u
                elif u.login == login:
                    user = u
                    break
            return user

        def ended_but_registered():
            """the property, on the real objects: a session whose control connection is gone (the server's transport is
            closed, nothing is runnable any more) has ended - it must not be registered or hold a slot"""
            bad = []
            for j, r in enumerate(raws):
                st = sts.get(r.writer.transport.get_extra_info("sockname")[1])
                c = conn_of(r)
                if st is not None and st.closed and c is not None and j not in zombies:
                    zombies.add(j)  # reported once, at the action that left it behind
                    key = ended_key(current[0]) if current[0] is not None and len(current[0]) > 1 and current[0][1] == j else KEY_ENDED
                    zombie_log.append((len(snaps), j, key))
                    uidx = users.index(c.user) if c.future.user.done() else None
                    bad.append((key,
                                f"session {j}: its control connection is closed and the server is quiescent, yet the session is still "
                                f"registered (server slot held: {bool(c.acquired)}, user slot held: user#{uidx}); server counter "
                                f"{server.available_connections.value} of {server.available_connections.maximum_value}"))
            return bad

        def send_burst(raw, cmds):
            raw.writer.write("".join(f"{v} {x}".rstrip() + "\r\n" for v, x in cmds).encode())

        def snapshot(codes, extra_bad):
            extra_bad = extra_bad + ended_but_registered()
            sess = []
            for r in raws:
                c = conn_of(r)
                if c is None:
                    sess.append((False, None, None, None))
                else:
                    uidx = users.index(c.user) if c.future.user.done() else None
                    sess.append((True, bool(c.acquired), uidx, c.future.logged.done()))
            snaps.append(
                {
                    "codes": codes,
                    "srv": server.available_connections.value,
                    "users": [um.available_connections[u].value for u in users],
                    "sessions": sess,
                    "oracle": oracle() + extra_bad,
                }
            )

        for a in actions:
            kind = a[0]
            current[0] = a
            codes, bad = [], []
            if kind == "connect":
                full = cfg["limit"] is not None and count_admitted() >= cfg["limit"]
                raw = await Raw.connect(net, PORT)
                raws.append(raw)
                codes = final_codes(await raw.drain_replies())
                want = ["421"] if full else ["220"]
                if codes != want:
                    bad.append(("c10-admission-421", f"greeting {codes}, expected {want} (admitted before: {count_admitted()})"))
            elif kind == "connect_many":
                # m clients connect at the same moment: all are accepted in one pass of the loop.  Exactly the free
                # slots are handed out (first come), everybody else is told 421 - nobody is left without a greeting
                before = count_admitted()
                new = await asyncio.gather(*[Raw.connect(net, PORT) for _ in range(a[1])])
                raws.extend(new)
                await net.settle()
                for j, raw in enumerate(new):
                    got = final_codes(raw.take())
                    full = cfg["limit"] is not None and before + j >= cfg["limit"]
                    want = ["421"] if full else ["220"]
                    if got != want:
                        bad.append(("c10-admission-421", f"simultaneous connect #{j} of {a[1]}: greeting {got or 'none (EOF)' if raw.reader.at_eof() else got}, "
                                                          f"expected {want} (admitted before: {before}, limit {cfg['limit']})"))
                    codes += got
            elif kind == "cmds":
                raw = raws[a[1]]
                if addressed(a[1]):
                    # expected refusals, from the real objects, only for single commands
                    expect = None
                    if len(a[2]) == 1 and a[2][0][0] == "USER" and a[2][0][1] != "boom":
                        me = conn_of(raw)
                        u = lookup(a[2][0][1])
                        if u is None:
                            expect = "530"
                        else:
                            lim = um.available_connections[u].maximum_value
                            expect = "530" if (lim is not None and count_user(u, exclude=me) >= lim) else "ok"
                    data = "".join(f"{v} {x}".rstrip() + "\r\n" for v, x in a[2]).encode()
                    raw.writer.write(data)
                    codes = final_codes(await raw.drain_replies())
                    if expect == "530" and codes != ["530"]:
                        bad.append(("c10-admission-530", f"USER {a[2][0][1]} answered {codes}, expected 530"))
                    if expect == "ok" and codes not in (["230"], ["331"]):
                        bad.append(("c10-admission-530", f"USER {a[2][0][1]} answered {codes}, expected 230/331"))
            elif kind == "connect_wfault":
                armed.append((1, a[1]))
                raw = await Raw.connect(net, PORT)
                raws.append(raw)
                ended_by_harness.add(len(raws) - 1)
                await raw.drain_replies()
                del armed[:]
            elif kind == "cmds_wfault":
                raw = raws[a[1]]
                st = sts.get(raw.writer.transport.get_extra_info("sockname")[1])
                if addressed(a[1]) and st is not None:
                    arm(st, a[3], a[4])
                    send_burst(raw, a[2])
                    ended_by_harness.add(a[1])
                await raw.drain_replies()
            elif kind == "cmds_end":
                raw = raws[a[1]]
                how, k, t = a[3], a[4], a[5]
                live_now = addressed(a[1])
                ended_by_harness.add(a[1])
                if live_now:
                    if wl and t:
                        # fresh throttle memory (public setter): the first reply of the burst leaves at once, every later
                        # one sleeps len(previous replies) / limit seconds in the throttle before it is written
                        if wl[0]:
                            server.throttle.write.limit = wl[0]
                        if wl[1]:
                            conn_of(raw).command_connection.throttles["server_per_connection"].write.limit = wl[1]
                    send_burst(raw, a[2])
                    for _ in range(k):  # the end lands k loop iterations ...
                        await asyncio.sleep(0)
                    if t:  # ... or t seconds into whatever the commands have set off
                        await asyncio.sleep(t)
                if how == "reset":
                    raw.writer.transport.abort()
                elif how == "dropmid":
                    if live_now:
                        raw.writer.write(b"US")
                    raw.close()
                else:
                    raw.close()
                await raw.drain_replies()
            elif kind == "drop":
                ended_by_harness.add(a[1])
                raws[a[1]].close()
                await net.settle()
            elif kind == "reset":
                ended_by_harness.add(a[1])
                raws[a[1]].writer.transport.abort()
                await net.settle()
            elif kind == "dropmid":
                raw = raws[a[1]]
                if addressed(a[1]):
                    raw.writer.write(b"US")
                ended_by_harness.add(a[1])
                raw.close()
                await net.settle()
            elif kind == "idle":
                # only session a[1] stays silent for IDLE seconds: the others keep talking
                for pause in (1, IDLE - 0.5):
                    for j, r in enumerate(raws):
                        if j != a[1] and addressed(j):
                            r.writer.write(b"NOOP\r\n")
                    await net.settle()
                    for r in raws:
                        r.take()
                    await asyncio.sleep(pause)
                    await net.settle()
            elif kind == "close":
                await do_close()
            elif kind == "release":
                if gated:
                    um.release(a[1])
                await net.settle()
            elif kind == "restart":
                if closed[0] and all(t.done() for t in close_tasks):
                    await server.start("127.0.0.1", PORT)
                    closed[0] = False
                await net.settle()
            elif kind == "end_close":
                raw = raws[a[1]]
                how, k1 = a[2], a[3]
                k2 = a[4] if len(a) > 4 else None
                if how == "quit":
                    if conn_of(raw) is not None:
                        raw.writer.write(b"QUIT\r\n")
                elif how == "drop":
                    raw.close()
                else:
                    raw.writer.transport.abort()
                for _ in range(k1):  # Server.close() lands k1 loop iterations into whatever the end has set off
                    await asyncio.sleep(0)
                closed[0] = True
                if k2 is None:
                    await server.close()
                else:
                    t1 = asyncio.create_task(server.close())
                    for _ in range(k2):
                        await asyncio.sleep(0)
                    await server.close()  # a second close(): a second cancel for whoever is still registered
                    await t1
                await net.settle()
                raw.take()
            elif kind == "connect_close":
                raw = await Raw.connect(net, PORT)  # returns before the dispatcher task has run
                raws.append(raw)
                await server.close()
                closed[0] = True
                codes = final_codes(await raw.drain_replies())
            snapshot(codes, bad)
        # quiescence: everybody leaves, the server closes, every counter must be full again
        for r in raws:
            r.close()
        await net.settle()
        if gated:
            um.release()
            await net.settle()
        if not closed[0]:
            await do_close()
        elif any(key == KEY_F24 and conn_of(raws[j]) is not None for (_, j, key) in zombie_log):
            # a session left registered in the way of finding F24 AFTER Server.close() had run (accepted right before it:
            # connect_close): only another Server.close() ends it - as for every other F24 session in this harness
            await server.close()
            await net.settle()
        if gated:
            for _ in range(3):
                um.release()
                await net.settle()
            for t in close_tasks:
                if not t.done():
                    extra_q.append(("c10-quiescent", "Server.close() has not returned although every logout notification was released"))
                    t.cancel()
        await net.settle()
        q = list(extra_q)
        ac = server.available_connections
        if ac.value != ac.maximum_value:
            q.append(("c10-quiescent", f"server counter {ac.value} of {ac.maximum_value} after all sessions ended"))
        for k, u in enumerate(users):
            c = um.available_connections[u]
            if c.value != c.maximum_value:
                q.append(("c10-quiescent", f"user#{k} counter {c.value} of {c.maximum_value} after all sessions ended"))
        if server.connections:
            q.append(("c10-quiescent", f"{len(server.connections)} connections still registered"))
        snaps.append({"final": True, "oracle": q})

    try:
        simnet.run(main)
    finally:
        lg.removeHandler(cap)
        lg.setLevel(old_level)
    problems = []
    for msg, exc, detail in cap.records:
        if exc in ("ValueError", "KeyError"):
            problems.append(("c10-accounting-exception", f"{msg}: {exc}({detail})"))
        elif exc not in EXPECTED_DISPATCHER_EXC:
            problems.append(("unexpected-log", f"{msg}: {exc}({detail})"))
    for e in loop_errors:
        if "ValueError" in e or "KeyError" in e:
            problems.append(("c10-accounting-exception", f"task exception: {e}"))
        elif e.startswith("CancelledError"):
            # CPython 3.12.1 StreamReaderProtocol's done-callback calls task.exception() on the dispatcher
            # task that Server.close() cancelled; same with real sockets, nothing to do with aioftp
            pass
        elif e.startswith(("ConnectionResetError(", "BrokenPipeError(", "RuntimeError('injected ")):
            # "Task exception was never retrieved": the response_writer task that failed on the lost connection while the
            # dispatcher was already leaving through `await response_queue.join()`, or a handler task with an injected error
            # whose dispatcher ended through the lost connection at the same moment; log noise, not an accounting matter
            pass
        else:
            problems.append(("unexpected-loop-error", e))
    run_impl.zombies = list(zombie_log)
    return snaps, problems


# ----------------------------------------------------------------------------- comparison
def model_view(snap, nsess):
    """decoded model snapshot -> comparable tuple"""
    outs, srv, ucs, sess, errs = snap
    opt = lambda l: l[0] if l else None
    sessions = []
    for s in sess[:nsess]:
        phase, greeted, acquired, user, logged = s
        if phase == 0:
            sessions.append((True, bool(acquired), opt(user), bool(logged)))
        else:
            sessions.append((False, None, None, None))
    return opt(srv), [opt(c) for c in ucs], sessions, errs


def expected_codes(msnaps, lo, hi, action):
    """reply codes the model predicts for one action (502 for commands it does not model)"""
    codes = []
    if action[0] == "cmds":
        k = lo
        for verb, arg in action[2]:
            outs = msnaps[k][0]
            if verb in ("USER", "PASS", "QUIT"):
                codes += [str(c) for (_, c) in outs]
            else:
                # an unmodelled command is answered 502 iff the session is still live in the model
                sess = msnaps[k][3]
                if action[1] < len(sess) and sess[action[1]][0] == 0:
                    codes.append("502")
            k += 1
    else:
        for k in range(lo, hi + 1):
            codes += [str(c) for (_, c) in msnaps[k][0]]
    return codes


class _Capped:
    """records at most 60 disagreements; the oracle keeps being evaluated on every history regardless"""

    def __init__(self, ctx):
        self.ctx = ctx

    def __getattr__(self, name):
        return getattr(self.ctx, name)

    def disagree(self, *a):
        if len(self.ctx.disagreements) < 60:
            self.ctx.disagree(*a)
        else:
            self.ctx.count("disagreements_not_recorded", 1)


def check_history(ctx, cfg, actions, msnaps, bounds, segment, stream, fin=None):
    ctx.traces_impl += 1
    ctx = _Capped(ctx)
    snaps, problems = run_impl(cfg, actions, segment)
    zs = sorted((k, j) for (k, j, key) in run_impl.zombies if key == KEY_F24)
    if zs and fin is not None:
        # the implementation showed finding F24 on this history: the model is run on the events as they really happened.
        # How many of the commands pipelined behind QUIT were still carried out is a matter of scheduling: the
        # implementation's state after the action must be ONE of the model's (0, 1, .. of them, in order)
        stuck = {}
        for k, j in zs:
            n_after = 0
            seen_quit = False
            for c in actions[k][2]:
                if seen_quit:
                    n_after += 1
                elif c[0] == "QUIT":
                    seen_quit = True
            cands = []
            for e in range(n_after + 1):
                st = dict(stuck)
                st[k] = (j, e)
                evs, bounds = model_events(actions, gated=bool(cfg.get("gated")), stuck=st)
                cands.append((st, evs, bounds))
            res = ctx.model([(0, [cfg_sx(cfg, fin), evs]) for (_, evs, _) in cands])
            ns = sum(a[1] if a[0] == "connect_many" else 1 for a in actions[: k + 1] if a[0] in ("connect", "connect_close", "connect_wfault", "connect_many"))
            pick = 0
            for e, ((st, evs, bnds), ms) in enumerate(zip(cands, res)):
                msrv, mucs, msess, _ = model_view(ms[bnds[k]], ns)
                if (msrv, mucs, msess) == (snaps[k]["srv"], snaps[k]["users"], snaps[k]["sessions"]):
                    pick = e
                    break
            stuck, _, bounds = cands[pick]
            msnaps = res[pick]
    replay = {"cfg": cfg, "actions": actions, "segment": segment}
    ok = True
    nsess = 0
    prev = -1
    for k, a in enumerate(actions):
        if a[0] in ("connect", "connect_close", "connect_wfault"):
            nsess += 1
        if a[0] == "connect_many":
            nsess += a[1]
        real = snaps[k]
        msrv, mucs, msess, merrs = model_view(msnaps[bounds[k]], nsess)
        mcodes = expected_codes(msnaps, prev + 1, bounds[k], a)
        prev = bounds[k]
        # 502 (a command this model does not know) is queued by the dispatcher itself, ahead of the reply of a
        # handler task that has not run yet: its position in a pipelined burst is not a C10 matter
        rview = (real["srv"], real["users"], real["sessions"], [c for c in real["codes"] if c != "502" and a[0] not in NOCODES])
        mview = (msrv, mucs, msess, [c for c in mcodes if c != "502" and a[0] not in NOCODES])
        ctx.case((stream, json.dumps(cfg), json.dumps(actions[: k + 1]), segment))
        if rview != mview:
            ok = False
            ctx.disagree(stream, {"cfg": cfg, "actions": actions[: k + 1], "segment": segment}, repr(mview), repr(rview))
        for key, what in real["oracle"]:
            ok = False
            ctx.violation(f"{what} after {actions[: k + 1]}", dict(replay, key=key, upto=k + 1))
    for key, what in snaps[-1]["oracle"]:
        ok = False
        ctx.violation(what, dict(replay, key=key))
    for key, what in problems:
        ok = False
        if key.startswith("c10-"):
            ctx.violation(what, dict(replay, key=key))
        else:
            ctx.disagree(stream + "-log", {"cfg": cfg, "actions": actions}, "no unexpected exception", what)
    if msnaps and msnaps[-1][4] != 0:
        ctx.disagree(stream + "-errs", {"cfg": cfg, "actions": actions}, f"model errs={msnaps[-1][4]}", "n/a")
    return ok


# ----------------------------------------------------------------------------- generators
LOGINS = ["a", "b", "zz"]
PASSWORDS = ["pw", "bad"]


def session_actions(i, rich):
    acts = [("cmds", i, [("USER", l)]) for l in LOGINS]
    acts += [("cmds", i, [("PASS", p)]) for p in PASSWORDS]
    acts += [("cmds", i, [("QUIT", "")]), ("drop", i), ("idle", i)]
    if rich:
        acts += [
            ("cmds", i, [("USER", "boom")]),
            ("cmds", i, [("PASS", "boom")]),
            ("cmds", i, [("NOOP", "")]),
            ("reset", i),
            ("dropmid", i),
        ]
    return acts


def exhaustive(max_sessions, depth, rich):
    """all action sequences up to `depth` whose actions address existing sessions (dead ones included
    once: the model says those are no-ops, the implementation must agree)"""
    out = []

    def rec(prefix, n, closed, dead):
        if prefix:
            out.append(list(prefix))
        if len(prefix) >= depth:
            return
        if n < max_sessions and not closed:
            rec(prefix + [("connect",)], n + 1, closed, dead)
        for i in range(n):
            if i in dead:
                continue
            for a in session_actions(i, rich):
                ends = a[0] in ("drop", "idle", "reset", "dropmid") or (a[0] == "cmds" and a[2][0][0] == "QUIT")
                rec(prefix + [a], n, closed, dead | {i} if ends else dead)
        if not closed and n > 0:
            rec(prefix + [("close",)], n, True, dead)

    rec([], 0, False, frozenset())
    # keep only maximal sequences (every prefix is checked after each action anyway)
    keep = []
    seen = set()
    for s in sorted(out, key=len, reverse=True):
        key = json.dumps(s)
        if key in seen:
            continue
        keep.append(s)
        for k in range(1, len(s) + 1):
            seen.add(json.dumps(s[:k]))
    return keep


BASE_SCRIPTS = [
    # (script, description) -- every script is cut at every index by every ending kind
    [("connect",), ("cmds", 0, [("USER", "a")]), ("cmds", 0, [("PASS", "pw")]), ("connect",), ("cmds", 1, [("USER", "a")]),
     ("cmds", 1, [("USER", "b")]), ("cmds", 0, [("QUIT", "")]), ("cmds", 1, [("USER", "a")]), ("cmds", 1, [("PASS", "pw")])],
    [("connect",), ("connect",), ("connect",), ("cmds", 0, [("USER", "b")]), ("cmds", 1, [("USER", "b")]),
     ("cmds", 2, [("USER", "b")]), ("cmds", 0, [("USER", "a")]), ("cmds", 2, [("USER", "b")]), ("cmds", 1, [("USER", "a")])],
    [("connect",), ("cmds", 0, [("USER", "a")]), ("cmds", 0, [("USER", "a")]), ("cmds", 0, [("PASS", "bad")]),
     ("cmds", 0, [("USER", "zz")]), ("cmds", 0, [("PASS", "pw")]), ("connect",), ("cmds", 1, [("USER", "a")]), ("cmds", 1, [("PASS", "pw")])],
    [("connect",), ("cmds", 0, [("USER", "zz")]), ("connect",), ("cmds", 1, [("USER", "zz")]), ("cmds", 0, [("USER", "a")]),
     ("cmds", 1, [("USER", "a")]), ("cmds", 0, [("USER", "zz")]), ("cmds", 1, [("USER", "a")]), ("connect",)],
    [("connect",), ("cmds", 0, [("USER", "a"), ("PASS", "pw"), ("NOOP", "")]), ("connect",),
     ("cmds", 1, [("USER", "a"), ("USER", "b"), ("USER", "a")]), ("cmds", 0, [("USER", "b"), ("QUIT", ""), ("USER", "a")]),
     ("cmds", 1, [("USER", "a"), ("PASS", "pw")]), ("connect",), ("cmds", 2, [("PASS", "pw")]), ("cmds", 2, [("USER", "a")])],
]

ENDINGS = ["drop", "reset", "dropmid", "idle", "quit", "userboom", "passboom", "close", "connect_close"]


def ending_action(kind, i):
    if kind == "quit":
        return ("cmds", i, [("QUIT", "")])
    if kind == "userboom":
        return ("cmds", i, [("USER", "boom")])
    if kind == "passboom":
        return ("cmds", i, [("PASS", "boom")])
    if kind in ("close", "connect_close"):
        return (kind,)
    return (kind, i)


def crash_points():
    """every base script, interrupted after k actions (k = 0..len) by every ending kind on every
    session connected so far, then continued"""
    out = []
    for script in BASE_SCRIPTS:
        for k in range(1, len(script) + 1):
            n = sum(1 for a in script[:k] if a[0] == "connect")
            for kind in ENDINGS:
                for i in range(n) if kind not in ("close", "connect_close") else [0]:
                    rest = script[k:]
                    if kind in ("close", "connect_close"):  # no connection is accepted after close()
                        rest = [a for a in rest if a[0] != "connect" and a[1] < n]
                    if kind == "connect_close":
                        rest = rest[:2] + [("cmds", n, [("USER", "a")]), ("cmds", n, [("PASS", "pw")])] + rest[2:] + [("drop", n)]
                    out.append(script[:k] + [ending_action(kind, i)] + rest)
    return out


TEARDOWN_PREFIXES = [
    [("connect",), ("cmds", 0, [("USER", "b")])],                                   # logged in, no password
    [("connect",), ("cmds", 0, [("USER", "a")]), ("cmds", 0, [("PASS", "pw")])],    # logged in with password
    [("connect",), ("cmds", 0, [("USER", "a")])],                                   # user slot taken, not logged in
    [("connect",)],                                                                 # no user: server slot only
]


def teardown_tail(closed, n):
    """after the window: every held logout runs, the SAME Server object is started again when it was closed, and a
    fresh session must be admitted and logged in exactly as the (full) counters say"""
    tail = [("release", j) for j in range(n)]
    if closed:
        tail.append(("restart",))
    return tail + [("connect",), ("cmds", n, [("USER", "b")]), ("cmds", n, [("QUIT", "")]), ("release", n)]


def teardown_gated(rng, sample):
    """histories for the GatedUserManager: the teardown window of a session (dispatcher finally started, logout
    notification suspended) is held open and Server.close(), a second close(), another session's end and the releases
    are placed inside it in every order (sequences over the alphabet up to length 2 exhaustively, length 3 sampled)"""
    import itertools

    out = []
    for prefix in TEARDOWN_PREFIXES:
        for second in (False, True):
            pre = list(prefix) + ([("connect",), ("cmds", 1, [("USER", "b")])] if second else [])
            n = 2 if second else 1
            for ending in ("quit", "drop", "reset", "idle", None):
                head = pre + ([ending_action(ending, 0)] if ending else [])
                alphabet = [("close",), ("release", 0)] + ([("release", 1), ("drop", 1), ("cmds", 1, [("QUIT", "")])] if second else [])
                seqs = [list(x) for k in (1, 2) for x in itertools.product(alphabet, repeat=k)]
                seqs3 = [list(x) for x in itertools.product(alphabet, repeat=3)]
                seqs += seqs3 if sample is None else rng.sample(seqs3, min(sample, len(seqs3)))
                for seq in seqs:
                    out.append(head + seq + teardown_tail(("close",) in seq, n))
    return out


def teardown_sweep(kmax, k2s):
    """stock user manager: a session ends (QUIT | EOF | RST) and Server.close() lands k loop iterations later, for
    every k up to kmax (the whole teardown takes fewer iterations than that), optionally with a second close() k2
    iterations after the first one was started; then the same Server object is started again"""
    out = []
    for pi, prefix in enumerate(TEARDOWN_PREFIXES):
        for second in (False, True):
            if second and pi % 2:
                continue
            pre = list(prefix) + ([("connect",), ("cmds", 1, [("USER", "b")])] if second else [])
            n = 2 if second else 1
            for how in ("quit", "drop", "reset"):
                for k in range(kmax + 1):
                    for k2 in k2s:
                        a = ("end_close", 0, how, k) if k2 is None else ("end_close", 0, how, k, k2)
                        out.append(pre + [a, ("restart",), ("connect",), ("cmds", n, [("USER", "b")])])
    return out


def simultaneous():
    """the last free slot(s) contested by clients connecting at the same moment: limit L, p sessions already
    admitted (some logged in), m simultaneous connects, everybody leaves in some way, then L + 1 sequential connects
    must again see exactly L admissions; also a simultaneous burst right after a slot was given back"""
    out = []
    for limit in (1, 2, 3):
        for p in range(limit + 1):
            for m in (2, 3):
                pre = []
                for j in range(p):
                    pre += [("connect",)] + ([("cmds", j, [("USER", "b")])] if j % 2 == 0 else [])
                n = p + m
                for leave in ("quit", "drop", "close"):
                    acts = list(pre) + [("connect_many", m)]
                    acts += [("cmds", p, [("USER", "b")])]
                    if leave == "close":
                        acts += [("close",), ("restart",)]
                    else:
                        acts += [ending_action(leave, j) for j in range(n)]
                    acts += [("connect",)] * (limit + 1)
                    out.append((limit, acts))
                if p >= 1:  # a slot comes back and is contested at once
                    acts = list(pre) + [("connect_many", m), ending_action("drop", 0), ("connect_many", 2), ("connect",)]
                    out.append((limit, acts))
    return out


WRITE_PREFIXES = [
    [("connect",), ("cmds", 0, [("USER", "b")])],                                   # logged in
    [("connect",), ("cmds", 0, [("USER", "a")])],                                   # user slot taken, password pending
    [("connect",)],                                                                 # server slot only
    [("connect",), ("cmds", 0, [("USER", "a")]), ("cmds", 0, [("PASS", "pw")])],    # logged in with password
]
# bursts whose replies are pending when the connection fails: the final reply of QUIT, a refused USER (530), an accepted one
WRITE_BURSTS = [
    [("QUIT", "")],
    [("USER", "zz")],
    [("USER", "b"), ("QUIT", "")],
    [("USER", "zz"), ("QUIT", "")],
    [("NOOP", ""), ("QUIT", "")],
    [("USER", "a"), ("PASS", "pw"), ("QUIT", "")],
    [("USER", "b")],
    [("PASS", "bad"), ("USER", "a")],
]
WRITE_TAIL = lambda n: [("connect",), ("cmds", n, [("USER", "b")]), ("cmds", n, [("QUIT", "")])]


def replies_of(burst):
    """how many replies the burst is certain to produce: one per command up to and including the first QUIT, none
    from an injected handler error on"""
    m = 0
    for verb, arg in burst:
        if arg == "boom":
            break
        m += 1
        if verb == "QUIT":
            break
    return m


def write_side(kmax, thorough):
    """session ends classified by where the WRITER fails, not only by where the reader sees EOF / RST:
    (1) the n-th reply of a burst (or the greeting, 220 as well as 421) cannot be written: ConnectionResetError /
        BrokenPipeError surfaces in response_writer, possibly while the dispatcher already waits for the queue to drain;
    (2) the peer resets / closes the connection k loop iterations after the burst was sent, for every k up to kmax (the
        whole processing of a burst takes fewer iterations): the end lands before, between and after the replies;
    afterwards a fresh session must be admitted and logged in, with and without a second session that stays."""
    out = []
    for pi, prefix in enumerate(WRITE_PREFIXES):
        for second in (False, True):
            if second and pi >= 2 and not thorough:
                continue
            pre = list(prefix) + ([("connect",), ("cmds", 1, [("USER", "b")])] if second else [])
            n = 2 if second else 1
            post = ([("cmds", 1, [("USER", "a")])] if second else []) + WRITE_TAIL(n)
            for burst in WRITE_BURSTS:
                for nth in range(1, replies_of(burst) + 1):
                    for exc in ("reset", "pipe"):
                        out.append(pre + [("cmds_wfault", 0, burst, nth, exc)] + post)
                if second and not thorough:
                    continue
                for how in ("reset", "drop") + (("dropmid",) if thorough else ()):
                    for k in range(kmax + 1):
                        out.append(pre + [("cmds_end", 0, burst, how, k, 0)] + post)
    # the greeting itself: admitted (220) and refused (421: the dispatcher is already waiting for the queue to drain)
    for admitted in (0, 1, 2):
        for exc in ("reset", "pipe"):
            pre = []
            for j in range(admitted):
                pre += [("connect",), ("cmds", j, [("USER", "b")])]
            out.append(pre + [("connect_wfault", exc), ("connect",), ("drop", 0), ("connect",), ("connect_wfault", exc), ("connect",)])
    return out


def write_side_slow(thorough):
    """the same with a write speed limit (server-wide or per connection): every reply after the first sleeps in the
    throttle, the peer resets / closes t seconds after the burst - while replies are queued behind the throttle"""
    out = []
    bursts = [b for b in WRITE_BURSTS if len(b) >= 2] + [[("NOOP", ""), ("NOOP", ""), ("USER", "b")]]
    for pi, prefix in enumerate(WRITE_PREFIXES[:4 if thorough else 3]):
        for burst in bursts:
            for how in ("reset", "drop", "dropmid"):
                for t in (0.05, 0.4, 1.0, 2.0, 4.0) + ((0.2, 0.7, 1.5, 3.0, 8.0) if thorough else ()):
                    out.append(list(prefix) + [("cmds_end", 0, burst, how, 0, t)] + WRITE_TAIL(1))
            for nth in range(1, replies_of(burst) + 1):
                out.append(list(prefix) + [("cmds_wfault", 0, burst, nth, "reset" if nth % 2 else "pipe")] + WRITE_TAIL(1))
    return out


def random_history(rng, max_sessions=3, length=14):
    acts = []
    n = 0
    closed = False
    gone = set()
    for _ in range(rng.randint(4, length)):
        r = rng.random()
        if n == 0 or (r < 0.22 and n < max_sessions and not closed):
            if closed:
                break
            if rng.random() < 0.25 and n + 2 <= max_sessions + 1:
                acts.append(("connect_many", 2))  # two clients at the same moment
                n += 2
            else:
                acts.append(("connect",))
                n += 1
            continue
        i = rng.randrange(n)
        r = rng.random()
        if r < 0.07 and n < max_sessions and not closed:
            acts.append(("connect_wfault", rng.choice(["reset", "pipe"])))  # the greeting cannot be written
            gone.add(n)
            n += 1
            continue
        if i in gone:
            continue  # a session whose connection the harness has broken is not addressed again
        if r < 0.62:
            cmds = []
            for _ in range(rng.choice([1, 1, 1, 2, 3])):
                q = rng.random()
                if q < 0.55:
                    cmds.append(("USER", rng.choice(["a", "a", "b", "b", "zz", "boom"] if rng.random() < 0.3 else ["a", "a", "b", "b", "zz"])))
                elif q < 0.85:
                    cmds.append(("PASS", rng.choice(["pw", "pw", "bad", "boom"] if rng.random() < 0.3 else ["pw", "bad"])))
                elif q < 0.93:
                    cmds.append(("NOOP", ""))
                else:
                    cmds.append(("QUIT", ""))
            q = rng.random()
            if q < 0.24 and any(v == "QUIT" for v, _ in cmds):
                # an injected handler error next to QUIT in a burst whose connection fails: which of the two ends the
                # session is scheduling; keep the two dimensions apart
                cmds = [(v, {"USER": "zz", "PASS": "bad"}.get(v, x) if x == "boom" else x) for v, x in cmds]
            if q < 0.24:
                gone.add(i)
            if q < 0.12 and replies_of(cmds) >= 1:  # the connection fails ON WRITE at one of the replies
                acts.append(("cmds_wfault", i, cmds, rng.randint(1, replies_of(cmds)), rng.choice(["reset", "pipe"])))
            elif q < 0.24:  # the peer ends the connection while the replies are pending
                acts.append(("cmds_end", i, cmds, rng.choice(["reset", "reset", "drop", "dropmid"]), rng.randint(0, 9), 0))
            else:
                acts.append(("cmds", i, cmds))
        elif r < 0.92:
            acts.append((rng.choice(["drop", "drop", "reset", "dropmid", "idle"]), i))
        elif not closed:
            if rng.random() < 0.3 and n < max_sessions:
                acts.append(("connect_close",))
                n += 1
            else:
                acts.append(("close",))
            closed = True
    return acts


def all_configs():
    out = []
    for limit in (None, 1, 2):
        for la in (None, 1, 2):
            for lb in (None, 1, 2):
                for us in ("ab", "a_anon", "anon_a"):
                    out.append(make_cfg(limit, us, la, lb))
    return out


def tojson(a):
    return json.loads(json.dumps(a))


# ----------------------------------------------------------------------------- entry points
def correspondence(ctx, budget=None):
    rng = ctx.rng
    thorough = ctx.tier == "thorough"
    fin = fin_from_gen(ctx)
    ctx.extra["rule"] = (
        "histories of actions {connect, USER a|b|zz|boom, PASS pw|bad|boom, NOOP, QUIT, pipelined bursts of those, drop (EOF), "
        "reset (RST), drop in the middle of a command line, idle timeout (virtual time, other sessions refreshed), server.close(), "
        "server.close() racing with a just-accepted connection} "
        "over <= 3 sessions, run on the real Server on simnet and on the extracted model; streams: (a) bounded-exhaustive: every "
        "sequence up to depth d over <= 2 sessions for a set of limit configurations, (b) crash points: 5 base scripts cut after "
        "every action by every ending kind on every session, then continued, (c) random histories over 3 sessions incl. bursts and "
        "byte-by-byte segmentation, (d) inside a session's teardown: with a user manager whose logout notification (started by the "
        "dispatcher's finally as its own task) stays suspended until the harness releases it, Server.close(), a second close(), the "
        "other session's end and the releases are placed in every order inside the window (sequences up to length 2 exhaustively, "
        "length 3 sampled; the model's Closing phase / LogoutRuns event), and with the stock manager Server.close() k = 0..14 loop "
        "iterations after QUIT/EOF/RST, optionally a second close() k2 iterations after the first was started; afterwards the SAME "
        "Server object is started again and a fresh session must be admitted as the counters say; (f) the control connection failing ON "
        "WRITE wherever a reply is pending: the n-th reply of a burst (final reply of QUIT, refused USER, accepted USER/PASS) or the "
        "greeting (220 and 421) cannot be written (the server's transport fails with ConnectionResetError / BrokenPipeError at that "
        "write, as a selector transport does), the peer resets / closes k = 0..11 loop iterations after the burst was sent, and - "
        "with a server-wide or per-connection write speed limit that keeps replies queued behind the throttle - t seconds after "
        "it; afterwards a fresh session must be admitted and logged in; the same actions appear in the random histories; a session "
        "whose control connection is closed at quiescence must not be registered or hold a slot (key "
        "c10-ended-session-holds-slot); configurations: server limit {None,1,2} x limit(a) {None,1,2} x limit(b) {None,1,2} x user lists "
        "{[a,b], [a,anonymous], [anonymous,a]} plus limit 0. One evaluation = one (configuration, history prefix): the real counter "
        "objects, session flags and reply codes compared with the model and the conservation equations evaluated on the real "
        "objects; non-trivial = distinct (configuration, prefix)."
    )
    # closed check of the finally block as the extracted model sees it (same function as the Coq obligation)
    res = ctx.model([(1, [fin])])
    if res[0] != 1:
        ctx.obligation_broken("check_finally(d_finally)", f"finally block {fin} fails the closed check")
    jobs = []  # (stream, cfg, actions, segment)

    cfgs = all_configs()
    # (a) bounded exhaustive
    depth = 4 if thorough else 3
    ex_cfgs = [make_cfg(1, "ab", 1, 1), make_cfg(2, "ab", 1, None), make_cfg(1, "a_anon", 1, 1), make_cfg(None, "anon_a", 2, 1),
               make_cfg(2, "ab", 2, 2), make_cfg(None, "ab", 1, 1), make_cfg(2, "a_anon", None, 1), make_cfg(2, "anon_a", 1, 2)]
    if thorough:
        ex_cfgs += [make_cfg(2, "ab", 2, 1), make_cfg(0, "ab", 1, 1), make_cfg(1, "ab", 0, 1)]
    seqs = exhaustive(2, depth, rich=False)
    for c in ex_cfgs:
        for s in seqs:
            jobs.append(("exhaustive", c, s, False))
    ctx.count("exhaustive_histories", len(seqs) * len(ex_cfgs))
    seqs_rich = exhaustive(2, 3 if thorough else 2, rich=True) + [
        [("connect",)] + s for s in exhaustive(1, 3, rich=True) if s and s[0][0] == "connect"
    ]
    for c in (make_cfg(1, "ab", 1, 1), make_cfg(0, "ab", 1, 1), make_cfg(2, "a_anon", 0, 1)):
        for s in seqs_rich:
            jobs.append(("exhaustive-rich", c, s, False))
    ctx.count("exhaustive_rich_histories", len(seqs_rich) * 3)
    # (b) crash points
    cps = crash_points()
    cp_cfgs = [make_cfg(2, "ab", 1, 2), make_cfg(1, "ab", 1, 1), make_cfg(2, "a_anon", 1, 1), make_cfg(3, "anon_a", 2, 1)]
    if thorough:
        cp_cfgs = cfgs
    for c in cp_cfgs:
        for s in cps:
            jobs.append(("crash-points", c, s, False))
    ctx.count("crash_point_histories", len(cps) * len(cp_cfgs))
    # (c) random
    n_rand = budget or (12000 if thorough else 1500)
    for k in range(n_rand):
        c = rng.choice(cfgs) if rng.random() < 0.9 else make_cfg(rng.choice([0, 1]), "ab", rng.choice([0, 1]), rng.choice([0, 2]))
        jobs.append(("random", c, random_history(rng), rng.random() < 0.25))
    ctx.count("random_histories", n_rand)

    # (d) inside a session's teardown: Server.close() / a second close() / other sessions' ends at every point of the window
    gated_cfgs = [dict(make_cfg(1, "ab", 1, 1), gated=True), dict(make_cfg(2, "ab", 1, 2), gated=True)]
    if thorough:
        gated_cfgs[1] = dict(make_cfg(2, "a_anon", 1, 1), gated=True)
        gated_cfgs.append(dict(make_cfg(2, "ab", 1, 2), gated=True))
    tg = teardown_gated(rng, None if thorough else 12)
    for ci, c in enumerate(gated_cfgs):
        for s in tg if ci == 0 or (thorough and ci == 1) else rng.sample(tg, len(tg) // 3):
            jobs.append(("teardown-gated", c, s, False))
    ts = teardown_sweep(24 if thorough else 14, [None, 0, 1, 2, 3, 5] if thorough else [None, 0, 2])
    for c in [make_cfg(1, "ab", 1, 1)] + ([make_cfg(2, "ab", 1, 2), make_cfg(2, "a_anon", 1, 1)] if thorough else []):
        for s in ts:
            jobs.append(("teardown-sweep", c, s, False))
    # (e) simultaneous connects for the last free slot(s)
    for limit, acts in simultaneous():
        for us, la, lb in (("ab", 1, None), ("a_anon", None, 2)) if thorough else (("ab", 1, None),):
            jobs.append(("simultaneous", make_cfg(limit, us, la, lb), acts, False))
    # (f) the control connection fails ON WRITE / while replies are pending
    ws = write_side(24 if thorough else 11, thorough)
    for c in [make_cfg(1, "ab", 1, 1)] + ([make_cfg(2, "ab", 1, 2), make_cfg(2, "a_anon", 1, 1)] if thorough else [make_cfg(2, "ab", 1, 2)]):
        for s in ws if (thorough or c["limit"] == 1) else ws[::3]:
            jobs.append(("write-side", c, s, False))
    wss = write_side_slow(thorough)
    slow_cfgs = [dict(make_cfg(1, "ab", 1, 1), wlimit=[20, None], idle=100000), dict(make_cfg(1, "ab", 1, 1), wlimit=[None, 25], idle=100000)]
    if thorough:
        slow_cfgs.append(dict(make_cfg(2, "a_anon", 1, 1), wlimit=[40, 15], idle=100000))
    for ci, c in enumerate(slow_cfgs):
        for s in wss if (thorough or ci == 0) else wss[::2]:
            jobs.append(("write-side-throttled", c, s, False))
    ctx.count("write_side_histories", sum(1 for j in jobs if j[0] == "write-side"))
    ctx.count("write_side_throttled_histories", sum(1 for j in jobs if j[0] == "write-side-throttled"))
    ctx.count("simultaneous_histories", sum(1 for j in jobs if j[0] == "simultaneous"))
    ctx.count("teardown_gated_histories", sum(1 for j in jobs if j[0] == "teardown-gated"))
    ctx.count("teardown_sweep_histories", sum(1 for j in jobs if j[0] == "teardown-sweep"))

    # the short, systematic write-side histories are judged before the long random ones (smaller replays first)
    jobs.sort(key=lambda j: 0 if j[0].startswith("write-side") else 1)
    jobs = [(st, c, tojson(a), seg) for (st, c, a, seg) in jobs]
    # model, in one batch
    cases, metas = [], []
    for stream, cfg, actions, seg in jobs:
        evs, bounds = model_events(actions, gated=bool(cfg.get("gated")))
        cases.append((0, [cfg_sx(cfg, fin), evs]))
        metas.append(bounds)
    mres = ctx.model(cases)
    kinds = {}
    xcheck = []
    for (stream, cfg, actions, seg), bounds, msnaps, case in zip(jobs, metas, mres, cases):
        for a in actions:
            k = a[0] if a[0] != "cmds" else ("cmd:" + a[2][0][0] if len(a[2]) == 1 else "cmd:pipelined-burst")
            kinds[k] = kinds.get(k, 0) + 1
        check_history(ctx, cfg, actions, msnaps, bounds, seg, stream, fin)
        if len(xcheck) < 40 and stream in ("crash-points", "random") and len(actions) < 9:
            xcheck.append((0, case[1], msnaps))
        if stream == "random":
            ctx.sample({"cfg": cfg, "actions": actions, "segment": seg})
        if len(ctx.violations) > 20:
            break
    for k, v in sorted(kinds.items()):
        ctx.count("action:" + k, v)
    ok, out = core.vm_crosscheck(EXTRACT, xcheck)
    ctx.extra["vm_compute_crosscheck"] = {"cases": len(xcheck), "agree": ok}
    if not ok:
        ctx.obligation_broken("extraction-crosscheck", out)


F24_WITNESSES = {
    # QUIT FIRST, the write of its own 221 fails, the reply of the command pipelined behind it is queued behind the failed write
    "quit-first": ({}, [("connect",), ("cmds", 0, [("USER", "b")]), ("cmds_wfault", 0, [("QUIT", ""), ("NOOP", "")], 1, "reset"),
                       ("connect",)]),
    # (cfg extras, history): the connection fails ON WRITE / is reset while QUIT's reply is queued behind another one
    "write-fails": ({}, [("connect",), ("cmds", 0, [("USER", "b")]), ("cmds_wfault", 0, [("NOOP", ""), ("QUIT", "")], 1, "reset"),
                        ("connect",)]),
    "throttled-reset": ({"wlimit": [20, None], "idle": 100000},
                        [("connect",), ("cmds", 0, [("USER", "b")]), ("cmds_end", 0, [("NOOP", ""), ("NOOP", ""), ("QUIT", "")], "reset", 0, 0.4),
                         ("connect",)]),
}


def loopback_f24():
    """real loopback TCP, real clock, unchanged asyncio: NOOP NOOP QUIT pipelined behind a write speed limit, the peer
    resets 0.3 s later.  Informative only (never decides the outcome): returns what the server holds 2.5 s afterwards"""
    import socket
    import struct

    async def main():
        user = aioftp.User("foo", maximum_connections=1)
        server = aioftp.Server([user], maximum_connections=1, write_speed_limit=20, path_io_factory=aioftp.MemoryPathIO)
        loop = asyncio.get_running_loop()
        loop.set_exception_handler(lambda l, c: None)
        await server.start("127.0.0.1", 0)
        try:
            sock = socket.socket()
            sock.setblocking(False)
            await loop.sock_connect(sock, (server.server_host, server.server_port))
            r, w = await asyncio.open_connection(sock=sock)
            await asyncio.wait_for(r.readline(), 5)
            w.write(b"USER foo\r\n")
            await asyncio.wait_for(r.readline(), 5)
            w.write(b"NOOP\r\nNOOP\r\nQUIT\r\n")
            await w.drain()
            await asyncio.sleep(0.3)
            sock.setsockopt(socket.SOL_SOCKET, socket.SO_LINGER, struct.pack("ii", 1, 0))
            w.transport.abort()
            for _ in range(25):
                await asyncio.sleep(0.1)
                if not server.connections:
                    break
            return {"sessions_registered_after_reset": len(server.connections), "server_slots_free": server.available_connections.value,
                    "user_slots_free": server.user_manager.available_connections[user].value, "of": 1}
        finally:
            await asyncio.wait_for(server.close(), 10)

    lg = logging.getLogger("aioftp.server")
    old = lg.level
    lg.setLevel(logging.CRITICAL)
    try:
        return asyncio.run(main())
    finally:
        lg.setLevel(old)


def known(ctx):
    """re-run the witnesses of finding F24 on the real code (simnet; real loopback TCP as information)"""
    fid = ctx.match_known("", {"key": KEY_F24})
    for name, (extra, actions) in F24_WITNESSES.items():
        cfg = dict(make_cfg(1, "ab", 1, 1), **extra)
        actions = tojson(actions)
        snaps, _ = run_impl(cfg, actions)
        hit = [(k, j) for (k, j, key) in run_impl.zombies if key == KEY_F24]
        wfile = core.VERIF / "evidence" / "replay" / f"C10-witness-F24-{name}.json"
        wfile.parent.mkdir(parents=True, exist_ok=True)
        txt = json.dumps({"property": ID, "kind": "known-finding-witness",
                          "replay": {"key": KEY_F24, "cfg": cfg, "actions": actions, "segment": False}}, indent=1)
        if not wfile.exists() or wfile.read_text() != txt:
            wfile.write_text(txt)
        greeting_after = snaps[len(actions) - 1]["codes"]
        ctx.extra.setdefault("witness_replays", {})[name] = {
            "session_left_registered": bool(hit), "server_counter_after": snaps[len(actions) - 1]["srv"],
            "greeting_of_next_client": greeting_after, "replay": f"evidence/replay/{wfile.name}"}
        if hit and fid:
            ctx.known_reproduced(fid, f"witness {name}: peer gone, session still registered, next client answered {greeting_after} at limit 1")
        elif hit and not fid:
            ctx.violation(f"witness {name}: session left registered after its connection failed", {"key": KEY_F24, "cfg": cfg, "actions": actions, "segment": False})
        elif fid:
            ctx.notes.append(f"known finding {fid}: witness {name} no longer reproduces on the implementation (fixed?)")
    try:
        ctx.extra["loopback_replay_F24"] = loopback_f24()
    except Exception as e:  # the real-socket driver must never decide the outcome
        ctx.extra["loopback_replay_F24"] = f"not run: {e!r}"


def search(ctx):
    """failing-input search: the oracle runs on every implementation state above; widen the random
    budget once when something is broken and no failing input was found yet"""
    if ctx.violations or ctx.tier == "thorough" or ctx.exe is None:
        return
    try:
        correspondence(ctx, budget=6000)
    except Exception as e:
        ctx.notes.append(f"search aborted: {e!r}")


def replay(ctx, data):
    """re-run one recorded history on the implementation; True when the property holds on it"""
    r = data.get("replay", {})
    if "actions" not in r:
        print("replay payload:", json.dumps(data)[:2000])
        return False
    snaps, problems = run_impl(r["cfg"], tojson(r["actions"]), r.get("segment", False))
    bad = [(k, w) for s in snaps for (k, w) in s["oracle"]] + [(k, w) for (k, w) in problems if k.startswith("c10-")]
    for k, s in enumerate(snaps[:-1]):
        print(f"after {r['actions'][k]}: codes={s['codes']} server={s['srv']} users={s['users']} sessions={s['sessions']}")
    for k, w in bad:
        print("ORACLE", k, w)
    return not bad
