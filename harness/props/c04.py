"""C04 — read/write permissions follow the nearest-ancestor rule on the resolved path.

Correspondence of coq/Model/Perm.v with the real User.get_permissions and the real
PathPermissions decorator; independent longest-prefix oracle on the real outputs; wire-level
check over real loopback sessions that a denied request is 550 and inert."""
import asyncio
import itertools
import pathlib

import aioftp
from aioftp import server as aserver

from .. import core, sx, wire
from .c02 import py_normalize

ID = "C04"
EXTRACT = "ExC04"
TECHNIQUE = (
    "Coq proof (first-minimum lemma for min-with-key, one-pass specification, composition with the C02 resolver) about an "
    "executable model of Permission.is_parent / User.get_permissions / the PathPermissions wrapper, plus a checker over the "
    "regenerated dispatch facts proved sound; tied to the code by exhaustive differential correspondence on small tables and "
    "wire-level sessions over loopback"
)
LEVEL_TEXT = (
    "C04_get_permissions_is_nearest, C04_first_deepest, C04_default, C04_selected_is_ancestor_entry, "
    "C04_foreign_anchor_never_matches (all tables, all paths), C04_lookup_on_resolved and C04_alias_invariant (composition "
    "with the C02 resolver: every base, every absolute cwd, every string), C04_deny_iff, C04_check_perm_table_sound (every "
    "accepted dispatch table) and the instance obligations C04_table_checked / C04_verbs_today on the regenerated "
    "Gen/Dispatch.v are proved (Closed under the global context). The session-level statement (a denied request queues "
    "exactly one 550 and leaves tree and cwd unchanged) is validated at wire level only here and is left to the Session model."
)
LEVEL_NOTE = (
    "Trusted: Coq kernel, tools/py2v (decorator stacks), extraction cross-checked with vm_compute, harness. Modelled, not "
    "verified: pathlib (see C02), Python's min(key=, default=) returning the first minimum. Partial: deny_is_550_and_inert is "
    "proved at function level (decision + decorator order facts), validated over loopback sessions, not proved over Session."
)
TRUSTED = [
    "Python's built-in min(iterable, key=, default=) returns the first element with the least key (modelled as min_by; exercised by "
    "the exhaustive tables with duplicated and tied entries)",
    "pathlib model of C02 (Lib/PosixPath.v)",
]
ASSUMPTIONS = [
    "the session-level half (exactly one 550, tree and cwd unchanged) is validated over real loopback sessions, its proof is a TODO of the Session model",
    "permission tables are lists of aioftp.Permission with PurePosixPath paths; custom user managers are outside",
]

ENTRY_PATHS = ["/", "/a", "/a/b", "/a/b/c", "/b", "a", "//a", "/a/"]
QUERY_PATHS = ["/", "/a", "/b", "/c", "/a/a", "/a/b", "/a/c", "/b/a", "/a/b/c", "/a/b/a", "/a/b/c/d", "/b/a/b", "/ab", "/a/bc"]


def py_nearest(entries, qparts):
    """independent oracle: entries [(parts or None, ...)] -> index of the first deepest ancestor-or-equal entry, -1 if none.
    qparts: list of components of an absolute normalised path."""
    best, best_len = -1, -1
    for i, e in enumerate(entries):
        ep = e
        if ep is None:
            continue
        if len(ep) <= len(qparts) and qparts[: len(ep)] == ep:
            if len(ep) > best_len:
                best, best_len = i, len(ep)
    return best


def entry_parts(p):
    """components of an entry path if it is '/'-anchored (exactly one leading slash rule), else None (never matches)"""
    if not p.startswith("/") or (p.startswith("//") and not p.startswith("///")):
        return None
    return [x for x in p.split("/") if x not in ("", ".")]


def run_coro(loop, coro):
    """get_permissions is `async def` without awaits: one send() finishes it; anything else goes to the loop"""
    try:
        coro.send(None)
    except StopIteration as e:
        return e.value
    coro.close()
    raise RuntimeError("get_permissions awaited something: drive it on a loop")


def flags_for(i, salt):
    v = (i * 7 + salt * 13) % 4
    return bool(v & 1), bool(v & 2)


def stream_lookup(ctx, xcheck):
    loop = asyncio.new_event_loop()
    rng = ctx.rng
    thorough = ctx.tier == "thorough"
    tables = []
    for n in range(0, 5):
        for combo in itertools.product(range(len(ENTRY_PATHS)), repeat=n):
            tables.append([ENTRY_PATHS[i] for i in combo])
    ctx.count("tables_exhaustive_le4", len(tables))
    ctx.count("tables_run", len(tables))
    cases, meta = [], []
    for ti, t in enumerate(tables):
        ents = [[i, p] + list(flags_for(i, ti)) for i, p in enumerate(t)]
        for q in QUERY_PATHS:
            cases.append((40, [ents, q]))
            meta.append((t, ents, q))
    # random larger tables, deeper paths, odd spellings
    names = ["a", "b", "c", "..", "a b", "é"]
    def rpath():
        r = rng.random()
        pre = "/" if r < 0.85 else ("" if r < 0.93 else "//")
        return pre + "/".join(rng.choice(names) for _ in range(rng.randint(0, 5))) + ("/" if rng.random() < 0.1 else "")
    for k in range(8000 if thorough else 1500):
        t = [rpath() for _ in range(rng.randint(5, 12))]
        if rng.random() < 0.5:
            t += rng.sample(t, 2)  # duplicates
        ents = [[i, p] + list(flags_for(i, k)) for i, p in enumerate(t)]
        q = "/" + "/".join(rng.choice(names[:3] + names[4:]) for _ in range(rng.randint(0, 6)))
        cases.append((40, [ents, q]))
        meta.append((t, ents, q))
    ctx.count("tables_random_large", 8000 if thorough else 1500)
    out = ctx.model(cases)
    spec_out = ctx.model([(41, a) for _, a in cases[:: 7]])
    for (fn, a), mo, so in zip(cases[:: 7], out[:: 7], spec_out):
        if mo != so:
            ctx.disagree("nearest-vs-get_permissions(model)", a, mo, so)
    for (t, ents, q), mo in zip(meta, out):
        ctx.case(("lookup", tuple(t), q))
        perms = [aioftp.Permission(p, readable=r, writable=w) for _, p, r, w in ents]
        user = aioftp.User(permissions=perms) if perms else aioftp.User(permissions=None)
        if not perms:
            user.permissions = []
        got = run_coro(loop, user.get_permissions(pathlib.PurePosixPath(q)))
        ctx.traces_impl += 1
        idx = next((i for i, p in enumerate(perms) if p is got), -1)
        im = [idx, got.readable, got.writable, str(got.path)]
        mc = [mo[0], bool(mo[2]), bool(mo[3]), None]
        if im[:3] != mc[:3]:
            ctx.disagree("get_permissions", [t, q], mc, im)
        # independent oracle on the implementation's answer
        want = py_nearest([entry_parts(p) for p in t], [x for x in q.split("/") if x])
        if idx != want or (idx == -1 and not (got.readable and got.writable and str(got.path) == "/")):
            ctx.violation(
                "get_permissions did not return the first deepest ancestor entry",
                {"key": "c04-lookup", "table": ents, "path": q, "got_index": idx, "want_index": want},
            )
    xcheck.extend((40, a, mo) for (_, a), mo in list(zip(cases, out))[:: max(1, len(cases) // 40)][:40])
    ctx.sample({"stream": "lookup", "table": meta[len(meta) // 2][0], "path": meta[len(meta) // 2][2]})
    loop.close()


class FakeServer:
    """what the wrapper needs from `cls`: the real get_paths"""

    get_paths = staticmethod(aioftp.Server.get_paths)


def run_decorator(loop, ents, fl, cwd, s):
    """the real PathPermissions wrapper around a recording body: (0 body ran | 550 | 1 fell through, replies, result)"""
    perms = [aioftp.Permission(p, readable=r, writable=w) for _, p, r, w in ents]
    user = aioftp.User(permissions=perms or None)
    if not perms:
        user.permissions = []
    replies, called = [], []
    conn = aioftp.Connection(current_directory=pathlib.PurePosixPath(cwd), user=user, response=lambda *a: replies.append(a))

    async def body(cls, connection, rest):
        called.append(rest)
        return "BODY"

    names = [["readable", "writable"][f] for f in fl]
    wrapped = aserver.PathPermissions(*names)(body)
    res = loop.run_until_complete(wrapped(FakeServer, conn, s))
    if called:
        im = 0
    elif replies:
        im = 550 if replies[0][0] == "550" else -2
    else:
        im = 1
    return im, replies, res


def stream_decorator(ctx, xcheck):
    """the real PathPermissions wrapper around a recording body, on spellings and cwds"""
    loop = asyncio.new_event_loop()
    asyncio.set_event_loop(loop)
    rng = ctx.rng
    n = 6000 if ctx.tier == "thorough" else 1500
    segs = ["a", "b", "c", "..", ".", "", "a b"]
    cwds = ["/", "/a", "/a/b", "/b/c", "/a/../b"]
    flag_sets = [[0], [1], [0, 1], [1, 0], []]
    cases, meta = [], []
    for k in range(n):
        t = [rng.choice(ENTRY_PATHS[:5] + ["/a/b/c/d", "/c", "a"]) for _ in range(rng.randint(0, 5))]
        ents = [[i, p] + list(flags_for(i, k)) for i, p in enumerate(t)]
        cwd = rng.choice(cwds)
        s = rng.choice(["", "/", "//", ""]) + "/".join(rng.choice(segs) for _ in range(rng.randint(0, 5)))
        fl = rng.choice(flag_sets) if rng.random() < 0.3 else [rng.choice([0, 1])]
        cases.append((42, [ents, fl, ".", cwd, s]))
        meta.append((t, ents, fl, cwd, s))
    out = ctx.model(cases)
    by_normal = {}
    for (t, ents, fl, cwd, s), mo in zip(meta, out):
        ctx.case(("deco", tuple(t), tuple(fl), cwd, s))
        im, replies, res = run_decorator(loop, ents, fl, cwd, s)
        ctx.traces_impl += 1
        if mo[0] != 0 or mo[1][0] != im:
            ctx.disagree("PathPermissions", [t, fl, cwd, s], mo, im)
        # oracle: decision by the first listed flag of the nearest entry of the NORMAL FORM
        norm = py_normalize(cwd, s)
        want_idx = py_nearest([entry_parts(p) for p in t], norm)
        if fl:
            allowed = True if want_idx < 0 else bool(ents[want_idx][2 + fl[0]])
            want = 0 if allowed else 550
            if im != want or (im == 550 and (replies != [("550", "permission denied")] or res is not True)):
                ctx.violation(
                    "PathPermissions decided differently from the nearest entry of the resolved path",
                    {"key": "c04-decision", "table": ents, "flags": fl, "cwd": cwd, "path": s, "got": im, "want": want},
                )
            key = (tuple(map(tuple, ents)), tuple(fl), tuple(norm))
            if by_normal.setdefault(key, im) != im:
                ctx.violation("two spellings of one location got different decisions", {"key": "c04-alias", "table": ents, "flags": fl, "cwd": cwd, "path": s})
    ctx.count("decorator_cases", n)
    xcheck.extend((42, a, mo) for (_, a), mo in list(zip(cases, out))[:30])
    loop.close()


# ---------------------------------------------------------------- wire level
TREE = {"pub": {"f": b"pub-f", "sub": {"g": b"g"}}, "priv": {"f": b"priv-f", "d": {}}, "rw": {"f": b"rw-f", "d": {}}, "top": b"top"}
WIRE_TABLES = [
    [("/", True, False), ("/rw", True, True), ("/priv", False, False)],
    [("/priv", False, True), ("/", True, True), ("/pub/sub", True, False), ("/pub", False, False)],
    [("/rw", True, True), ("/", False, False), ("/rw", False, False), ("/rw/d", False, True)],
    [("/", True, True)],
    [("/pub", True, False), ("pub", False, False), ("//priv", False, False)],
]
# verb -> (flag index, needs PASV, argument kind)
VERBS = {
    "CWD": (0, False, "dir"), "LIST": (0, True, "any"), "MLSD": (0, True, "any"), "MLST": (0, False, "any"),
    "RETR": (0, True, "file"), "MKD": (1, False, "new"), "RMD": (1, False, "dir"), "DELE": (1, False, "file"),
    "RNFR": (1, False, "any"), "STOR": (1, True, "new"), "APPE": (1, True, "new"),
}
TARGETS = {
    "dir": ["/pub", "/pub/sub", "/priv", "/priv/d", "/rw", "/rw/d", "/"],
    "file": ["/pub/f", "/pub/sub/g", "/priv/f", "/rw/f", "/top"],
    "new": ["/pub/new", "/priv/new", "/rw/new", "/rw/d/new", "/new", "/pub/sub/new"],
}
TARGETS["any"] = TARGETS["dir"][:4] + TARGETS["file"][:3]


def aliases(rng, target, cwd):
    """spellings of the same absolute target as seen from cwd"""
    parts = [x for x in target.split("/") if x]
    cparts = [x for x in cwd.split("/") if x]
    rel = "/".join([".."] * len(cparts) + parts) or "."
    out = [target, "/" + "/./".join(parts) if parts else "/.", "//" + "/".join(parts) + "/", rel, "/zz/../" + "/".join(parts)]
    out.append("/".join([".."] * (len(cparts) + 3) + parts) or "..")
    return out


async def wire_table(ctx, table, rng, budget):
    perms = [aioftp.Permission(p, readable=r, writable=w) for p, r, w in table]
    users = [aioftp.User(permissions=perms)]
    ents = [entry_parts(p) for p, _, _ in table]
    n = 0
    async with wire.Pair(users, TREE) as p:
        cwd = "/"
        combos = [(v, t) for v, (fi, pasv, kind) in VERBS.items() for t in TARGETS[kind]]
        rng.shuffle(combos)
        for verb, target in combos[:budget]:
            fi, pasv, kind = VERBS[verb]
            # move somewhere readable now and then so that relative spellings are exercised from several cwds
            if rng.random() < 0.3:
                cand = rng.choice(["/", "/pub", "/rw/d", "/pub/sub", "/rw"])
                code, _ = await p.raw("CWD " + cand)
                if code == "250":
                    cwd = cand
            for arg in aliases(rng, target, cwd)[: 6 if ctx.tier == "thorough" else 3]:
                norm = py_normalize(cwd, arg)
                idx = py_nearest(ents, norm)
                allowed = True if idx < 0 else bool(table[idx][1 + fi])
                if not allowed or not pasv:
                    if pasv:
                        await p.raw("PASV")
                    before = p.tree()
                    code, info = await p.raw(f"{verb} {arg}")
                    after_cwd = (await p.raw("PWD"))[1][0].strip().strip('"')
                    ctx.case(("wire", tuple(table), verb, cwd, arg))
                    ctx.traces_impl += 1
                    n += 1
                    inert = p.tree() == before and after_cwd == cwd
                    if not allowed and (code != "550" or not inert):
                        ctx.violation(
                            "a denied request was not answered 550 or changed tree/cwd",
                            {"key": f"c04-wire-deny-{verb.lower()}", "table": table, "verb": verb, "cwd": cwd, "arg": arg, "code": code, "info": info, "inert": inert},
                        )
                    if allowed and code == "550" and "permission denied" in " ".join(info):
                        ctx.violation(
                            "an allowed request was refused with 'permission denied'",
                            {"key": f"c04-wire-allow-{verb.lower()}", "table": table, "verb": verb, "cwd": cwd, "arg": arg, "code": code, "info": info},
                        )
                    if verb == "CWD" and code == "250":
                        cwd = "/" + "/".join(norm)
                    if code[0] in "23" and verb in ("MKD", "RMD", "DELE"):
                        # undo, so that every case sees the same tree: restart the pair is costly; restore directly
                        p.server.path_io_factory.state[:] = wire.mem_state(TREE)
        # RNTO (needs an accepted RNFR first) and CDUP
        for src, dst in [("/rw/f", "/pub/moved"), ("/rw/f", "/rw/moved"), ("/rw/f", "/priv/d/moved"), ("/rw/f", "/rw/d/../../pub/m2")]:
            p.server.path_io_factory.state[:] = wire.mem_state(TREE)
            code, _ = await p.raw("RNFR " + src)
            if code != "350":
                continue
            norm = py_normalize(cwd, dst)
            idx = py_nearest(ents, norm)
            allowed = True if idx < 0 else bool(table[idx][2])
            before = p.tree()
            code, info = await p.raw("RNTO " + dst)
            n += 1
            ctx.case(("wire-rnto", tuple(table), dst))
            if not allowed and (code != "550" or p.tree() != before):
                ctx.violation("a denied RNTO was not 550 or changed the tree", {"key": "c04-wire-deny-rnto", "table": table, "dst": dst, "code": code})
            if allowed and code != "250":
                ctx.violation("an allowed RNTO was refused", {"key": "c04-wire-allow-rnto", "table": table, "dst": dst, "code": code, "info": info})
        p.server.path_io_factory.state[:] = wire.mem_state(TREE)
        for start in ["/pub/sub", "/rw/d", "/pub"]:
            code, _ = await p.raw("CWD " + start)
            if code != "250":
                continue
            parent = "/" + "/".join(start.split("/")[1:-1])
            idx = py_nearest(ents, [x for x in parent.split("/") if x])
            allowed = True if idx < 0 else bool(table[idx][1])
            code, info = await p.raw("CDUP")
            now = (await p.raw("PWD"))[1][0].strip().strip('"')
            n += 1
            ctx.case(("wire-cdup", tuple(table), start))
            if (not allowed and (code != "550" or now != start)) or (allowed and (code != "250" or now != parent)):
                ctx.violation("CDUP not governed by the parent's entry", {"key": "c04-wire-cdup", "table": table, "from": start, "code": code, "cwd": now})
    return n


def stream_wire(ctx):
    rng = ctx.rng
    total = 0
    budget = 200 if ctx.tier == "thorough" else 48
    for table in WIRE_TABLES:
        total += wire.run(wire_table(ctx, table, rng, budget), timeout=600)
    ctx.count("wire_requests", total)
    ctx.sample({"stream": "wire", "table": WIRE_TABLES[1], "verbs": sorted(VERBS) + ["RNTO", "CDUP"]})


def correspondence(ctx):
    ctx.extra["rule"] = (
        "streams: (lookup) ALL tables of <= 4 entries over the entry-path "
        "universe {/, /a, /a/b, /a/b/c, /b, a (relative), //a, /a/ (respelled duplicate)} x 14 query paths of depth <= 4, with "
        "pseudo-random flags and identity compared by list index, plus random tables of 5-14 entries with duplicates; (decorator) "
        "the real PathPermissions wrapper around a recording body with real Connection/User/get_paths on random tables x cwds x "
        "spellings x flag lists (also 0 and 2 flags); (wire) real Server+Client over loopback with MemoryPathIO: every "
        "permission-checked verb x targets x aliases x cwds on 5 tables, tree and PWD compared before/after a refusal. The "
        "independent longest-prefix oracle runs on every real output. Non-trivial = distinct input."
    )
    xcheck = []
    stream_lookup(ctx, xcheck)
    stream_decorator(ctx, xcheck)
    stream_wire(ctx)
    ok, out = core.vm_crosscheck(EXTRACT, xcheck[:100])
    ctx.extra["vm_compute_crosscheck"] = {"cases": len(xcheck[:100]), "agree": ok}
    if not ok:
        ctx.obligation_broken("extraction-crosscheck", out)


def search(ctx):
    """a broken obligation (e.g. check_perm_table on today's table) points at a verb: the wire stream
    above already exercises every permission-checked verb; rerun it with the thorough budget"""
    if ctx.violations or ctx.tier == "thorough":
        return
    try:
        ctx.tier = "thorough"
        stream_wire(ctx)
    except Exception as e:
        ctx.notes.append(f"search aborted: {e!r}")
    finally:
        ctx.tier = "quick"


def replay(ctx, data):
    r = data.get("replay", {})
    key = r.get("key", "")
    if key == "c04-lookup":
        perms = [aioftp.Permission(p, readable=rr, writable=w) for _, p, rr, w in r["table"]]
        user = aioftp.User(permissions=perms or None)
        if not perms:
            user.permissions = []
        got = run_coro(None, user.get_permissions(pathlib.PurePosixPath(r["path"])))
        idx = next((i for i, p in enumerate(perms) if p is got), -1)
        want = py_nearest([entry_parts(p) for _, p, _, _ in r["table"]], [x for x in r["path"].split("/") if x])
        print("got index", idx, "want", want)
        return idx == want
    if key in ("c04-decision", "c04-alias"):
        loop = asyncio.new_event_loop()
        asyncio.set_event_loop(loop)
        ents = r["table"]
        im, replies, res = run_decorator(loop, ents, r["flags"], r["cwd"], r["path"])
        norm = py_normalize(r["cwd"], r["path"])
        idx = py_nearest([entry_parts(e[1]) for e in ents], norm)
        allowed = True if idx < 0 else bool(ents[idx][2 + r["flags"][0]])
        print("decision", im, "replies", replies, "nearest entry of", norm, "is", idx, "allowed", allowed)
        loop.close()
        return im == (0 if allowed else 550)
    if key.startswith("c04-wire-deny-") or key.startswith("c04-wire-allow-"):
        async def one():
            table = [tuple(x) for x in r["table"]]
            perms = [aioftp.Permission(p, readable=rr, writable=w) for p, rr, w in table]
            async with wire.Pair([aioftp.User(permissions=perms)], TREE) as p:
                if r.get("cwd", "/") != "/":
                    await p.raw("CWD " + r["cwd"])
                if "verb" in r:
                    if VERBS[r["verb"]][1]:
                        await p.raw("PASV")
                    before = p.tree()
                    code, info = await p.raw(f"{r['verb']} {r['arg']}")
                    print("reply", code, info, "tree unchanged:", p.tree() == before)
                    norm = py_normalize(r.get("cwd", "/"), r["arg"])
                    idx = py_nearest([entry_parts(x[0]) for x in table], norm)
                    allowed = True if idx < 0 else bool(table[idx][1 + VERBS[r["verb"]][0]])
                    if not allowed:
                        return code == "550" and p.tree() == before
                    return not (code == "550" and "permission denied" in " ".join(info))
            return False
        return wire.run(one())
    print("replay payload:", data)
    return False
