"""C04 — read/write permissions follow the nearest-ancestor rule on the resolved path.

Correspondence of coq/Model/Perm.v with the real User.get_permissions and the real
PathPermissions decorator; independent longest-prefix oracle on the real outputs; wire-level
check over real loopback sessions that a denied request is 550 and inert."""
import asyncio
import itertools
import pathlib

import aioftp
from aioftp import server as aserver

from .. import core, ftpsim, simnet, sx, wire
from .c02 import py_normalize, rec_factory

ID = "C04"
EXTRACT = "ExC04"
TECHNIQUE = (
    "Coq proof (first-minimum lemma for min-with-key, one-pass specification, composition with the C02 resolver) about an "
    "executable model of Permission.is_parent / User.get_permissions / the PathPermissions wrapper, plus a checker over the "
    "regenerated dispatch facts proved sound; tied to the code by exhaustive differential correspondence on small tables and "
    "wire-level sessions over loopback"
)
LEVEL_TEXT = (
    "C04_get_permissions_is_nearest, C04_first_deepest, C04_default, C04_selected_is_ancestor_entry, "
    "C04_foreign_anchor_never_matches (all tables, all paths), C04_lookup_on_resolved and C04_alias_invariant (composition "
    "with the C02 resolver: every base, every absolute cwd, every string), C04_deny_iff, C04_check_perm_table_sound (every "
    "accepted dispatch table) and the instance obligations C04_table_checked / C04_verbs_today on the regenerated "
    "Gen/Dispatch.v are proved (Closed under the global context). Requests carried out later than they are authorised "
    "(LIST/MLSD/RETR/STOR/APPE: 150, then a worker when the data connection arrives): C04_transfer_target_is_authorised (for "
    "every state at the request, every sequence of CWD/CDUP/re-login/other commands in between and every argument, the worker "
    "hands to the backend exactly base ++ normalize(cwd0, arg), the location the permission was looked up for), "
    "C04_check_worker_paths_sound and the instance obligations C04_workers_use_authorised_path / C04_transfer_target_today on the "
    "regenerated Gen/Resolve.v (the workers use the handler's real_path, bound once by get_paths(connection, rest) before the task is "
    "created; they never resolve again); C04_late_resolution_breaks shows the premise is needed. Histories with CWD/CDUP and "
    "re-logins (also completed by USER alone) between requests: C04_requests_use_current_table (every request of every history is "
    "decided by the nearest entry, in the table of the user logged in now, of normalize(cwd now, arg)); closed checks on the "
    "regenerated source: C04_lookup_asks_current_user (the wrapper asks connection.user on every call, no memo) and "
    "C04_check_and_use_not_separated (PathPermissions is the innermost decorator and every body starts with its own get_paths, so "
    "no suspension separates decision and use). The session-level statement (a "
    "denied request queues exactly one 550 and leaves tree and cwd unchanged) is validated at wire level only here (also with "
    "commands between 150 and the data connection) and is left to the Session model."
)
LEVEL_NOTE = (
    "Trusted: Coq kernel, tools/py2v (decorator stacks), extraction cross-checked with vm_compute, harness. Modelled, not "
    "verified: pathlib (see C02), Python's min(key=, default=) returning the first minimum. Partial: deny_is_550_and_inert is "
    "proved at function level (decision + decorator order facts), validated over loopback sessions, not proved over Session."
)
TRUSTED = [
    "Python's built-in min(iterable, key=, default=) returns the first element with the least key (modelled as min_by; exercised by "
    "the exhaustive tables with duplicated and tied entries)",
    "pathlib model of C02 (Lib/PosixPath.v)",
    "tools/py2v/gen_resolve.py (syntactic: which names the nested *_worker functions bind, where the handler binds real_path) and Python's "
    "closure semantics (a free variable of a nested function denotes the enclosing frame's binding)",
]
USES_GEN = ["Dispatch", "Resolve"]
ASSUMPTIONS = [
    "the session-level half (exactly one 550, tree and cwd unchanged) is validated over real loopback sessions, its proof is a TODO of the Session model",
    "permission tables are lists of aioftp.Permission with PurePosixPath paths; custom user managers are outside",
]

ENTRY_PATHS = ["/", "/a", "/a/b", "/a/b/c", "/b", "a", "//a", "/a/"]
QUERY_PATHS = ["/", "/a", "/b", "/c", "/a/a", "/a/b", "/a/c", "/b/a", "/a/b/c", "/a/b/a", "/a/b/c/d", "/b/a/b", "/ab", "/a/bc"]


def py_nearest(entries, qparts):
    """independent oracle: entries [(parts or None, ...)] -> index of the first deepest ancestor-or-equal entry, -1 if none.
    qparts: list of components of an absolute normalised path."""
    best, best_len = -1, -1
    for i, e in enumerate(entries):
        ep = e
        if ep is None:
            continue
        if len(ep) <= len(qparts) and qparts[: len(ep)] == ep:
            if len(ep) > best_len:
                best, best_len = i, len(ep)
    return best


def entry_parts(p):
    """components of an entry path if it is '/'-anchored (exactly one leading slash rule), else None (never matches)"""
    if not p.startswith("/") or (p.startswith("//") and not p.startswith("///")):
        return None
    return [x for x in p.split("/") if x not in ("", ".")]


def run_coro(loop, coro):
    """get_permissions is `async def` without awaits: one send() finishes it; anything else goes to the loop"""
    try:
        coro.send(None)
    except StopIteration as e:
        return e.value
    coro.close()
    raise RuntimeError("get_permissions awaited something: drive it on a loop")


def flags_for(i, salt):
    v = (i * 7 + salt * 13) % 4
    return bool(v & 1), bool(v & 2)


def stream_lookup(ctx, xcheck):
    loop = asyncio.new_event_loop()
    rng = ctx.rng
    thorough = ctx.tier == "thorough"
    tables = []
    for n in range(0, 5):
        for combo in itertools.product(range(len(ENTRY_PATHS)), repeat=n):
            tables.append([ENTRY_PATHS[i] for i in combo])
    ctx.count("tables_exhaustive_le4", len(tables))
    ctx.count("tables_run", len(tables))
    cases, meta = [], []
    for ti, t in enumerate(tables):
        ents = [[i, p] + list(flags_for(i, ti)) for i, p in enumerate(t)]
        for q in QUERY_PATHS:
            cases.append((40, [ents, q]))
            meta.append((t, ents, q))
    # random larger tables, deeper paths, odd spellings
    names = ["a", "b", "c", "..", "a b", "é"]
    def rpath():
        r = rng.random()
        pre = "/" if r < 0.85 else ("" if r < 0.93 else "//")
        return pre + "/".join(rng.choice(names) for _ in range(rng.randint(0, 5))) + ("/" if rng.random() < 0.1 else "")
    for k in range(8000 if thorough else 1500):
        t = [rpath() for _ in range(rng.randint(5, 12))]
        if rng.random() < 0.5:
            t += rng.sample(t, 2)  # duplicates
        ents = [[i, p] + list(flags_for(i, k)) for i, p in enumerate(t)]
        q = "/" + "/".join(rng.choice(names[:3] + names[4:]) for _ in range(rng.randint(0, 6)))
        cases.append((40, [ents, q]))
        meta.append((t, ents, q))
    ctx.count("tables_random_large", 8000 if thorough else 1500)
    out = ctx.model(cases)
    spec_out = ctx.model([(41, a) for _, a in cases[:: 7]])
    for (fn, a), mo, so in zip(cases[:: 7], out[:: 7], spec_out):
        if mo != so:
            ctx.disagree("nearest-vs-get_permissions(model)", a, mo, so)
    for (t, ents, q), mo in zip(meta, out):
        ctx.case(("lookup", tuple(t), q))
        perms = [aioftp.Permission(p, readable=r, writable=w) for _, p, r, w in ents]
        user = aioftp.User(permissions=perms) if perms else aioftp.User(permissions=None)
        if not perms:
            user.permissions = []
        got = run_coro(loop, user.get_permissions(pathlib.PurePosixPath(q)))
        ctx.traces_impl += 1
        idx = next((i for i, p in enumerate(perms) if p is got), -1)
        im = [idx, got.readable, got.writable, str(got.path)]
        mc = [mo[0], bool(mo[2]), bool(mo[3]), None]
        if im[:3] != mc[:3]:
            ctx.disagree("get_permissions", [t, q], mc, im)
        # independent oracle on the implementation's answer
        want = py_nearest([entry_parts(p) for p in t], [x for x in q.split("/") if x])
        if idx != want or (idx == -1 and not (got.readable and got.writable and str(got.path) == "/")):
            ctx.violation(
                "get_permissions did not return the first deepest ancestor entry",
                {"key": "c04-lookup", "table": ents, "path": q, "got_index": idx, "want_index": want},
            )
    xcheck.extend((40, a, mo) for (_, a), mo in list(zip(cases, out))[:: max(1, len(cases) // 40)][:40])
    ctx.sample({"stream": "lookup", "table": meta[len(meta) // 2][0], "path": meta[len(meta) // 2][2]})
    loop.close()


class FakeServer:
    """what the wrapper needs from `cls`: the real get_paths"""

    get_paths = staticmethod(aioftp.Server.get_paths)


def run_decorator(loop, ents, fl, cwd, s):
    """the real PathPermissions wrapper around a recording body: (0 body ran | 550 | 1 fell through, replies, result)"""
    perms = [aioftp.Permission(p, readable=r, writable=w) for _, p, r, w in ents]
    user = aioftp.User(permissions=perms or None)
    if not perms:
        user.permissions = []
    replies, called = [], []
    conn = aioftp.Connection(current_directory=pathlib.PurePosixPath(cwd), user=user, response=lambda *a: replies.append(a))

    async def body(cls, connection, rest):
        called.append(rest)
        return "BODY"

    names = [["readable", "writable"][f] for f in fl]
    wrapped = aserver.PathPermissions(*names)(body)
    try:
        res = loop.run_until_complete(wrapped(FakeServer, conn, s))
    except Exception as e:  # noqa: BLE001 - the (mutated) wrapper raised: an observation, the run goes on
        return f"raised {type(e).__name__}: {e}", replies, None
    if called:
        im = 0
    elif replies:
        im = 550 if replies[0][0] == "550" else -2
    else:
        im = 1
    return im, replies, res


def stream_decorator(ctx, xcheck):
    """the real PathPermissions wrapper around a recording body, on spellings and cwds"""
    loop = asyncio.new_event_loop()
    asyncio.set_event_loop(loop)
    rng = ctx.rng
    n = 6000 if ctx.tier == "thorough" else 1500
    segs = ["a", "b", "c", "..", ".", "", "a b"]
    cwds = ["/", "/a", "/a/b", "/b/c", "/a/../b"]
    flag_sets = [[0], [1], [0, 1], [1, 0], []]
    cases, meta = [], []
    for k in range(n):
        t = [rng.choice(ENTRY_PATHS[:5] + ["/a/b/c/d", "/c", "a"]) for _ in range(rng.randint(0, 5))]
        ents = [[i, p] + list(flags_for(i, k)) for i, p in enumerate(t)]
        cwd = rng.choice(cwds)
        s = rng.choice(["", "/", "//", ""]) + "/".join(rng.choice(segs) for _ in range(rng.randint(0, 5)))
        fl = rng.choice(flag_sets) if rng.random() < 0.3 else [rng.choice([0, 1])]
        cases.append((42, [ents, fl, ".", cwd, s]))
        meta.append((t, ents, fl, cwd, s))
    out = ctx.model(cases)
    by_normal = {}
    n_raised = 0
    for (t, ents, fl, cwd, s), mo in zip(meta, out):
        ctx.case(("deco", tuple(t), tuple(fl), cwd, s))
        im, replies, res = run_decorator(loop, ents, fl, cwd, s)
        ctx.traces_impl += 1
        if isinstance(im, str):
            # the wrapper raised on a Connection built like the repository's own tests build it: recorded, not fatal
            n_raised += 1
            if n_raised <= 3:
                ctx.disagree("PathPermissions", [t, fl, cwd, s], mo, im)
            continue
        if mo[0] != 0 or mo[1][0] != im:
            ctx.disagree("PathPermissions", [t, fl, cwd, s], mo, im)
        # oracle: decision by the first listed flag of the nearest entry of the NORMAL FORM
        norm = py_normalize(cwd, s)
        want_idx = py_nearest([entry_parts(p) for p in t], norm)
        if fl:
            allowed = True if want_idx < 0 else bool(ents[want_idx][2 + fl[0]])
            want = 0 if allowed else 550
            if im != want or (im == 550 and (replies != [("550", "permission denied")] or res is not True)):
                ctx.violation(
                    "PathPermissions decided differently from the nearest entry of the resolved path",
                    {"key": "c04-decision", "table": ents, "flags": fl, "cwd": cwd, "path": s, "got": im, "want": want},
                )
            key = (tuple(map(tuple, ents)), tuple(fl), tuple(norm))
            if by_normal.setdefault(key, im) != im:
                ctx.violation("two spellings of one location got different decisions", {"key": "c04-alias", "table": ents, "flags": fl, "cwd": cwd, "path": s})
    ctx.count("decorator_cases", n)
    if n_raised:
        ctx.count("decorator_cases_wrapper_raised", n_raised)
    xcheck.extend((42, a, mo) for (_, a), mo in list(zip(cases, out))[:30])
    loop.close()


# ---------------------------------------------------------------- wire level
TREE = {"pub": {"f": b"pub-f", "sub": {"g": b"g"}}, "priv": {"f": b"priv-f", "d": {}}, "rw": {"f": b"rw-f", "d": {}}, "top": b"top"}
WIRE_TABLES = [
    [("/", True, False), ("/rw", True, True), ("/priv", False, False)],
    [("/priv", False, True), ("/", True, True), ("/pub/sub", True, False), ("/pub", False, False)],
    [("/rw", True, True), ("/", False, False), ("/rw", False, False), ("/rw/d", False, True)],
    [("/", True, True)],
    [("/pub", True, False), ("pub", False, False), ("//priv", False, False)],
]
# verb -> (flag index, needs PASV, argument kind)
VERBS = {
    "CWD": (0, False, "dir"), "LIST": (0, True, "any"), "MLSD": (0, True, "any"), "MLST": (0, False, "any"),
    "RETR": (0, True, "file"), "MKD": (1, False, "new"), "RMD": (1, False, "dir"), "DELE": (1, False, "file"),
    "RNFR": (1, False, "any"), "STOR": (1, True, "new"), "APPE": (1, True, "new"),
}
TARGETS = {
    "dir": ["/pub", "/pub/sub", "/priv", "/priv/d", "/rw", "/rw/d", "/"],
    "file": ["/pub/f", "/pub/sub/g", "/priv/f", "/rw/f", "/top"],
    "new": ["/pub/new", "/priv/new", "/rw/new", "/rw/d/new", "/new", "/pub/sub/new"],
}
TARGETS["any"] = TARGETS["dir"][:4] + TARGETS["file"][:3]


def aliases(rng, target, cwd):
    """spellings of the same absolute target as seen from cwd"""
    parts = [x for x in target.split("/") if x]
    cparts = [x for x in cwd.split("/") if x]
    rel = "/".join([".."] * len(cparts) + parts) or "."
    out = [target, "/" + "/./".join(parts) if parts else "/.", "//" + "/".join(parts) + "/", rel, "/zz/../" + "/".join(parts)]
    out.append("/".join([".."] * (len(cparts) + 3) + parts) or "..")
    return out


async def wire_table(ctx, table, rng, budget):
    perms = [aioftp.Permission(p, readable=r, writable=w) for p, r, w in table]
    users = [aioftp.User(permissions=perms)]
    ents = [entry_parts(p) for p, _, _ in table]
    n = 0
    async with wire.Pair(users, TREE) as p:
        cwd = "/"
        combos = [(v, t) for v, (fi, pasv, kind) in VERBS.items() for t in TARGETS[kind]]
        rng.shuffle(combos)
        for verb, target in combos[:budget]:
            fi, pasv, kind = VERBS[verb]
            # move somewhere readable now and then so that relative spellings are exercised from several cwds
            if rng.random() < 0.3:
                cand = rng.choice(["/", "/pub", "/rw/d", "/pub/sub", "/rw"])
                code, _ = await p.raw("CWD " + cand)
                if code == "250":
                    cwd = cand
            for arg in aliases(rng, target, cwd)[: 6 if ctx.tier == "thorough" else 3]:
                norm = py_normalize(cwd, arg)
                idx = py_nearest(ents, norm)
                allowed = True if idx < 0 else bool(table[idx][1 + fi])
                if not allowed or not pasv:
                    if pasv:
                        await p.raw("PASV")
                    before = p.tree()
                    code, info = await p.raw(f"{verb} {arg}")
                    after_cwd = (await p.raw("PWD"))[1][0].strip().strip('"')
                    ctx.case(("wire", tuple(table), verb, cwd, arg))
                    ctx.traces_impl += 1
                    n += 1
                    inert = p.tree() == before and after_cwd == cwd
                    if not allowed and (code != "550" or not inert):
                        ctx.violation(
                            "a denied request was not answered 550 or changed tree/cwd",
                            {"key": f"c04-wire-deny-{verb.lower()}", "table": table, "verb": verb, "cwd": cwd, "arg": arg, "code": code, "info": info, "inert": inert},
                        )
                    if allowed and code == "550" and "permission denied" in " ".join(info):
                        ctx.violation(
                            "an allowed request was refused with 'permission denied'",
                            {"key": f"c04-wire-allow-{verb.lower()}", "table": table, "verb": verb, "cwd": cwd, "arg": arg, "code": code, "info": info},
                        )
                    if verb == "CWD" and code == "250":
                        cwd = "/" + "/".join(norm)
                    if code[0] in "23" and verb in ("MKD", "RMD", "DELE"):
                        # undo, so that every case sees the same tree: restart the pair is costly; restore directly
                        p.server.path_io_factory.state[:] = wire.mem_state(TREE)
        # RNTO (needs an accepted RNFR first) and CDUP
        for src, dst in [("/rw/f", "/pub/moved"), ("/rw/f", "/rw/moved"), ("/rw/f", "/priv/d/moved"), ("/rw/f", "/rw/d/../../pub/m2")]:
            p.server.path_io_factory.state[:] = wire.mem_state(TREE)
            code, _ = await p.raw("RNFR " + src)
            if code != "350":
                continue
            norm = py_normalize(cwd, dst)
            idx = py_nearest(ents, norm)
            allowed = True if idx < 0 else bool(table[idx][2])
            before = p.tree()
            code, info = await p.raw("RNTO " + dst)
            n += 1
            ctx.case(("wire-rnto", tuple(table), dst))
            if not allowed and (code != "550" or p.tree() != before):
                ctx.violation("a denied RNTO was not 550 or changed the tree", {"key": "c04-wire-deny-rnto", "table": table, "dst": dst, "code": code})
            if allowed and code != "250":
                ctx.violation("an allowed RNTO was refused", {"key": "c04-wire-allow-rnto", "table": table, "dst": dst, "code": code, "info": info})
        p.server.path_io_factory.state[:] = wire.mem_state(TREE)
        for start in ["/pub/sub", "/rw/d", "/pub"]:
            code, _ = await p.raw("CWD " + start)
            if code != "250":
                continue
            parent = "/" + "/".join(start.split("/")[1:-1])
            idx = py_nearest(ents, [x for x in parent.split("/") if x])
            allowed = True if idx < 0 else bool(table[idx][1])
            code, info = await p.raw("CDUP")
            now = (await p.raw("PWD"))[1][0].strip().strip('"')
            n += 1
            ctx.case(("wire-cdup", tuple(table), start))
            if (not allowed and (code != "550" or now != start)) or (allowed and (code != "250" or now != parent)):
                ctx.violation("CDUP not governed by the parent's entry", {"key": "c04-wire-cdup", "table": table, "from": start, "code": code, "cwd": now})
    return n



# ---------------------------------------------------------------- wire level: commands between 150 and the data connection
# LIST / MLSD / RETR / STOR / APPE answer 150 and a worker task does the work when the data connection arrives.
# Whatever the session does in between (CWD, CDUP, another USER/PASS), the object read or written must be the one
# the permission lookup was made on, and a denied request must stay inert.
IL_USERS = [("u", "p", "/", "/"), ("v", "q", "/", "/"), ("w", "r", "/rw", "/")]
IL_VERBS = {"STOR": 1, "APPE": 1, "RETR": 0, "LIST": 0, "MLSD": 0}
IL_TARGETS = {
    "STOR": [("/rw", "new"), ("/rw", "f"), ("/rw/d", "new"), ("/rw", "d/new"), ("/rw/d", "../new"), ("/pub", "new"), ("/", "rw/new"), ("/pub/sub", "../../rw/new"), ("/priv/d", "new")],
    "RETR": [("/rw", "f"), ("/pub", "f"), ("/pub", "sub/g"), ("/pub/sub", "g"), ("/pub/sub", "../f"), ("/", "top"), ("/rw/d", "../f"), ("/priv", "f"), ("/", "priv/f")],
    "LIST": [("/", ""), ("/pub", ""), ("/pub", "sub"), ("/pub/sub", ".."), ("/rw", "d"), ("/rw/d", "."), ("/", "priv"), ("/priv", "d"), ("/rw", "../pub")],
}
IL_TARGETS["APPE"] = IL_TARGETS["STOR"]
IL_TARGETS["MLSD"] = IL_TARGETS["LIST"]
IL_BETWEEN = [
    [], [("CWD", "/priv/d")], [("CWD", "/pub")], [("CWD", "/rw/d")], [("CWD", "/")], [("CWD", "/rw")], [("CWD", "/pub/sub")], [("CWD", "/priv")], [("CDUP", "")],
    [("CDUP", ""), ("CDUP", "")], [("USER", "v"), ("PASS", "q")], [("USER", "w"), ("PASS", "r")], [("USER", "v")], [("USER", "nobody")],
    [("CWD", "/pub/sub"), ("CDUP", "")], [("PWD", "")], [("USER", "w"), ("PASS", "r"), ("CWD", "d")], [("CWD", "/rw"), ("USER", "v"), ("PASS", "q")],
]
IL_PAYLOAD = b"<uploaded>"


def tree_get(tree, parts):
    t = tree
    for p in parts:
        if not isinstance(t, dict) or p not in t:
            return None
        t = t[p]
    return t


def tree_put(tree, parts, value):
    """copy of tree with tree[parts] = value (parents must exist)"""
    if not parts:
        return value
    out = dict(tree)
    out[parts[0]] = tree_put(tree.get(parts[0], {}), parts[1:], value)
    return out


def il_tables(ti):
    """permission tables of the three users for table index ti"""
    t_u = WIRE_TABLES[ti]
    t_v = WIRE_TABLES[(ti + 1) % len(WIRE_TABLES)]
    t_w = [("/", True, True), ("/d", False, False)]
    return [t_u, t_v, t_w]


def run_interleave(ti, verb, cwd0, arg, between, data_first=False):
    """one session on simnet: login u; CWD cwd0; PASV; VERB arg; <between>; data connection; -> observation dict.
    An exception inside the (mutated) implementation is part of the observation."""
    log = []
    ob = {"between": []}

    async def main(net):
        tabs = il_tables(ti)
        users = [aioftp.User(l, p, base_path=b, home_path=h, permissions=[aioftp.Permission(x, readable=r, writable=w) for x, r, w in tab])
                 for (l, p, b, h), tab in zip(IL_USERS, tabs)]
        server = aioftp.Server(users, path_io_factory=aioftp.MemoryPathIO, wait_future_timeout=5)
        server.path_io_factory.state = ftpsim.mem_state(TREE)
        server.path_io_factory.factory = rec_factory(log)
        await server.start("127.0.0.1", ftpsim.PORT)
        raw = await simnet.Raw.connect(net, server.server_port)
        await raw.drain_replies()
        await raw.send("USER u")
        ob["login"] = simnet.final_codes(await raw.send("PASS p"))
        ob["cwd0"] = simnet.final_codes(await raw.send("CWD " + cwd0)) if cwd0 != "/" else ["250"]
        port = ftpsim.parse_passive(await raw.send("PASV"))
        ob["port"] = port
        conn = None
        if data_first and port is not None:
            conn = await net.open_connection("127.0.0.1", port)
            await net.settle()
        mark = len(log)
        lines = await raw.send(f"{verb} {arg}".rstrip())
        ob["codes"], ob["lines"] = simnet.final_codes(lines), lines
        ob["calls_request"] = log[mark:]
        for bv, ba in between:
            bl = await raw.send(f"{bv} {ba}".rstrip())
            ob["between"].append(simnet.final_codes(bl))
        mark = len(log)
        data = b""
        try:
            if conn is None and port is not None:
                conn = await net.open_connection("127.0.0.1", port)
            if conn is not None:
                r, w = conn
                if verb in ("STOR", "APPE"):
                    w.write(IL_PAYLOAD)
                    w.close()
                await net.settle()
                data = bytes(r._buffer)
                if not w.transport.is_closing():
                    w.close()
        except (ConnectionRefusedError, OSError) as e:
            ob["data_error"] = repr(e)
        after = await raw.drain_replies()
        ob["after"] = simnet.final_codes(after)
        ob["data"] = data
        ob["calls_worker"] = log[mark:]
        pw = await raw.send("PWD")
        ob["pwd"] = pw[-1][4:].strip().strip('"') if simnet.final_codes(pw) == ["257"] else None
        ob["ended"] = raw.eof
        ob["tree"] = ftpsim.final_tree(server, "memory")
        await server.close()

    try:
        simnet.run(main)
    except Exception as e:  # noqa: BLE001 - observation, the search goes on
        ob["error"] = repr(e)
    return ob


def il_oracle(ti, verb, cwd0, arg, between, ob):
    """independent statement of the property for one interleaved session -> list of (kind, detail)"""
    if "error" in ob:
        return [("driver-error", ob["error"])]
    if ob.get("cwd0") != ["250"] or ob.get("login") != ["230"] or ob.get("port") is None:
        return []  # the starting directory is not reachable under this table: nothing to say
    table = il_tables(ti)[0]
    ents = [entry_parts(p) for p, _, _ in table]
    fi = IL_VERBS[verb]
    norm = py_normalize(cwd0, arg)
    idx = py_nearest(ents, norm)
    allowed = True if idx < 0 else bool(table[idx][1 + fi])
    tree0 = ftpsim.canon_tree(TREE)
    codes = ob["codes"]
    bad = []
    target = "/" + "/".join(norm)
    if not allowed:
        if codes != ["550"]:
            bad.append(("denied-not-550", f"{verb} {arg!r} from {cwd0} is governed by entry {idx} {table[idx]} (not allowed) but answered {codes}"))
        if ob["tree"] != tree0:
            bad.append(("denied-not-inert", f"refused {verb} {arg!r} from {cwd0}: the tree changed"))
        if ob["data"]:
            bad.append(("denied-not-inert", f"refused {verb} {arg!r} from {cwd0}: {len(ob['data'])} bytes were sent on the data connection"))
        return bad
    if codes == ["550"] and "permission denied" in " ".join(ob["lines"]):
        bad.append(("allowed-refused", f"{verb} {arg!r} from {cwd0} is allowed by entry {idx} but answered 550 permission denied"))
        return bad
    if codes != ["150"]:
        # refused for another reason (missing file, unreachable parent): must be inert
        if ob["tree"] != tree0:
            bad.append(("refused-not-inert", f"{verb} {arg!r} answered {codes} and the tree changed"))
        return bad
    # 150: the worker ran (or failed) after `between`; the object must be the authorised one
    opened = [a[0] for n, a in ob["calls_worker"] if n in ("_open", "list") and a]
    if opened and any(p != target for p in opened):
        bad.append(("wrong-object", f"{verb} {arg!r} authorised as {target!r} (cwd {cwd0}); after {between} the worker handed {opened} to the backend"))
    old = tree_get(tree0, norm)
    if verb in ("STOR", "APPE"):
        if "226" in ob["after"]:
            content = IL_PAYLOAD if verb == "STOR" or not isinstance(old, bytes) else old + IL_PAYLOAD
            want = ftpsim.canon_tree(tree_put(tree0, norm, content))
        else:
            want = None
        if want is not None and ob["tree"] != want:
            bad.append(("wrong-object", f"{verb} {arg!r} authorised as {target!r} (cwd {cwd0}); after {between} and the upload the tree is not the initial one with {target!r} written"))
        if want is None and ob["tree"] != tree0 and tree_get(ob["tree"], norm) == tree_get(tree0, norm):
            bad.append(("wrong-object", f"{verb} {arg!r} authorised as {target!r}: the transfer did not complete ({ob['after']}) but something else in the tree changed"))
    else:
        if ob["tree"] != tree0:
            bad.append(("wrong-object", f"{verb} {arg!r}: a reading transfer changed the tree"))
        if verb == "RETR" and ob["data"] != (old if isinstance(old, bytes) else b"") and "226" in ob["after"]:
            bad.append(("wrong-object", f"RETR {arg!r} authorised as {target!r} (cwd {cwd0}); after {between} the data connection delivered {ob['data']!r}, the file holds {old!r}"))
        if verb in ("LIST", "MLSD") and isinstance(old, dict) and ("226" in ob["after"] or "200" in ob["after"]):
            try:
                names = sorted(n for n, _, _ in ftpsim.parse_listing(ob["data"], verb.lower()))
            except Exception:  # noqa: BLE001
                names = ["<unparsable>"]
            if names != sorted(old):
                bad.append(("wrong-object", f"{verb} {arg!r} authorised as {target!r} (cwd {cwd0}); after {between} the listing shows {names}, the directory holds {sorted(old)}"))
    return bad


def il_model_arg(ti, verb, cwd0, arg, between, ob):
    tabs = il_tables(ti)
    ents = [[i, p, r, w] for i, (p, r, w) in enumerate(tabs[0])]
    bs = []
    for (bv, ba), codes in zip(between, ob["between"]):
        if bv == "CWD":
            bs.append([0, ba, codes == ["250"]])
        elif bv == "CDUP":
            bs.append([1, codes == ["250"]])
        elif bv == "USER" and codes and codes[0] in ("331", "230"):
            k = [u[0] for u in IL_USERS].index(ba)
            bs.append([2, IL_USERS[k][2], IL_USERS[k][3], [[i, p, r, w] for i, (p, r, w) in enumerate(tabs[k])]])
        else:
            bs.append([3])
    return [ents, [IL_VERBS[verb]], "/", cwd0, arg, bs, 0]


def il_cases(rng, thorough):
    cases = []
    for ti in range(len(WIRE_TABLES)):
        for verb in IL_VERBS:
            for cwd0, arg in IL_TARGETS[verb]:
                for between in IL_BETWEEN:
                    cases.append((ti, verb, cwd0, arg, between))
    if thorough:
        return cases
    # quick: every (verb, target, between) triple is run under one table (round-robin), every table sees every verb
    # and every between; plus the no-interleaving baseline of each target under each table
    keep = [c for i, c in enumerate(cases) if (i // len(IL_BETWEEN) + i % len(IL_BETWEEN)) % len(WIRE_TABLES) == c[0] and (i % 3 == 0 or c[4] == [])]
    return keep


def stream_interleave(ctx, xcheck):
    rng = ctx.rng
    cases = il_cases(rng, ctx.tier == "thorough")
    n150 = nden = 0
    margs, mkeep = [], []
    for ti, verb, cwd0, arg, between in cases:
        ctx.case(("interleave", ti, verb, cwd0, arg, repr(between)))
        ctx.traces_impl += 1
        ob = run_interleave(ti, verb, cwd0, arg, [tuple(b) for b in between])
        n150 += ob.get("codes") == ["150"]
        nden += ob.get("codes") == ["550"]
        for kind, detail in il_oracle(ti, verb, cwd0, arg, between, ob)[:2]:
            il_report(ctx, detail, {"key": f"c04-interleave-{verb.lower()}-{kind}", "interleave": True, "table": ti, "verb": verb, "cwd": cwd0,
                                    "arg": arg, "between": [list(b) for b in between]})
        if "error" not in ob and ob.get("cwd0") == ["250"] and ob.get("port") is not None:
            margs.append((43, il_model_arg(ti, verb, cwd0, arg, between, ob)))
            mkeep.append(((ti, verb, cwd0, arg, between), ob))
    out = ctx.model(margs)
    for (case, ob), (fn, a), mo in zip(mkeep, margs, out):
        if mo[0] != 0:
            ctx.disagree("interleave-model", case, mo, "model refused")
            continue
        decision, _entry, wpath, _cwd1 = mo[1]
        codes = ob["codes"]
        if decision == 550 and codes != ["550"]:
            ctx.disagree("interleave-decision", case, 550, codes)
        if decision == 0 and codes == ["550"] and "permission denied" in " ".join(ob["lines"]):
            ctx.disagree("interleave-decision", case, 0, codes)
        opened = [x[0] for n, x in ob["calls_worker"] if n in ("_open", "list") and x]
        if codes == ["150"] and opened and (not wpath or any(p != sx.txt(wpath[0]) for p in opened)):
            ctx.disagree("interleave-worker-path", case, sx.txt(wpath[0]) if wpath else None, opened)
    ctx.count("interleave_sessions", len(cases))
    ctx.count("interleave_150_then_between", n150)
    ctx.count("interleave_refused_550", nden)
    xcheck.extend((fn, a, mo) for (fn, a), mo in list(zip(margs, out))[:: max(1, len(margs) // 10)][:10])
    ctx.sample({"stream": "interleave", "verb": "STOR", "cwd": "/rw", "arg": "new", "between": [["CWD", "/pub"]]})


_IL_REPORTED = {}


def il_report(ctx, what, payload, per_key=2):
    n = _IL_REPORTED.get(payload["key"], 0)
    _IL_REPORTED[payload["key"]] = n + 1
    if n < per_key:
        ctx.violation(what, payload)
    else:
        ctx.count("further_violations_" + payload["key"])


# ---------------------------------------------------------------- wire level: re-logins between requests
# One control connection, several logins (with password, password-less = USER alone answers 230, anonymous); the same
# requests before and after each re-login.  Every request is decided by the table of the user logged in NOW.
SL_REQUESTS = [("CWD", "/priv"), ("CWD", "/pub"), ("CWD", "/rw/d"), ("CWD", "/pub/sub"), ("MLST", "/priv/f"), ("MLST", "/pub/f"), ("MLST", "/rw/f"), ("MLST", "/top"),
               ("MKD", "/new"), ("MKD", "/pub/new"), ("MKD", "/rw/new"), ("MKD", "/priv/d/new"), ("DELE", "/pub/sub/g"), ("DELE", "/priv/f"), ("DELE", "/rw/f"),
               ("RMD", "/rw/d"), ("RMD", "/priv/d"), ("RNFR", "/pub/f"), ("RNFR", "/rw/f"), ("MLST", "f"), ("MKD", "d/n2"), ("CWD", ".."), ("CWD", "/")]
SL_FLAG = {"CWD": 0, "MLST": 0, "MKD": 1, "RMD": 1, "DELE": 1, "RNFR": 1, "RNTO": 1}
# rename with the working directory moved between RNFR and RNTO; `f` exists under /pub, /priv and /rw, `d` under /priv and /rw
SL_RENAMES = [(a, src, b, dst) for a in ("/pub", "/rw", "/priv", "/rw/d") for src in ("f", "d", "../f") for b in ("/rw", "/pub", "/priv", "/")
              for dst in ("/rw/moved", "moved", "/pub/moved", "/rw/d/moved") if a != b]
SL_ANON_TABLE = [("/", True, False), ("/rw", False, False), ("/priv/d", True, True)]


def sl_users(ti):
    """(login name sent, login of the account, password or None, table)"""
    n = len(WIRE_TABLES)
    return [("u", "u", "p", WIRE_TABLES[ti]), ("v", "v", "q", WIRE_TABLES[(ti + 1) % n]), ("guest", "guest", None, WIRE_TABLES[(ti + 2) % n]),
            ("whoever", None, None, SL_ANON_TABLE)]


def run_session(ti, events):
    """events: ("LOGIN", k) | (verb, arg) on one control connection -> per event dict(codes, lines, tree_changed, pwd)"""
    obs = []

    async def main(net):
        us = sl_users(ti)
        users = [aioftp.User(login, pw, base_path="/", home_path="/", permissions=[aioftp.Permission(x, readable=r, writable=w) for x, r, w in tab])
                 for _, login, pw, tab in us]
        server = aioftp.Server(users, path_io_factory=aioftp.MemoryPathIO)
        server.path_io_factory.state = ftpsim.mem_state(TREE)
        await server.start("127.0.0.1", ftpsim.PORT)
        raw = await simnet.Raw.connect(net, server.server_port)
        await raw.drain_replies()
        for ev in events:
            ob = {}
            if ev[0] == "LOGIN":
                name, _, pw, _ = us[ev[1]]
                lines = await raw.send("USER " + name)
                if pw is not None and simnet.final_codes(lines) == ["331"]:
                    lines = await raw.send("PASS " + pw)
                ob["codes"], ob["lines"] = simnet.final_codes(lines), lines
            else:
                before = ftpsim.final_tree(server, "memory")
                lines = await raw.send(f"{ev[0]} {ev[1]}")
                ob["codes"], ob["lines"] = simnet.final_codes(lines), lines
                ob["diff"] = tree_diff(before, ftpsim.final_tree(server, "memory"))
                ob["tree_changed"] = bool(ob["diff"])
                pw_lines = await raw.send("PWD")
                ob["pwd"] = pw_lines[-1][4:].strip().strip('"') if simnet.final_codes(pw_lines) == ["257"] else None
            obs.append(ob)
            if raw.eof:
                break
        await server.close()

    try:
        simnet.run(main)
    except Exception as e:  # noqa: BLE001 - observation
        obs.append({"error": repr(e)})
    return obs


def session_oracle(ti, events, obs):
    """-> (problems [(step, kind, detail)], model history)"""
    us = sl_users(ti)
    cur, cwd = None, "/"
    rn = None  # the location named by the pending RNFR: normalize(cwd at the RNFR, its argument)
    problems, mh = [], []
    for k, (ev, ob) in enumerate(zip(events, obs)):
        if "error" in ob:
            problems.append((k, "driver-error", ob["error"]))
            break
        if ev[0] == "LOGIN":
            if ob["codes"] == ["230"]:
                cur, cwd, rn = ev[1], "/", None
                mh.append([0, [2, "/", "/", [[i, p, r, w] for i, (p, r, w) in enumerate(us[cur][3])]]])
            else:
                problems.append((k, "login-failed", f"login as {us[ev[1]][0]} answered {ob['codes']}"))
                break
            continue
        if cur is None:
            continue
        verb, arg = ev
        table = us[cur][3]
        norm = py_normalize(cwd, arg)
        idx = py_nearest([entry_parts(p) for p, _, _ in table], norm)
        allowed = True if idx < 0 else bool(table[idx][1 + SL_FLAG[verb]])
        who = us[cur][0]
        mh.append([1, [SL_FLAG[verb]], arg])
        ob["model_index"] = sum(1 for e in mh if e[0] == 1) - 1
        ents = [entry_parts(p) for p, _, _ in table]
        # whatever is decided: the tree may only change where the current user's nearest entry is writable
        for path in ob.get("diff", []):
            j = py_nearest(ents, list(path))
            if j >= 0 and not table[j][2]:
                problems.append((k, f"modified-unwritable-{verb.lower()}", f"{verb} {arg!r} as {who} (cwd {cwd}): the tree changed at /{'/'.join(path)}, governed by "
                                 f"entry {j} {table[j]} (not writable)"))
        if verb == "RNTO" and ob["codes"] == ["250"]:
            want = sorted([tuple(rn or ()), tuple(norm)])
            if sorted(ob.get("diff", [])) != want and rn != norm:
                problems.append((k, "rnto-wrong-object", f"RNTO {arg!r} as {who} (cwd {cwd}) after an RNFR that named /{'/'.join(rn or [])}: the tree changed at "
                                 f"{['/' + '/'.join(x) for x in ob.get('diff', [])]}, the rename authorised is /{'/'.join(rn or [])} -> /{'/'.join(norm)}"))
        if verb == "RNFR" and ob["codes"] == ["350"]:
            rn = norm
        if verb == "RNTO" and ob["codes"] in (["250"], ["451"]):
            rn = None
        if not allowed:
            if ob["codes"] != ["550"] and not (verb == "RNTO" and ob["codes"] == ["503"]):
                problems.append((k, f"deny-{verb.lower()}", f"{verb} {arg!r} as {who} (cwd {cwd}) is governed by entry {idx} {table[idx]} of {who}'s table (not allowed) but answered {ob['codes']}"))
            if ob.get("tree_changed") or ob.get("pwd") != cwd:
                problems.append((k, f"deny-{verb.lower()}", f"refused {verb} {arg!r} as {who}: tree changed={ob.get('tree_changed')}, working directory {ob.get('pwd')!r} (was {cwd!r})"))
        elif ob["codes"] == ["550"] and "permission denied" in " ".join(ob["lines"]):
            problems.append((k, f"allow-{verb.lower()}", f"{verb} {arg!r} as {who} (cwd {cwd}) is allowed by {who}'s table (entry {idx}) but answered 550 permission denied"))
        if verb == "CWD" and ob["codes"] == ["250"]:
            cwd = "/" + "/".join(norm)
            mh.append([0, [0, arg, True]])
    return problems, mh


def gen_session(rng):
    ev = []
    order = rng.sample(range(4), rng.randint(2, 4))
    if rng.random() < 0.7 and not any(k >= 2 for k in order[1:]):
        order[-1] = rng.choice([2, 3])  # end with a login that needs no PASS
    block = rng.sample(SL_REQUESTS, rng.randint(3, 6))
    for j, k in enumerate(order):
        ev.append(("LOGIN", k))
        if rng.random() < 0.6:
            a, src, b, dst = rng.choice(SL_RENAMES)
            ev.extend([("CWD", a), ("RNFR", src), ("CWD", b), ("RNTO", dst), ("CWD", "/")])
        ev.extend(block)
        if rng.random() < 0.5:
            ev.extend(rng.sample(SL_REQUESTS, 2))
    return ev


def stream_sessions(ctx, xcheck):
    rng = ctx.rng
    n = 600 if ctx.tier == "thorough" else 90
    cases = [(i % len(WIRE_TABLES), gen_session(rng)) for i in range(n)]
    margs, mkeep = [], []
    n_req = n_login = n_nopass = 0
    for ti, events in cases:
        ctx.case(("sessions", ti, repr(events)))
        ctx.traces_impl += 1
        obs = run_session(ti, events)
        problems, mh = session_oracle(ti, events, obs)
        n_req += sum(1 for e in events if e[0] != "LOGIN")
        n_login += sum(1 for e in events if e[0] == "LOGIN")
        n_nopass += sum(1 for e in events[1:] if e[0] == "LOGIN" and e[1] >= 2)
        for k, kind, detail in problems[:2]:
            il_report(ctx, f"session with re-logins, step {k}: {detail}", {"key": f"c04-session-{kind}", "sessions": True, "table": ti, "events": [list(e) for e in events], "step": k})
        if mh and mh[0][0] == 0 and mh[0][1][0] == 2:
            first = mh[0][1]
            margs.append((44, [first[3], "/", "/", mh[1:]]))
            mkeep.append(((ti, events), obs))
    out = ctx.model(margs)
    for (case, obs), mo in zip(mkeep, out):
        if mo[0] != 0:
            ctx.disagree("sessions-model", case, mo, "model refused")
            continue
        for ob in obs:
            mi = ob.get("model_index")
            if mi is None or mi >= len(mo[1]) or not mo[1][mi] or ob["codes"] == ["503"]:
                continue  # 503: RNTO without a pending RNFR is refused before the permission decorator runs
            decision = mo[1][mi][0]
            denied_pd = ob["codes"] == ["550"] and "permission denied" in " ".join(ob["lines"])
            if (decision == 550 and ob["codes"] != ["550"]) or (decision == 0 and denied_pd):
                ctx.disagree("sessions-decision", case, mo[1][mi], ob["codes"])
    ctx.count("session_histories", n)
    ctx.count("session_requests", n_req)
    ctx.count("session_logins", n_login)
    ctx.count("session_relogins_without_pass", n_nopass)
    xcheck.extend((fn, a, mo) for (fn, a), mo in list(zip(margs, out))[:6])
    ctx.sample({"stream": "sessions", "events": [list(e) for e in cases[0][1][:10]]})


# ---------------------------------------------------------------- wire level: pipelined pairs, backend that really suspends
# "<modifying command> <relative arg>\r\nCWD <elsewhere>\r\n" in ONE segment, with stat-like backend calls that take
# (virtual) time below a prefix: the dispatcher starts the CWD while the first command is suspended in its checks.
# Whatever the interleaving, the tree may only change at locations whose nearest entry is writable, and the working
# directory may only move to a readable one.
PIPE_CASES = [
    ("/rw", "DELE", "f", ("CWD", "/pub")), ("/rw", "DELE", "f", ("CWD", "/priv")), ("/rw", "MKD", "new", ("CWD", "/pub")), ("/rw", "MKD", "new", ("CWD", "/pub/sub")),
    ("/rw", "RMD", "d", ("CWD", "/priv")), ("/rw/d", "DELE", "../f", ("CWD", "/pub/sub")), ("/pub", "DELE", "f", ("CWD", "/rw")), ("/pub", "MKD", "new", ("CWD", "/rw")),
    ("/pub/sub", "DELE", "g", ("CDUP", "")), ("/rw/d", "MKD", "new", ("CDUP", "")), ("/rw", "RNFR", "f", ("CWD", "/pub")), ("/pub", "DELE", "f", ("CWD", "/priv")),
    ("/rw", "DELE", "f", ("CWD", "/")), ("/", "DELE", "top", ("CWD", "/rw")), ("/rw", "MKD", "d/new", ("CWD", "/priv")), ("/priv", "DELE", "f", ("CWD", "/rw")),
]
PIPE_SLOW = ["cwd0", "/", None]


def slow_factory(log, slow_prefix, delay):
    class Slow(aioftp.MemoryPathIO):
        pass

    def is_slow(path):
        if slow_prefix is None:
            return False
        s = str(path)
        return slow_prefix == "/" or s == slow_prefix or s.startswith(slow_prefix + "/")

    def wrap(name, stat_like):
        orig = getattr(aioftp.MemoryPathIO, name)

        async def f(self, *a, **k):
            log.append((name, [str(x) for x in a if isinstance(x, pathlib.PurePath)]))
            if stat_like and a and is_slow(a[0]):
                await asyncio.sleep(delay)
            return await orig(self, *a, **k)

        return f

    for n in ("exists", "is_dir", "is_file", "stat"):
        setattr(Slow, n, wrap(n, True))
    for n in ("mkdir", "rmdir", "unlink", "rename", "_open"):
        setattr(Slow, n, wrap(n, False))
    return Slow


def tree_diff(a, b, prefix=()):
    """paths (tuples of names) at which two trees differ (topmost differing nodes)"""
    if isinstance(a, dict) and isinstance(b, dict):
        out = []
        for k in sorted(set(a) | set(b)):
            if k not in a or k not in b:
                out.append(prefix + (k,))
            else:
                out += tree_diff(a[k], b[k], prefix + (k,))
        return out
    return [] if a == b else [prefix]


def run_pipelined(ti, cwd0, verb, arg, second, slow, follow=None):
    log = []
    ob = {}

    async def main(net):
        table = WIRE_TABLES[ti]
        users = [aioftp.User("u", "p", base_path="/", home_path="/", permissions=[aioftp.Permission(x, readable=r, writable=w) for x, r, w in table])]
        server = aioftp.Server(users, path_io_factory=aioftp.MemoryPathIO)
        server.path_io_factory.state = ftpsim.mem_state(TREE)
        server.path_io_factory.factory = slow_factory(log, cwd0 if slow == "cwd0" else slow, 0.3)
        await server.start("127.0.0.1", ftpsim.PORT)
        raw = await simnet.Raw.connect(net, server.server_port)

        async def cmd(data):
            raw.writer.write(data.encode() if isinstance(data, str) else data)
            await asyncio.sleep(6)
            return simnet.final_codes(await raw.drain_replies())

        await raw.drain_replies()
        await cmd("USER u\r\n")
        ob["login"] = await cmd("PASS p\r\n")
        ob["cwd0"] = await cmd(f"CWD {cwd0}\r\n")
        mark = len(log)
        ob["codes"] = await cmd(f"{verb} {arg}\r\n{second[0]} {second[1]}".rstrip() + "\r\n")  # ONE segment, two lines
        if follow:
            ob["follow"] = await cmd(follow + "\r\n")
        ob["calls"] = log[mark:]
        pw = raw.writer.write(b"PWD\r\n")
        await asyncio.sleep(2)
        lines = await raw.drain_replies()
        ob["pwd"] = lines[-1][4:].strip().strip('"') if simnet.final_codes(lines) == ["257"] else None
        ob["tree"] = ftpsim.final_tree(server, "memory")
        await server.close()

    try:
        simnet.run(main)
    except Exception as e:  # noqa: BLE001 - observation
        ob["error"] = repr(e)
    return ob


def pipelined_oracle(ti, cwd0, verb, arg, second, ob):
    if "error" in ob:
        return [("driver-error", ob["error"])]
    if ob.get("login") != ["230"] or ob.get("cwd0") != ["250"]:
        return []
    table = WIRE_TABLES[ti]
    ents = [entry_parts(p) for p, _, _ in table]

    def flag(parts, fi):
        idx = py_nearest(ents, list(parts))
        return True if idx < 0 else bool(table[idx][1 + fi])

    bad = []
    for path in tree_diff(ftpsim.canon_tree(TREE), ob["tree"]):
        if not flag(path, 1):
            bad.append(("modified-unwritable", f"'{verb} {arg}' + '{second[0]} {second[1]}' pipelined from {cwd0}: the tree changed at /{'/'.join(path)}, whose entry "
                        f"is not writable (replies {ob['codes']}; mutating backend calls {[c for c in ob['calls'] if c[0] in ('mkdir', 'rmdir', 'unlink', 'rename')]})"))
    if ob.get("pwd") is not None and ob["pwd"] != cwd0:
        if not flag([x for x in ob["pwd"].split("/") if x], 0):
            bad.append(("cwd-unreadable", f"the working directory moved to {ob['pwd']!r}, whose entry is not readable"))
    return bad


def stream_pipelined(ctx):
    cases = []
    for ti in range(len(WIRE_TABLES)):
        for ci, (cwd0, verb, arg, second) in enumerate(PIPE_CASES):
            for si, slow in enumerate(PIPE_SLOW):
                if ctx.tier == "thorough" or (ti + ci + si) % 3 == 0 or (slow == "cwd0" and (ti + ci) % 2 == 0):
                    cases.append((ti, cwd0, verb, arg, second, slow))
    n_changed = 0
    for ti, cwd0, verb, arg, second, slow in cases:
        ctx.case(("pipelined", ti, cwd0, verb, arg, second, slow))
        ctx.traces_impl += 1
        follow = "RNTO moved" if verb == "RNFR" else None
        ob = run_pipelined(ti, cwd0, verb, arg, second, slow, follow)
        n_changed += "tree" in ob and ob["tree"] != ftpsim.canon_tree(TREE)
        for kind, detail in pipelined_oracle(ti, cwd0, verb, arg, second, ob)[:1]:
            il_report(ctx, detail, {"key": f"c04-pipelined-{verb.lower()}-{kind}", "pipelined": True, "table": ti, "cwd": cwd0, "verb": verb, "arg": arg,
                                    "second": list(second), "slow": slow, "follow": follow})
    ctx.count("pipelined_sessions", len(cases))
    ctx.count("pipelined_sessions_tree_changed", n_changed)
    ctx.sample({"stream": "pipelined", "segment": "DELE f\r\nCWD /pub\r\n", "cwd": "/rw", "slow_prefix": "/rw"})


def stream_wire(ctx):
    rng = ctx.rng
    total = 0
    budget = 200 if ctx.tier == "thorough" else 48
    for table in WIRE_TABLES:
        total += wire.run(wire_table(ctx, table, rng, budget), timeout=600)
    ctx.count("wire_requests", total)
    ctx.sample({"stream": "wire", "table": WIRE_TABLES[1], "verbs": sorted(VERBS) + ["RNTO", "CDUP"]})


def correspondence(ctx):
    ctx.extra["rule"] = (
        "streams: (lookup) ALL tables of <= 4 entries over the entry-path "
        "universe {/, /a, /a/b, /a/b/c, /b, a (relative), //a, /a/ (respelled duplicate)} x 14 query paths of depth <= 4, with "
        "pseudo-random flags and identity compared by list index, plus random tables of 5-14 entries with duplicates; (decorator) "
        "the real PathPermissions wrapper around a recording body with real Connection/User/get_paths on random tables x cwds x "
        "spellings x flag lists (also 0 and 2 flags); (wire) real Server+Client over loopback with MemoryPathIO: every "
        "permission-checked verb x targets x aliases x cwds on 5 tables, tree and PWD compared before/after a refusal; "
        "(interleave) real server on simnet with a recording backend: 5 tables x {STOR, APPE, RETR, LIST, MLSD} x 9 (cwd, relative "
        "argument) pairs x 18 command sequences {nothing, CWD x7, CDUP, CDUP CDUP, USER v PASS, USER w (other base) PASS, USER v, "
        "USER nobody, CWD+CDUP, PWD, re-login+CWD, CWD+re-login} placed between the 150 reply and the arrival of the data "
        "connection (quick: a third of the product, every triple under one table; thorough: all 4050); the object written / "
        "read / listed must be the one the lookup was made on (tree, bytes, names, recorded backend path), a denied request "
        "must be 550, leave the tree unchanged and send nothing; (sessions) one control connection, 2-4 logins among 4 accounts "
        "with different tables (two need no PASS: password-less, anonymous), the same block of requests after every login, decided "
        "by the current user's table; (pipelined) '<DELE|MKD|RMD|RNFR> rel' and 'CWD x|CDUP' in ONE segment on a backend whose "
        "stat-like calls take virtual time below a prefix, 16 cases x 5 tables x 3 delay settings: the tree may only change where "
        "the nearest entry is writable, the cwd only move to a readable directory. The "
        "independent longest-prefix oracle runs on every real output. Non-trivial = distinct input."
    )
    xcheck = []
    stream_lookup(ctx, xcheck)
    stream_decorator(ctx, xcheck)
    stream_interleave(ctx, xcheck)
    stream_sessions(ctx, xcheck)
    stream_pipelined(ctx)
    stream_wire(ctx)
    ok, out = core.vm_crosscheck(EXTRACT, xcheck[:100])
    ctx.extra["vm_compute_crosscheck"] = {"cases": len(xcheck[:100]), "agree": ok}
    if not ok:
        ctx.obligation_broken("extraction-crosscheck", out)


def search(ctx):
    """a broken obligation (e.g. check_perm_table or check_worker_paths on today's source) points at a verb: the wire
    streams above already exercise every permission-checked verb and every transfer worker; rerun them with the
    thorough budget"""
    if ctx.violations or ctx.tier == "thorough":
        return
    try:
        ctx.tier = "thorough"
        stream_interleave(ctx, [])
        stream_sessions(ctx, [])
        stream_pipelined(ctx)
        stream_wire(ctx)
    except Exception as e:
        ctx.notes.append(f"search aborted: {e!r}")
    finally:
        ctx.tier = "quick"


def replay(ctx, data):
    r = data.get("replay", {})
    key = r.get("key", "")
    if r.get("sessions"):
        events = [tuple(e) for e in r["events"]]
        obs = run_session(r["table"], events)
        for ev, ob in zip(events, obs):
            print(ev, "->", ob.get("codes"), "tree changed" if ob.get("tree_changed") else "", ob.get("pwd"))
        problems, _ = session_oracle(r["table"], events, obs)
        for k, kind, detail in problems:
            print("oracle: step", k, kind, detail)
        return not problems
    if r.get("pipelined"):
        ob = run_pipelined(r["table"], r["cwd"], r["verb"], r["arg"], tuple(r["second"]), r["slow"], r.get("follow"))
        print("one segment:", repr(f"{r['verb']} {r['arg']}\r\n{r['second'][0]} {r['second'][1]}\r\n"), "from", r["cwd"], "slow below", r["slow"], "->", ob.get("codes"),
              "| PWD", ob.get("pwd"))
        print("backend calls:", [c for c in ob.get("calls", []) if c[0] in ("mkdir", "rmdir", "unlink", "rename")])
        bad = pipelined_oracle(r["table"], r["cwd"], r["verb"], r["arg"], tuple(r["second"]), ob)
        for kind, detail in bad:
            print("oracle:", kind, detail)
        return not bad
    if r.get("interleave"):
        between = [tuple(b) for b in r["between"]]
        ob = run_interleave(r["table"], r["verb"], r["cwd"], r["arg"], between)
        print("request", r["verb"], r["arg"], "from", r["cwd"], "->", ob.get("codes"), "| between", between, "->", ob.get("between"),
              "| after the data connection", ob.get("after"), "data", ob.get("data"))
        print("backend calls of the worker:", ob.get("calls_worker"))
        bad = il_oracle(r["table"], r["verb"], r["cwd"], r["arg"], r["between"], ob)
        for kind, detail in bad:
            print("oracle:", kind, detail)
        return not bad
    if key == "c04-lookup":
        perms = [aioftp.Permission(p, readable=rr, writable=w) for _, p, rr, w in r["table"]]
        user = aioftp.User(permissions=perms or None)
        if not perms:
            user.permissions = []
        got = run_coro(None, user.get_permissions(pathlib.PurePosixPath(r["path"])))
        idx = next((i for i, p in enumerate(perms) if p is got), -1)
        want = py_nearest([entry_parts(p) for _, p, _, _ in r["table"]], [x for x in r["path"].split("/") if x])
        print("got index", idx, "want", want)
        return idx == want
    if key in ("c04-decision", "c04-alias"):
        loop = asyncio.new_event_loop()
        asyncio.set_event_loop(loop)
        ents = r["table"]
        im, replies, res = run_decorator(loop, ents, r["flags"], r["cwd"], r["path"])
        norm = py_normalize(r["cwd"], r["path"])
        idx = py_nearest([entry_parts(e[1]) for e in ents], norm)
        allowed = True if idx < 0 else bool(ents[idx][2 + r["flags"][0]])
        print("decision", im, "replies", replies, "nearest entry of", norm, "is", idx, "allowed", allowed)
        loop.close()
        return im == (0 if allowed else 550)
    if key.startswith("c04-wire-deny-") or key.startswith("c04-wire-allow-"):
        async def one():
            table = [tuple(x) for x in r["table"]]
            perms = [aioftp.Permission(p, readable=rr, writable=w) for p, rr, w in table]
            async with wire.Pair([aioftp.User(permissions=perms)], TREE) as p:
                if r.get("cwd", "/") != "/":
                    await p.raw("CWD " + r["cwd"])
                if "verb" in r:
                    if VERBS[r["verb"]][1]:
                        await p.raw("PASV")
                    before = p.tree()
                    code, info = await p.raw(f"{r['verb']} {r['arg']}")
                    print("reply", code, info, "tree unchanged:", p.tree() == before)
                    norm = py_normalize(r.get("cwd", "/"), r["arg"])
                    idx = py_nearest([entry_parts(x[0]) for x in table], norm)
                    allowed = True if idx < 0 else bool(table[idx][1 + VERBS[r["verb"]][0]])
                    if not allowed:
                        return code == "550" and p.tree() == before
                    return not (code == "550" and "permission denied" in " ".join(info))
            return False
        return wire.run(one())
    print("replay payload:", data)
    return False
