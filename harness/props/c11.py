"""C11 — the passive data-port pool neither loses nor duplicates ports.

Correspondence of coq/Model/PortPool.v with the REAL aioftp.Server on harness/simnet.  simnet's
patched asyncio.start_server is the fault injector: every bind of a data port is held at its two
suspension points (net.bind_gate) until the harness resumes it with a chosen outcome
(net.bind_script: Ok | EADDRINUSE | another OSError), so the harness decides the order in which
the listener start-ups of several sessions advance and where a session end (QUIT, disconnect,
server.close) cancels one.  After EVERY action the real pool (sorted(server.available_data_ports._queue)),
each session's listener port, the start-ups in flight, the orphan listeners and the reply codes are
compared with the model, and the property oracle is evaluated on the real objects:

    multiset(ports in the pool) + multiset(listener ports of live sessions)
      + multiset(ports of start-ups in flight of live sessions)  ==  multiset(configured ports)
    and no bound data listener is owned by nobody.

Smoke test of the injector:

    async def main(net):
        held = []
        def gate(port, stage):
            if port in (30001, 30002):
                f = net.loop.create_future(); held.append((port, stage, f)); return f
        net.bind_gate = gate
        server = aioftp.Server(None, data_ports=[30001, 30002]); await server.start("127.0.0.1", 2121)
        raw = await Raw.connect(net, 2121); await raw.drain_replies(); await raw.send("USER anonymous")
        await raw.send("PASV")                      # no reply yet: suspended at (30001, stage 1)
        net.bind_script[30001] = [OSError(errno.EADDRINUSE, "busy")]
        held.pop()[2].set_result(None); await net.settle()   # -> (1, 30001) back in the pool, now at (30002, 1)
    simnet.run(main)
"""
import asyncio
import collections
import errno
import json
import logging
import re
import socket

import aioftp

from .. import core, simnet, sx
from ..simnet import Raw, final_codes

ID = "C11"
EXTRACT = "ExC11"
TECHNIQUE = (
    "Coq proof (multiset accounting by occurrence counts, invariant over all event lists) about an executable small-step model of "
    "the port pool, _start_passive_server with its two suspension points, pasv/epsv and the dispatcher's finally block, for all "
    "pools, any number of sessions, all bind outcomes and all interleavings; class hierarchy of errors.py, the except ladder and "
    "the finally block are regenerated from the source on every run (Gen.PortPool, Gen.Dispatch) and enter as closed obligations; "
    "tied to the code by running the real server on an in-memory network whose start_server is the fault injector and comparing "
    "pool, listeners and start-ups in flight after every event"
)
LEVEL_TEXT = (
    "Proved for every pool, any number of sessions, every adversarial choice of bind outcomes (Ok/EADDRINUSE/other OSError) and "
    "every interleaving (Closed under the global context): C11_accounting and C11_never_duplicated (a port is never duplicated, "
    "whatever happens, cancellations included), C11_viewed_terminates / C11_retry_progress / C11_all_viewed_exits (at most "
    "|configured|+1 attempts per PASV), C11_exhaustion_421, and C11_pool_conserved_partial / C11_quiescent_pool_partial: pool (+) "
    "ports held by live sessions = configured, nothing lost, no orphan listener, for histories that neither end a session while "
    "one of its listeners is being opened nor issue PASV/EPSV while one is being opened. The full property is REFUTED on the "
    "current source: C11_pool_conserved_refuted_cancel1/2 (F5) and C11_pool_conserved_refuted_overlap (pipelined PASV PASV), both "
    "reproduced on the real code (simnet and real loopback TCP). C11_hierarchy_needed shows the extracted class hierarchy is "
    "load-bearing. For the repaired shape of _start_passive_server (docs/fixes/C11-port-giveback+overlap.diff; recognised by the "
    "translator, flags justified by C11_ladder_obligation) the FULL statement is proved for every history, cancellation at any "
    "suspension point and overlapping PASV/EPSV included: C11_pool_conserved_repaired, C11_quiescent_pool_repaired."
)
LEVEL_NOTE = (
    "Trusted: Coq kernel; tools/py2v; extraction cross-checked with vm_compute; simnet + harness. Modelled, not verified: "
    "asyncio.PriorityQueue order (tuple order), asyncio.start_server having exactly two suspension points with the bind between "
    "them, CancelledError not being an OSError, a port bound once cannot be bound again."
)
TRUSTED = [
    "asyncio rules encoded by the model: cancellation is delivered at a suspension point as CancelledError (a BaseException, not an "
    "OSError); asyncio.start_server suspends once before and once after the bind; PriorityQueue.get_nowait returns the least tuple",
    "simnet (in-memory transports, gated/scripted start_server) drives the real aioftp.Server faithfully",
]
ASSUMPTIONS = [
    "modelled, not verified: data_ports=None (OS-chosen ports) is outside the model; priorities only grow (a port found busy keeps "
    "its higher priority until a session returns it with priority 0)",
]

CTRL = 2121
MAX_ACTIONS = 120  # no generator comes near; a retry loop that never ends is cut here (and reported by the retry oracle)
BASE = 30001
PCONNECT, PASV, RESUME, WORK, END, CLOSEALL, REUSER = range(7)
OUTCOME = {"ok": 0, "inuse": 1, "other": 2}


# the two statements of the dispatcher's finally block the model interprets, as the current source has them; used
# ONLY when the translator could not read the source (a broken obligation by itself): the implementation is still
# run against the model of the unchanged code and the oracle, so that a concrete failing input can be found
FALLBACK_FIN = ["loop_open,has:passive_server=>close:passive_server", "loop_open,has:passive_server,ports=>putport:0:passive_server_port"]


def fin_from_gen(ctx=None):
    try:
        txt = (core.COQ / "Gen" / "Dispatch.v").read_text()
    except OSError:
        txt = ""
    m = re.search(r"d_finally := \[(.*?)\];", txt, re.S)
    if not m:
        if ctx is not None:
            ctx.obligation_broken("Gen.Dispatch.d_finally", "the translator did not produce the dispatcher's finally block; model run with the unchanged block")
        return list(FALLBACK_FIN)
    return re.findall(r'"((?:[^"]|"")*)"', m.group(1))


def flags_from_gen():
    """(giveback, recheck): which shape of _start_passive_server the translator found (false, false on the current
    source); justified inside Coq by C11_ladder_obligation.  (False, False) when the translator failed."""
    try:
        txt = (core.COQ / "Gen" / "PortPool.v").read_text()
    except OSError:
        txt = ""
    out = []
    for name in ("sps_giveback", "sps_recheck"):
        m = re.search(r"Definition %s : bool := (true|false)\." % name, txt)
        out.append(bool(m) and m.group(1) == "true")
    return tuple(out)


def hier_from_source():
    import aioftp.errors as E

    return issubclass(E.NoAvailablePort, OSError)


class LogCap(logging.Handler):
    def __init__(self):
        super().__init__(level=logging.WARNING)
        self.records = []

    def emit(self, r):
        exc = r.exc_info[0].__name__ if r.exc_info and r.exc_info[0] else None
        self.records.append((r.getMessage(), exc))


# ----------------------------------------------------------------------------- the type of the data_ports argument
# `data_ports` is documented as "a collection of ports": the constructor accepts any iterable.  The property (every configured
# port is in the pool exactly once when idle) is about the ports the argument YIELDS, whatever its type: a sequence, a lazy
# range, an unordered container, or a one-shot iterator (generator, map, iter(...)) that can be walked a single time.
PTYPES = ["list", "tuple", "range", "set", "frozenset", "dict_keys", "dict_values", "deque", "generator", "map", "iter", "chain"]
ONE_SHOT = ("generator", "map", "iter", "chain")


def ports_arg(ports, ptype):
    """(effective type, the object handed to Server(data_ports=...)); a type that cannot represent `ports` (a range for
    non-consecutive ports, a set for a pool with a duplicate) falls back to the next applicable one-shot / sequence type"""
    ports = list(ports)
    nodup = len(set(ports)) == len(ports)
    if ptype == "range" and not (ports and ports == list(range(ports[0], ports[0] + len(ports)))):
        ptype = "iter"
    if ptype in ("set", "frozenset", "dict_keys") and not nodup:
        ptype = "generator"
    if ptype == "tuple":
        return ptype, tuple(ports)
    if ptype == "range":
        return ptype, range(ports[0], ports[0] + len(ports))
    if ptype == "set":
        return ptype, set(ports)
    if ptype == "frozenset":
        return ptype, frozenset(ports)
    if ptype == "dict_keys":
        return ptype, dict.fromkeys(ports).keys()
    if ptype == "dict_values":
        return ptype, dict(enumerate(ports)).values()
    if ptype == "deque":
        return ptype, collections.deque(ports)
    if ptype == "generator":
        return ptype, (p for p in ports)
    if ptype == "map":
        return ptype, map(int, ports)
    if ptype == "iter":
        return ptype, iter(ports)
    if ptype == "chain":
        import itertools

        return ptype, itertools.chain(ports[:1], ports[1:])
    return "list", list(ports)


# ----------------------------------------------------------------------------- the driver
class Driver:
    """the real server on simnet + a tracker of gated start-ups (derived from the real side only)"""

    def __init__(self, net, ports, ipv6=False, ptype="list"):
        self.net = net
        self.ptype = ptype if ptype in PTYPES else "list"
        self.init_bad = None  # the pool right after construction differs from what the data_ports argument yields
        self.ipv6 = bool(ipv6)  # the server listens on ::1: passive listeners are AF_INET6 sockets
        self.ports = list(ports)
        self.new_gates = []
        self.raws = []
        self.inflight = []  # per session: list of dict(port, stage, fut)
        self.closed = False
        self.events = []  # model events
        self.snaps = []  # real snapshots, one per action
        self.actions = []
        self.notes = []  # (key suffix, text): oracle failures other than the multiset equation, per action
        self.causes = []  # per action: (cause, ports) - the ports whose loss by this action falls under a known-finding key

    async def start(self):
        net = self.net
        portset = set(self.ports)

        def gate(port, stage):
            if port in portset:
                f = net.loop.create_future()
                self.new_gates.append({"port": port, "stage": stage, "fut": f})
                return f
            return None

        net.bind_gate = gate
        self.ptype, arg = ports_arg(self.ports, self.ptype)
        try:
            self.server = aioftp.Server(None, data_ports=arg, path_io_factory=aioftp.MemoryPathIO)
            q = self.server.available_data_ports
            init = sorted(q._queue) if q is not None else None
            if init != sorted((0, p) for p in self.ports):
                self.init_bad = (f"data_ports given as a {self.ptype} yielding {self.ports}: the pool of the idle server right after "
                                 f"construction holds {init}, expected every configured port exactly once with priority 0")
        except Exception as e:  # the constructor of a changed implementation refusing an iterable is an observation
            self.init_bad = f"Server(data_ports=<{self.ptype} yielding {self.ports}>) raised {type(e).__name__}: {e}"
            self.server = None
        if self.server is None or self.server.available_data_ports is None:
            # keep observing: the rest of the history runs on a server built from the plain list
            self.server = aioftp.Server(None, data_ports=list(self.ports), path_io_factory=aioftp.MemoryPathIO)
        await self.server.start("::1" if self.ipv6 else "127.0.0.1", CTRL)

    # -- observation of the real objects
    def conn_of(self, raw):
        cport = raw.writer.transport.get_extra_info("sockname")[1]
        for c in self.server.connections.values():
            if c.client_port == cport:
                return c
        return None

    def live(self, i):
        return self.conn_of(self.raws[i]) is not None

    def passive_port(self, c):
        if not c.future.passive_server.done():
            return None
        srv = c.passive_server
        socks = getattr(srv, "sockets", None)
        if socks:
            return socks[0].getsockname()[1]
        return srv.port

    def observe(self):
        pool = sorted(self.server.available_data_ports._queue)
        sess = []
        owned = []
        for i, raw in enumerate(self.raws):
            c = self.conn_of(raw)
            if c is None:
                sess.append((False, None, []))
                continue
            pp = self.passive_port(c)
            infl = [(e["port"], e["stage"]) for e in self.inflight[i]]
            sess.append((True, pp, infl))
            if pp is not None:
                owned.append(pp)
            owned += [p for (p, st) in infl if st == 2]
        open_data = sorted(l.port for l in self.net.open_listeners() if l.port != CTRL)
        rest = list(open_data)
        for p in owned:
            if p in rest:
                rest.remove(p)
        return {"pool": [list(x) for x in pool], "sessions": sess, "orphans": rest, "listeners": open_data}

    def oracle(self, obs):
        """the multiset equation on the real objects: returns (missing, extra) multisets"""
        have = collections.Counter(p for (_, p) in obs["pool"])
        for live, pp, infl in obs["sessions"]:
            if live:
                if pp is not None:
                    have[pp] += 1
                for p, _ in infl:
                    have[p] += 1
        want = collections.Counter(self.ports)
        return want - have, have - want

    def check_421(self, i, tried):
        """exhaustion oracle: 421 'no free ports' is given only when no port of the pool is known free: every
        port in the pool that this PASV did not try itself has failed a bind since a session last returned it
        (priority >= 1).  `tried` also holds the ports the session's own end has just returned (priority 0).
        (Demanding 'every port was tried by THIS PASV' would be more than the property states and is false on the
        unchanged code: pool [(0,A),(1,B)], A busy -> (1,A) is the least item, already viewed -> 421, B untried.)"""
        untried = sorted(p for (prio, p) in self.server.available_data_ports._queue if p not in tried and prio == 0)
        if untried:
            self.notes.append(("421-with-free-port", f"session {i}: 421 after trying {tried} while {untried} sat in the pool, never found busy, untried"))

    # -- actions
    def valid_actions(self, max_sessions, rich=True, with_user=None):
        with_user = rich if with_user is None else with_user
        acts = []
        if len(self.raws) < max_sessions and not self.closed:
            acts.append(("connect",))
        for i in range(len(self.raws)):
            if not self.live(i):
                continue
            acts.append(("pasv", i, "PASV" if (i + len(self.actions)) % 2 == 0 else "EPSV"))
            acts.append(("end", i, "quit"))
            acts.append(("end", i, "drop"))
            if with_user:
                acts.append(("user", i))  # USER again: a re-login on a session that may own a listener / a start-up
            if rich:
                acts.append(("end", i, "reset"))
                acts.append(("work", i, "NOOP"))
                c = self.conn_of(self.raws[i])
                if c is not None and self.passive_port(c) is not None and not self.inflight[i]:
                    acts.append(("work", i, "LIST"))
            for k, e in enumerate(self.inflight[i]):
                if e["stage"] == 1:
                    acts += [("resume", i, k, "ok"), ("resume", i, k, "inuse"), ("resume", i, k, "other")]
                else:
                    acts.append(("resume", i, k, "ok"))
        if not self.closed and self.raws:
            acts.append(("close",))
        return acts

    async def settle_and_collect(self, owner=None, slot=None):
        """after an action: new gate entries belong to the start-up that just moved"""
        await self.net.settle()
        new, self.new_gates = self.new_gates, []
        return new

    async def apply(self, a):
        net = self.net
        a = tuple(a)
        kind = a[0]
        codes = []
        cause = None
        if kind == "connect":
            raw = await Raw.connect(net, CTRL)
            self.raws.append(raw)
            self.inflight.append([])
            await raw.drain_replies()
            await raw.send("USER anonymous")
            self.events.append([PCONNECT, 0, 0, 0])
        elif kind == "pasv":
            i = a[1]
            self.events.append([PASV, i, 1 if a[2] == "PASV" else 0, 0])
            if self.live(i):
                others = [e["stage"] for e in self.inflight[i]]
                oports = [e["port"] for e in self.inflight[i]]
                self.raws[i].writer.write(a[2].encode() + b"\r\n")
                new = await self.settle_and_collect()
                codes = final_codes(self.raws[i].take())
                for e in new:
                    e["tried"] = [e["port"]]
                self.inflight[i] += new
                if "421" in codes and not others:
                    self.check_421(i, [])
                if not self.live(i):
                    # 421: the session ended; start-ups still in flight were cancelled by the finally block
                    if others:
                        self.causes.append(("cancel-at-2" if 2 in others else "cancel-at-1", oports))
                    self.inflight[i] = []
        elif kind == "resume":
            i, k, o = a[1], a[2], a[3]
            self.events.append([RESUME, i, k, OUTCOME[o]])
            if self.live(i) and k < len(self.inflight[i]):
                e = self.inflight[i][k]
                if e["stage"] == 1:
                    if e["port"] in net.listeners:
                        pass  # physically bound already: the bind fails with EADDRINUSE by itself
                    elif o == "inuse":
                        net.bind_script[e["port"]] = [OSError(errno.EADDRINUSE, "address already in use")]
                    elif o == "other":
                        net.bind_script[e["port"]] = [OSError(errno.EACCES, "permission denied")]
                    else:
                        net.bind_script[e["port"]] = [None]
                else:
                    c = self.conn_of(self.raws[i])
                    if c is not None and self.passive_port(c) is not None:
                        self.causes.append(("overlap", [self.passive_port(c)]))  # the listener about to be overwritten
                others = [x["stage"] for j, x in enumerate(self.inflight[i]) if j != k]
                oports = [x["port"] for j, x in enumerate(self.inflight[i]) if j != k]
                c0 = self.conn_of(self.raws[i])
                own = oports + ([self.passive_port(c0)] if c0 is not None and self.passive_port(c0) is not None else [])
                e["fut"].set_result(None)
                new = await self.settle_and_collect()
                codes = final_codes(self.raws[i].take())
                if "421" in codes and e["stage"] == 1:
                    self.check_421(i, e.get("tried", [e["port"]]) + own)  # `own`: returned by the session's own end
                if not self.live(i):
                    if others:  # the session died (421 / OSError): its other start-ups were cancelled
                        self.causes.append(("cancel-at-2" if 2 in others else "cancel-at-1", oports))
                    self.inflight[i] = []
                elif new:
                    new[0]["tried"] = e.get("tried", [e["port"]]) + ([new[0]["port"]] if new[0]["stage"] == 1 else [])
                    self.inflight[i][k] = new[0]
                    if len(new[0]["tried"]) > len(self.ports) + 1:
                        self.notes.append(("retry-unbounded", f"one PASV tried {new[0]['tried']} (configured {self.ports})"))
                else:
                    del self.inflight[i][k]
        elif kind == "work":
            i = a[1]
            self.events.append([WORK, i, 0, 0])
            if self.live(i):
                if a[2] == "LIST":
                    c = self.conn_of(self.raws[i])
                    pp = self.passive_port(c)
                    dr, dw = await net.open_connection("127.0.0.1", pp)
                    await self.raws[i].send("LIST")
                    await net.settle()
                    dw.close()
                    await net.settle()
                    self.raws[i].take()
                else:
                    await self.raws[i].send(a[2])
        elif kind == "user":
            i = a[1]
            self.events.append([REUSER, i, 0, 0])
            if self.live(i):
                await self.raws[i].send("USER anonymous")  # 230; the listener (or the start-up in flight) is not its business
                await net.settle()
                self.raws[i].take()
        elif kind == "end":
            i, how = a[1], a[2]
            self.events.append([END, i, 0, 0])
            if self.live(i):
                stages = [e["stage"] for e in self.inflight[i]]
                if stages:
                    self.causes.append(("cancel-at-2" if 2 in stages else "cancel-at-1", [e["port"] for e in self.inflight[i]]))
                if how == "quit":
                    self.raws[i].writer.write(b"QUIT\r\n")
                elif how == "drop":
                    self.raws[i].close()
                else:
                    self.raws[i].writer.transport.abort()
                await self.settle_and_collect()
                codes = [c for c in final_codes(self.raws[i].take()) if c != "221"]
                self.inflight[i] = []
        elif kind == "close":
            self.events.append([CLOSEALL, 0, 0, 0])
            stages = [e["stage"] for i in range(len(self.raws)) if self.live(i) for e in self.inflight[i]]
            if stages:
                self.causes.append(("cancel-at-2" if 2 in stages else "cancel-at-1", [e["port"] for i in range(len(self.raws)) if self.live(i) for e in self.inflight[i]]))
            await self.server.close()
            self.closed = True
            await self.settle_and_collect()
            for i in range(len(self.raws)):
                self.inflight[i] = []
        else:
            raise ValueError(a)
        obs = self.observe()
        missing, extra = self.oracle(obs)
        obs["codes"] = ["227" if c == "229" else c for c in codes]
        obs["missing"] = sorted(missing.elements())
        obs["extra"] = sorted(extra.elements())
        obs["causes"] = [(c, sorted(ps)) for (c, ps) in self.causes]
        obs["cause"] = self.causes[0][0] if self.causes else None
        self.causes = []
        obs["notes"] = self.notes
        self.notes = []
        self.actions.append(list(a))
        self.snaps.append(obs)
        return obs

    async def finish(self):
        """everybody leaves, the server closes: what is in the pool now?"""
        for i in range(len(self.raws)):
            if self.live(i):
                await self.apply(("end", i, "drop"))
        if not self.closed:
            await self.apply(("close",))


def run_history(ports, chooser, ipv6=False, ptype="list"):
    """chooser(driver) -> next action or None; returns the driver (events, snapshots, actions)"""
    cap = LogCap()
    lg = logging.getLogger("aioftp.server")
    old = lg.level
    lg.addHandler(cap)
    lg.setLevel(logging.WARNING)
    box = {}

    async def main(net):
        net.loop.set_exception_handler(lambda loop, c: None)
        d = Driver(net, ports, ipv6, ptype)
        box["d"] = d
        await d.start()
        while len(d.actions) < MAX_ACTIONS:
            a = chooser(d)
            if a is None:
                break
            await d.apply(a)
        await d.finish()

    try:
        simnet.run(main)
    finally:
        lg.removeHandler(cap)
        lg.setLevel(old)
    d = box["d"]
    d.log = cap.records
    return d


def scripted(actions):
    it = iter(actions)

    def chooser(d):
        return next(it, None)

    return chooser


# ----------------------------------------------------------------------------- comparison
def model_view(snap):
    outs, pool, sess, orphans, lost = snap
    sessions = []
    for live, passive, infl in sess:
        if live:
            sessions.append((True, passive[0] if passive else None, [(su[2], su[3]) for su in infl]))
        else:
            sessions.append((False, None, []))
    return {
        "pool": [list(x) for x in pool],
        "sessions": sessions,
        "orphans": sorted(orphans),
        "codes": [str(c) for (_, c) in outs],
        "lost": sorted(lost),
    }


KEY_OF_CAUSE = {"cancel-at-1": "c11-cancel-at-1", "cancel-at-2": "c11-cancel-at-2", "overlap": "c11-overlap"}


def disagree(ctx, *a):
    """record at most 60 disagreements; the oracle keeps being evaluated on every history regardless"""
    if len(ctx.disagreements) < 60:
        ctx.disagree(*a)
    else:
        ctx.count("disagreements_not_recorded", 1)


def oracle_findings(d):
    """the property oracle on the real snapshots of one run (no model involved): [(action index, key, text)].
    Anything newly lost, duplicated or orphaned by an action; a known-finding key covers exactly the ports of the
    start-ups the action cancelled (F5) or the listener it overwrote (F5b); any other port lost by the same action
    is reported under the generic key `c11-lost-<action>`, which is not listed."""
    out = []
    if getattr(d, "init_bad", None):
        out.append((0, "c11-pool-init", d.init_bad))
    prev_missing = collections.Counter()
    prev_orphans = []
    for k, real in enumerate(d.snaps):
        missing = collections.Counter(real["missing"])
        newly = missing - prev_missing
        new_orph = [p for p in real["orphans"] if p not in prev_orphans]
        if real["extra"]:
            out.append((k, "c11-duplicated",
                        f"port(s) {real['extra']} duplicated / foreign (pool + live sessions hold more than configured; pool {real['pool']}, "
                        f"configured {d.ports}) after {d.actions[: k + 1]}"))
        if newly or new_orph:
            # one action can do both: a completing start-up overwrites a listener (F5b) and, answering 503 on IPv6,
            # ends the session, which cancels the remaining start-ups (F5)
            other_lost = newly
            other_orph = list(new_orph)
            for cause, ports in real.get("causes", []):
                excused = collections.Counter(ports)
                mine_lost = other_lost & excused
                mine_orph = [p for p in other_orph if p in excused]
                if cause in KEY_OF_CAUSE and (mine_lost or mine_orph):
                    out.append((k, KEY_OF_CAUSE[cause],
                                f"port(s) {sorted(mine_lost.elements())} lost, listener(s) {mine_orph} orphaned "
                                f"by action {d.actions[k]} ({cause}; pool {real['pool']}, configured {d.ports}) after {d.actions[: k + 1]}"))
                other_lost = other_lost - excused
                other_orph = [p for p in other_orph if p not in excused]
            if other_lost or other_orph:
                out.append((k, "c11-lost-" + str(d.actions[k][0]),
                            f"port(s) {sorted(other_lost.elements())} lost, listener(s) {other_orph} orphaned by action {d.actions[k]} "
                            f"(pool {real['pool']}, configured {d.ports}) after {d.actions[: k + 1]}"))
        for kind, text in real.get("notes", []):
            out.append((k, "c11-" + kind, f"{text} after {d.actions[: k + 1]}"))
        prev_missing = missing
        prev_orphans = list(real["orphans"])
    return out


def check_driver(ctx, d, msnaps, stream):
    """compare the real snapshots with the model's, evaluate the oracle; returns True when all agree"""
    ctx.traces_impl += 1
    ok = True
    replay = {"ports": d.ports, "ipv6": d.ipv6, "ptype": d.ptype, "actions": d.actions}
    for k, (real, ms) in enumerate(zip(d.snaps, msnaps)):
        mv = model_view(ms)
        ctx.case((stream, tuple(d.ports), json.dumps(d.actions[: k + 1])))
        rv = {x: real[x] for x in ("pool", "sessions", "orphans", "codes")}
        rv["sessions"] = [(a, b, [tuple(t) for t in c]) for (a, b, c) in rv["sessions"]]
        mcmp = {x: mv[x] for x in ("pool", "sessions", "orphans", "codes")}
        if rv != mcmp:
            ok = False
            disagree(ctx, stream, {"ports": d.ports, "actions": d.actions[: k + 1]}, repr(mcmp), repr(rv))
        if sorted(real["missing"]) != mv["lost"]:
            ok = False
            disagree(ctx, stream + "-lost", {"ports": d.ports, "actions": d.actions[: k + 1]}, repr(mv["lost"]), repr(real["missing"]))
    for k, key, text in oracle_findings(d):
        ok = False
        ctx.violation(text, dict(replay, key=key, upto=k + 1))
    if len(msnaps) != len(d.snaps):
        ok = False
        disagree(ctx, stream, {"ports": d.ports, "actions": d.actions}, f"{len(msnaps)} snapshots", f"{len(d.snaps)} snapshots")
    for msg, exc in d.log:
        if exc not in ("OSError", "PermissionError", "ConnectionResetError", "TimeoutError", "BrokenPipeError", "ConnectionError"):
            ok = False
            disagree(ctx, stream + "-log", {"ports": d.ports, "actions": d.actions}, "no unexpected exception", f"{msg}: {exc}")
    return ok


# ----------------------------------------------------------------------------- generators
def exhaustive_dfs(ports, max_sessions, depth, budget, ipv6=False, with_user=False):
    """every action sequence up to `depth` (valid actions as the real tracker reports them);
    each node is one fresh run of the real server.  Returns the drivers of the maximal runs."""
    out = []
    count = [0]

    def run_prefix(prefix):
        box = {}

        def chooser(d):
            if len(d.actions) < len(prefix):
                return prefix[len(d.actions)]
            box["valid"] = d.valid_actions(max_sessions, rich=False, with_user=with_user)
            return None

        d = run_history(ports, chooser, ipv6)
        return d, box.get("valid", [])

    def rec(prefix):
        if count[0] >= budget:
            return
        count[0] += 1
        d, valid = run_prefix(prefix)
        if len(prefix) >= depth or not valid:
            out.append(d)
            return
        for a in valid:
            rec(prefix + [a])

    rec([])
    return out


FAULTS = ["free", "busy1", "busy", "other1"]


def fault_outcome(fault, attempt):
    if fault == "busy1":
        return "inuse" if attempt == 0 else "ok"
    if fault == "busy":
        return "inuse"
    if fault == "other1":
        return "other" if attempt == 0 else "ok"
    return "ok"


def systematic(nports, nsess, faults, cancel, overlapped, end_mode, all_epsv=False, relogin=False):
    """sessions connect and issue PASV; their start-ups are resumed with the scripted outcome per port and
    attempt, sequentially or round-robin; `cancel` = (session, stage, how) ends that session when its
    start-up is first seen at that stage; then a second PASV (reuse), a transfer, and everybody leaves"""
    ports = [BASE + j for j in range(nports)]
    attempts = collections.Counter()
    state = {"phase": 0, "queue": None, "cancelled": False}

    def pending(d):
        return [(i, k) for i in range(len(d.raws)) if d.live(i) for k in range(len(d.inflight[i]))]

    def resume_action(d, i, k):
        e = d.inflight[i][k]
        if cancel and not state["cancelled"] and cancel[0] == i and cancel[1] == e["stage"]:
            state["cancelled"] = True
            return ("end", i, cancel[2]) if cancel[2] != "close" else ("close",)
        if e["stage"] == 2:
            return ("resume", i, k, "ok")
        o = fault_outcome(faults[e["port"] - BASE], attempts[e["port"]])
        attempts[e["port"]] += 1
        return ("resume", i, k, o)

    def chooser(d):
        if state["queue"] is None:
            q = []
            if overlapped:
                q += [("connect",)] * nsess + [("pasv", i, "PASV" if (i % 2 == 0 and not all_epsv) else "EPSV") for i in range(nsess)]
            state["queue"] = q
            state["next_seq"] = 0
        if state["queue"]:
            a = state["queue"].pop(0)
            if a[0] != "connect" and (d.closed or a[1] >= len(d.raws) or not d.live(a[1])):
                return chooser(d)
            if a[0] == "connect" and d.closed:
                return chooser(d)
            return a
        p = pending(d)
        if p:
            i, k = p[state["phase"] % len(p)] if overlapped else p[0]
            state["phase"] += 1
            return resume_action(d, i, k)
        if not overlapped and state["next_seq"] < nsess and not d.closed:
            i = state["next_seq"]
            state["next_seq"] += 1
            state["queue"] = [("connect",), ("pasv", i, "PASV" if (i % 2 == 0 and not all_epsv) else "EPSV")]
            return chooser(d)
        if state.get("tail") is None:
            tail = []
            for i in range(len(d.raws)):
                if d.live(i):
                    if relogin:  # USER again between the first PASV/EPSV and the second one
                        tail.append(("user", i))
                    tail.append(("pasv", i, "PASV"))
                    tail.append(("work", i, "LIST"))
                    if relogin:
                        tail.append(("user", i))
                        tail.append(("pasv", i, "EPSV"))
            if end_mode == "close":
                tail.append(("close",))
            else:
                for i in range(len(d.raws)):
                    tail.append(("end", i, "quit" if (i % 2 == 0) == (end_mode == "quit") else "drop"))
            state["tail"] = tail
        while state["tail"]:
            a = state["tail"].pop(0)
            if a[0] == "close":
                return None if d.closed else a
            if not d.live(a[1]):
                continue
            if a[0] == "work":
                c = d.conn_of(d.raws[a[1]])
                if d.passive_port(c) is None or d.inflight[a[1]]:
                    continue
            return a
        return None

    return ports, chooser


def random_chooser(rng, max_sessions, length):
    n = [0]

    def chooser(d):
        if n[0] >= length:
            return None
        n[0] += 1
        acts = d.valid_actions(max_sessions)
        if not acts:
            return None
        # bias: resumes and pasv more often than ends
        weights = []
        for a in acts:
            w = {"connect": 3, "pasv": 3, "resume": 5, "work": 1, "user": 1.5, "end": 1.2, "close": 0.25}[a[0]]
            weights.append(w)
        return rng.choices(acts, weights)[0]

    return chooser


# ----------------------------------------------------------------------------- entry points
WITNESSES = {
    # the histories of the C11_pool_conserved_refuted_* theorems
    "cancel1": ([30001, 30002], [("connect",), ("pasv", 0, "PASV"), ("end", 0, "drop")], "c11-cancel-at-1"),
    "cancel2": ([30001, 30002], [("connect",), ("pasv", 0, "PASV"), ("resume", 0, 0, "ok"), ("end", 0, "drop")], "c11-cancel-at-2"),
    "overlap": (
        [30001, 30002, 30003],
        [("connect",), ("pasv", 0, "PASV"), ("pasv", 0, "PASV"), ("resume", 0, 0, "ok"), ("resume", 0, 1, "ok"),
         ("resume", 0, 0, "ok"), ("resume", 0, 0, "ok"), ("end", 0, "quit")],
        "c11-overlap",
    ),
}


def correspondence(ctx, budget=None):
    rng = ctx.rng
    thorough = ctx.tier == "thorough"
    fin = fin_from_gen(ctx)
    hier = hier_from_source()
    ctx.extra["rule"] = (
        "every bind of a data port is gated at both suspension points and resumed by the harness with a chosen outcome; actions: "
        "connect(+login), PASV/EPSV, resume(start-up, Ok|EADDRINUSE|EACCES), NOOP, LIST over the listener, end(QUIT|EOF|RST), "
        "server.close(); streams: (a) exhaustive DFS over valid actions (tracker on the real objects) for small pools, (b) systematic: "
        "pools of 0..3 ports x 1..3 sessions x per-port fault (free, busy once, always busy, other OSError once) x cancel point "
        "(none | session j at suspension point 1|2 by QUIT/EOF/close) x sequential/round-robin start-ups x end mode, followed by a "
        "second PASV, a LIST transfer and everybody leaving; the same scripts on an IPv6 listener (::1: PASV opens and stores the "
        "listener, then answers 503 and ends the session; first commands mixed PASV/EPSV or all EPSV) and exhaustive DFS on IPv6, "
        "(c) random walks (a quarter of them on IPv6) over 3 sessions / 1-3 ports incl. a duplicated port; (d) the TYPE of the "
        "data_ports argument: list, tuple, range, set, frozenset, dict keys/values, deque and the one-shot iterables generator, map, "
        "iter(...), itertools.chain - rotated over the systematic scripts, drawn at random for the random walks and crossed with pool "
        "sizes 0..3 in a stream of its own; the pool of the idle server right after construction must hold exactly what the argument "
        "yields (key c11-pool-init); "
        "one evaluation = one (pool, history prefix): pool contents with priorities, listener per session, start-ups in flight, "
        "orphan listeners, reply codes compared with the model + the multiset equation on the real objects; non-trivial = distinct."
    )
    res = ctx.model([(1, [fin])])
    if res[0] != 1:
        ctx.obligation_broken("check_pfinally(d_finally)", f"finally block {fin} fails the closed check")
    drivers = []  # (stream, driver)

    # (a) exhaustive
    ex = [([30001], 2, 6, 700, False), ([30001, 30002], 1, 7, 700, False), ([30001, 30002], 2, 5, 900, False),
          ([30001, 30002], 1, 6, 500, True), ([30001], 2, 5, 400, True)]
    if thorough:
        ex = [([30001], 2, 8, 6000, False), ([30001, 30002], 2, 7, 12000, False), ([30001, 30002, 30003], 2, 6, 8000, False),
              ([], 2, 4, 200, False), ([30001, 30002], 2, 6, 3000, True), ([30001], 2, 7, 1500, True)]
    n_ex = 0
    for ports, ms, depth, bud, v6 in ex:
        for d in exhaustive_dfs(ports, ms, depth, bud, v6):
            drivers.append(("exhaustive-ipv6" if v6 else "exhaustive", d))
            n_ex += 1
    # the same DFS with USER-again among the actions (re-login with a listener open / being opened)
    exu = [([30001, 30002], 1, 6, 700), ([30001], 2, 5, 500)]
    if thorough:
        exu = [([30001, 30002], 1, 8, 4000), ([30001, 30002], 2, 6, 3000), ([30001], 2, 7, 2000)]
    for ports, ms, depth, bud in exu:
        for d in exhaustive_dfs(ports, ms, depth, bud, False, with_user=True):
            drivers.append(("exhaustive-relogin", d))
            n_ex += 1
    ctx.count("exhaustive_histories", n_ex)

    # (b) systematic
    import itertools

    n_sys = n_sys6 = n_sysu = 0
    for nports in (0, 1, 2, 3):
        fsets = list(itertools.product(FAULTS, repeat=nports))
        if nports == 3 and not thorough:
            fsets = rng.sample(fsets, 20)
        for nsess in (1, 2, 3):
            cancels = [None] + [(j, st, how) for j in range(nsess) for st in (1, 2) for how in ("quit", "drop")] + [(0, 1, "close"), (nsess - 1, 2, "close")]
            for faults in fsets:
                for cancel in cancels:
                    if not thorough and nsess == 3 and cancel is not None and rng.random() < 0.5:
                        continue
                    for overlapped in (False, True):
                        if nsess == 1 and overlapped:
                            continue
                        end_mode = rng.choice(["quit", "drop", "close"])
                        ports, ch = systematic(nports, nsess, faults, cancel, overlapped, end_mode)
                        # the type of the data_ports argument rotates through every kind of iterable
                        drivers.append(("systematic", run_history(ports, ch, ptype=PTYPES[n_sys % len(PTYPES)])))
                        n_sys += 1
                        if nports >= 1 and (thorough or cancel is None or nsess == 1):
                            ports, ch = systematic(nports, nsess, faults, cancel, overlapped, end_mode, relogin=True)
                            drivers.append(("systematic-relogin", run_history(ports, ch)))
                            n_sysu += 1
                        # the same script on an IPv6 listener (PASV there: listener opened, then 503 and the session
                        # ends), with the first commands mixed PASV/EPSV or all EPSV (the later PASV meets a listener)
                        if nports in (1, 2) and (thorough or nsess <= 2 or cancel is None):
                            for all_epsv in (False, True):
                                ports, ch = systematic(nports, nsess, faults, cancel, overlapped, end_mode, all_epsv)
                                drivers.append(("systematic-ipv6", run_history(ports, ch, ipv6=True)))
                                n_sys6 += 1
    ctx.count("systematic_histories", n_sys)
    ctx.count("systematic_ipv6_histories", n_sys6)
    ctx.count("systematic_relogin_histories", n_sysu)

    # (c) random
    n_rand = budget or (8000 if thorough else 900)
    pools = [[30001], [30001, 30002], [30001, 30002, 30003], [30001, 30001], [30002, 30001, 30002], []]
    for _ in range(n_rand):
        ports = rng.choice(pools[:3]) if rng.random() < 0.8 else rng.choice(pools)
        v6 = rng.random() < 0.25
        d = run_history(ports, random_chooser(rng, 3, rng.randint(5, 22)), ipv6=v6, ptype=rng.choice(PTYPES))
        drivers.append(("random-ipv6" if v6 else "random", d))
    ctx.count("random_histories", n_rand)

    # (d) the TYPE of the data_ports argument: every kind of iterable the constructor accepts x pool size 0..3 (and a pool
    # with a duplicate for the types that can hold one) x fault-free / first port busy once, one full session each
    n_pt = 0
    for pt in PTYPES:
        for nports in (0, 1, 2, 3):
            for faults in (("free",) * nports, ("busy1",) + ("free",) * (nports - 1)) if nports else ((),):
                ports, ch = systematic(nports, 2 if nports > 1 else 1, faults, None, False, "quit")
                drivers.append(("ports-type", run_history(ports, ch, ptype=pt)))
                n_pt += 1
        d = run_history([30002, 30001, 30002], scripted([("connect",), ("pasv", 0, "PASV"), ("resume", 0, 0, "ok"), ("resume", 0, 0, "ok"),
                                                         ("work", 0, "LIST"), ("end", 0, "quit")]), ptype=pt)
        drivers.append(("ports-type", d))
        n_pt += 1
    ctx.count("ports_type_histories", n_pt)

    # model in one batch
    gb, rc = flags_from_gen()
    ctx.extra["source_shape"] = {"giveback_on_cancel": gb, "recheck_after_startup": rc}
    cases = [(0, [[d.ports, hier, list(fin), True, gb, rc, d.ipv6], d.events]) for _, d in drivers]
    mres = ctx.model(cases)
    qres = ctx.model([(2, c[1]) for c in cases])
    kinds = collections.Counter()
    xcheck = []
    n_quiet = 0
    for (stream, d), ms, q, case in zip(drivers, mres, qres, cases):
        for a in d.actions:
            kinds[a[0] + (":" + a[3] if a[0] == "resume" else "")] += 1
        kinds["data_ports:" + d.ptype] += 1
        ok = check_driver(ctx, d, ms, stream)
        lost_any = any(s["missing"] or s["orphans"] for s in d.snaps)
        if q == 1:
            n_quiet += 1
            # the partial theorem's statement, checked on the implementation: a quiet history loses nothing
            if lost_any:
                ctx.violation(
                    f"quiet history (no cancellation inside a start-up, no overlapping start-ups) lost a port: {d.actions}",
                    {"key": "c11-quiet-lost", "ports": d.ports, "ipv6": d.ipv6, "actions": d.actions},
                )
        if len(xcheck) < 30 and len(d.events) < 12 and stream != "exhaustive":
            xcheck.append((0, case[1], ms))
        if stream.startswith("random"):
            ctx.sample({"ports": d.ports, "ipv6": d.ipv6, "actions": d.actions})
        if len(ctx.violations) > 20:
            break
    for k, v in sorted(kinds.items()):
        ctx.count("action:" + k, v)
    ctx.count("quiet_histories", n_quiet)
    ctx.count("histories_with_loss", sum(1 for _, d in drivers if any(s["missing"] for s in d.snaps)))
    ok, out = core.vm_crosscheck(EXTRACT, xcheck)
    ctx.extra["vm_compute_crosscheck"] = {"cases": len(xcheck), "agree": ok}
    if not ok:
        ctx.obligation_broken("extraction-crosscheck", out)


def loopback_pool_after(script):
    """real TCP on 127.0.0.1, real asyncio.start_server: returns (configured ports, pool after everything)"""

    def free_ports(n):
        socks = [socket.socket() for _ in range(n)]
        for s in socks:
            s.bind(("127.0.0.1", 0))
        ports = [s.getsockname()[1] for s in socks]
        for s in socks:
            s.close()
        return ports

    async def main():
        ports = free_ports(3)
        server = aioftp.Server(None, data_ports=ports)
        await server.start("127.0.0.1", 0)
        r, w = await asyncio.open_connection("127.0.0.1", server.server_port)
        await r.readline()
        w.write(b"USER anonymous\r\n")
        await r.readline()
        await script(r, w)
        await asyncio.sleep(0.3)
        await server.close()
        return sorted(ports), sorted(p for (_, p) in server.available_data_ports._queue)

    lg = logging.getLogger("aioftp.server")
    old = lg.level
    lg.setLevel(logging.CRITICAL)
    try:
        return asyncio.run(main())
    finally:
        lg.setLevel(old)


def known(ctx):
    """re-run the witnesses of the refuted theorems on the real code (simnet, then real loopback TCP)"""
    fin = fin_from_gen()
    hier = hier_from_source()
    for name, (ports, actions, key) in WITNESSES.items():
        d = run_history(ports, scripted(actions))
        final = d.snaps[-1]
        lost = final["missing"]
        fid = ctx.match_known("", {"key": key})
        # a replay file per witness (deterministic content): bin/check C11 --replay evidence/replay/C11-witness-<name>.json
        wfile = core.VERIF / "evidence" / "replay" / f"C11-witness-{name}.json"
        wfile.parent.mkdir(parents=True, exist_ok=True)
        payload = {"property": ID, "kind": "known-finding-witness", "theorem": "C11_pool_conserved_refuted_" + name,
                   "replay": {"key": key, "ports": ports, "actions": [list(a) for a in actions]}}
        txt = json.dumps(payload, indent=1)
        if not wfile.exists() or wfile.read_text() != txt:
            wfile.write_text(txt)
        ctx.extra.setdefault("witness_replays", {})[name] = {
            "pool_after_all_sessions_ended": final["pool"], "lost": lost, "orphans": final["orphans"],
            "replay": f"evidence/replay/{wfile.name}"}
        if lost and fid:
            ctx.known_reproduced(fid, f"witness {name}: pool {final['pool']} of configured {ports}, orphan listeners {final['orphans']}")
        elif lost and not fid:
            ctx.violation(f"witness {name} loses {lost}", {"key": key, "ports": ports, "actions": [list(a) for a in actions]})
        elif not lost and fid:
            ctx.notes.append(f"known finding {fid}: witness {name} no longer reproduces on the implementation (fixed?)")
    # real sockets, real asyncio: the same two defects without any simulated scheduling
    try:

        async def pasv_then_vanish(r, w):
            w.write(b"PASV\r\n")
            w.close()

        async def pasv_pasv(r, w):
            w.write(b"PASV\r\nPASV\r\n")
            await r.readline()
            await r.readline()
            w.write(b"QUIT\r\n")
            await r.readline()

        lb = {}
        for name, script in (("cancel", pasv_then_vanish), ("overlap", pasv_pasv)):
            conf, pool = loopback_pool_after(script)
            lb[name] = {"configured": len(conf), "in_pool_after": len(pool)}
        ctx.extra["loopback_replays"] = lb
    except Exception as e:  # the loopback driver must never decide the outcome
        ctx.extra["loopback_replays"] = f"not run: {e!r}"


def search(ctx):
    if ctx.violations or ctx.tier == "thorough" or ctx.exe is None:
        return
    try:
        correspondence(ctx, budget=4000)
    except Exception as e:
        ctx.notes.append(f"search aborted: {e!r}")


def replay(ctx, data):
    """re-run one recorded history on the implementation; True when the property holds on it"""
    r = data.get("replay", {})
    if "actions" not in r:
        print("replay payload:", json.dumps(data)[:2000])
        return False
    # a recorded violation names the action that lost / duplicated / orphaned something (`upto`): the verdict is
    # about THAT action (later actions of the same history may hit a listed finding); a witness file has no `upto`
    upto = r.get("upto")
    actions = [tuple(a) for a in r["actions"]]
    d = run_history(r["ports"], scripted(actions[:upto] if upto else actions), ipv6=bool(r.get("ipv6")), ptype=r.get("ptype", "list"))
    want = r.get("key")
    print(d.init_bad or f"data_ports given as a {d.ptype} yielding {d.ports}: pool after construction as configured")
    for a, sn in zip(d.actions, d.snaps):
        print(f"after {a}: pool={sn['pool']} sessions={sn['sessions']} orphans={sn['orphans']} missing={sn['missing']} extra={sn['extra']}")
    found = oracle_findings(d)
    for k, key, text in found:
        print("ORACLE", key, text)
    # the verdict is about the recorded action and the recorded key (the same action may also hit a listed finding)
    if want == "c11-quiet-lost":
        # recorded by the correspondence for a whole history that the model calls quiet (no cancellation inside a
        # start-up, no overlap): on such a history ANY loss / duplicate / orphan is the violation
        hits = [(k, key) for (k, key, _) in found]
    else:
        hits = [(k, key) for (k, key, _) in found if (upto is None or k == upto - 1) and (want is None or key == want)]
    return not hits
