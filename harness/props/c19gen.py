"""C19 generators: grammar-aware producers of valid unix `ls -l` lines, windows `dir` lines, MLSx
lines, reply streams, PASV / EPSV / 257 payloads and control lines, and the mutators applied to
them (byte-level mutation, truncation, duplication, field swaps, non-UTF-8, unicode digits and
whitespace, very long fields).  All randomness comes from the rng handed in (ctx.rng)."""

MONTHS = ["Jan", "Feb", "Mar", "Apr", "May", "Jun", "Jul", "Aug", "Sep", "Oct", "Nov", "Dec"]
NAMES = ["name.txt", "dir", "a b", " lead", "trail ", "é", "日本", ".", "..", "...", "./", "a/..", "/", "//x", "x/y",
         "a -> b", "-> x", 'q"uo', "q'uo", "", "M", "PM", "sub dir", ".hidden", "a\tb", "٣", "a;b=c", "x y"]
SPECIAL_BYTES = [b" ", b"  ", b"-", b">", b" -> ", b"/", b"M", b'"', b"'", b"d", b"l", b"-", b",", b";", b"=", b".", b"..",
                 b"\xff", b"\x80", b"\xc3", b"\xc3\xa9", b"\xe2\x80\xa8", b"\xd9\xa3", b"\xc2\xb2", b"\x00", b"\t", b"\r",
                 b"\x0b", b"\x1c", b"\xc2\x85", b"\xc2\xa0", b"(", b")", b"|", b"0", b"9", b":", b"<DIR>", b"Feb 29", b"\xed\xa0\x80",
                 b"\xf4\x90\x80\x80", b"\xc0\xaf", b"\xe0\x80\xaf", b"\xf0\x9f\x98\x80", b"\xcf\x83", b"\xc5\xbf"]


def perm(rng):
    r = rng.random()
    if r < 0.85:
        return rng.choice(["rwxr-xr-x", "rw-r--r--", "rwxrwxrwx", "---------", "rwsr-sr-t", "rwxr-xr-t", "r--r--r--", "rwSr-Sr-T", "rw-r-Sr--", "rwxrwxrwT"])
    return "".join(rng.choice("rwx-stST?") for _ in range(rng.choice([9, 9, 9, 8, 10, 3])))


def ls_date(rng):
    if rng.random() < 0.75:  # strictly valid
        mon, day = rng.choice(MONTHS), rng.randint(1, 28)
        if rng.random() < 0.5:
            return f"{mon} {day:2d} {rng.randint(0, 23):02d}:{rng.randint(0, 59):02d}"
        return f"{mon} {day:2d}  {rng.randint(1970, 2037)}"
    r = rng.random()
    mon = rng.choice(MONTHS) if rng.random() < 0.9 else rng.choice(["Foo", "jan", "FEB", "ſep", "Sept", ""])
    day = rng.choice([1, 3, 9, 10, 18, 28, 29, 30, 31, 0, 32])
    if r < 0.45:
        return f"{mon} {day:2d} {rng.randint(0, 24):02d}:{rng.choice([0, 5, 29, 59, 60]):02d}"
    if r < 0.85:
        return f"{mon} {day:2d}  {rng.choice([1958, 1970, 1999, 2000, 2016, 2024, 2038, 9999, 0, 1])}"
    if r < 0.93:
        return f"{mon} {day:02d} {rng.choice([1999, 2018, 2024])}"
    return rng.choice(["Feb 29 10:00", "Feb 29  2024", "Feb 29  2023", "Feb 30 10:00", "Feb 29 25:00", "now", "", "Jan  1 1:2", "Nov 18 12:29x"])


def unix_line(rng):
    t = rng.choice("-dl-dlbcps?")
    name = rng.choice(NAMES)
    if t == "l" and rng.random() < 0.8:
        name = name + " -> " + rng.choice(["/target/", "file", "'", '"', "dir/'", 'dir/"', "x'", "", "/", "a -> b/"])
    sep = lambda: rng.choice([" ", " ", "  ", "   ", "\t", " \t "])
    f = [t + perm(rng), str(rng.choice([1, 2, 10, 0])) if rng.random() < 0.95 else rng.choice(["x", "", "²", "٣", "1a"]),
         rng.choice(["owner", "0", "root", "é"]), rng.choice(["group", "0", "wheel"]),
         str(rng.choice([0, 1, 1234, 4096, 10**12])) if rng.random() < 0.95 else rng.choice(["1,024", "x", "", "²", "٣٤"]),
         ls_date(rng)]
    s = f[0] + sep() + f[1] + sep() + f[2] + sep() + f[3] + sep() + f[4] + sep() + f[5] + " " + name
    return s.encode("utf-8") + rng.choice([b"\r\n", b"\r\n", b"\n", b""])


def win_line(rng):
    if rng.random() < 0.7:  # strictly valid
        d = f"{rng.randint(1, 12):02d}/{rng.randint(1, 28):02d}/{rng.randint(1980, 2037)}"
        t = f"{rng.randint(1, 12):02d}:{rng.randint(0, 59):02d} {rng.choice(['AM', 'PM'])}"
        mid = "<DIR>" if rng.random() < 0.5 else rng.choice(["0", "12", "1,024", "1,234,567"])
        name = rng.choice(NAMES)
        return f"{d}  {t}    {mid:<14} {name}".encode("utf-8") + rng.choice([b"\r\n", b"\r\n", b"\n", b""])
    mm, dd, yy = rng.choice([1, 10, 12, 13, 0]), rng.choice([1, 27, 31, 30, 32]), rng.choice([2016, 1999, 2024, 0, 9999, 16])
    hh, mi = rng.choice([1, 6, 12, 0, 13]), rng.choice([0, 2, 59, 60])
    ap = rng.choice(["AM", "PM", "PM", "pm", "aM", "XM", "M", ""])
    d = f"{mm:02d}/{dd:02d}/{yy:04d}" if rng.random() < 0.8 else f"{mm}/{dd}/{yy}"
    t = f"{hh:02d}:{mi:02d}" if rng.random() < 0.8 else f"{hh}:{mi}"
    name = rng.choice(NAMES)
    if rng.random() < 0.45:
        mid = "<DIR>" if rng.random() < 0.9 else rng.choice(["<DIR>x", "<dir>", "<JUNCTION>"])
    else:
        mid = rng.choice(["1,024", "0", "12", "1,234,567", "x", "", "1.5", "٣", "²", ",", "1,,2"])
    gap = lambda: rng.choice(["  ", " ", "    ", "\t", "          "])
    s = d + gap() + t + rng.choice([" ", "", "  "]) + ap + gap() + mid + gap() + name
    return s.encode("utf-8") + rng.choice([b"\r\n", b"\r\n", b"\n", b"", b" \r\n"])


def mlsx_line(rng):
    facts = []
    r = rng.random()
    if r < 0.8:
        facts.append(rng.choice(["type", "Type", "TYPE", "tYpe"]) + "=" + rng.choice(["file", "dir", "cdir", "pdir", "OS.unix=slink:/x", "DIR", ""]))
    for _ in range(rng.randint(0, 3)):
        facts.append(rng.choice(["size=10", "Size=0", "modify=20200101000000", "perm=el", "unique=1g", "unix.mode=0755", "x", "=", "a=b=c",
                                 "type=dir", "TYPE=file", "İ=1", "K=k", "ſ=s", "Σ=σ", "", "lang=en;", "é=é"]))
    rng.shuffle(facts)
    fs = ";".join(facts) + (";" if rng.random() < 0.85 else "")
    r = rng.random()
    if r < 0.8:
        s = fs + " " + rng.choice(NAMES)
    elif r < 0.9:
        s = fs
    else:
        s = rng.choice(["garbage", "", " ", "  x", ";", "; ", "=", "type=dir;", "type=dir; ", "total 12"])
    return s.encode("utf-8") + rng.choice([b"\r\n", b"\r\n", b"\n", b""])


def swap_fields(rng, b):
    parts = b.split(b" ")
    if len(parts) < 3:
        return b
    i, j = rng.sample(range(len(parts)), 2)
    parts[i], parts[j] = parts[j], parts[i]
    return b" ".join(parts)


def mutate(rng, b, long_ok=True):
    """returns (mutated bytes, kind)"""
    b = bytearray(b)
    r = rng.random()
    if r < 0.22:
        kind = "byte-flip"
        for _ in range(rng.randint(1, 3)):
            if b:
                b[rng.randrange(len(b))] = rng.randrange(256)
    elif r < 0.36:
        kind = "delete"
        for _ in range(rng.randint(1, 3)):
            if b:
                i = rng.randrange(len(b))
                del b[i : i + rng.choice([1, 1, 2, 5])]
    elif r < 0.58:
        kind = "insert-special"
        for _ in range(rng.randint(1, 3)):
            i = rng.randrange(len(b) + 1)
            b[i:i] = rng.choice(SPECIAL_BYTES)
    elif r < 0.70:
        kind = "truncate"
        b = b[: rng.randrange(len(b) + 1)]
    elif r < 0.78:
        kind = "duplicate"
        if b:
            i = rng.randrange(len(b))
            j = min(len(b), i + rng.randint(1, 12))
            b[i:i] = bytes(b[i:j]) * rng.randint(1, 3)
    elif r < 0.86:
        kind = "field-swap"
        b = bytearray(swap_fields(rng, bytes(b)))
    elif r < 0.93:
        kind = "non-utf8"
        i = rng.randrange(len(b) + 1)
        b[i:i] = rng.choice([b"\xff", b"\x80", b"\xc3", b"\xe2\x82", b"\xed\xa0\x80", b"\xf4\x90\x80\x80", b"\xc0\xaf", b"\xf8"])
    elif r < 0.97 or not long_ok:
        kind = "two-mutations"
        b1, _ = mutate(rng, bytes(b), long_ok)
        b2, _ = mutate(rng, b1, long_ok)
        return b2, kind
    else:
        kind = "long-field"
        i = rng.randrange(len(b) + 1)
        b[i:i] = rng.choice([b"9", b"a", b" ", b"\xc3\xa9", b"1,", b";x=y"]) * rng.choice([100, 1000, 5000])
    return bytes(b), kind


# ---- str payloads (already decoded + rstripped by parse_line) ----
def pasv_payload(rng):
    nums = [str(rng.choice([0, 1, 127, 192, 255, 256, 999, 10])) for _ in range(rng.choice([6, 6, 6, 6, 5, 4, 7, 8, 1, 0]))]
    for i in range(len(nums)):
        if rng.random() < 0.12:
            nums[i] = rng.choice(["-1", "+3", " 7 ", "4_0", "٣", "²", "", "a", "1 2", "_1", "1_", "1__0", "\x1c5", "\x855", "\xa05", "0x10", "1.5",
                                  "0" * 4299 + "9", "0" * 4300 + "9", "−5", "\t5\n", "5\x00", "٣_4", "১২"])
    body = ",".join(nums)
    r = rng.random()
    if r < 0.6:
        s = "Entering Passive Mode (" + body + ")" + rng.choice(["", ".", " ok"])
    elif r < 0.7:
        s = "(" + body
    elif r < 0.78:
        s = body
    elif r < 0.86:
        s = rng.choice(["x(a)", "()", "(", "((", "a(b(c)"]) + "(" + body + ")"
    else:
        s = "=" + body + rng.choice([")", "(", "()", ""])
    return " " + s


def epsv_payload(rng):
    d = rng.choice(["|", "|", "|", "!", "1", "9", "٣", "(", ")", " ", "\n", "\r", "é", "\x00"])
    port = rng.choice(["1", "21", "65535", "0", "99999", "٣٤", "12٣", "", "0" * 4299 + "1", "0" * 4300 + "1", "2²", "1a", "1 2", "1" + d, d + "1", d])
    core = "(" + d * 3 + port + d + ")"
    r = rng.random()
    if r < 0.55:
        s = "Entering Extended Passive Mode " + core
    elif r < 0.7:
        s = core + " " + "(" + rng.choice("|!") * 3 + rng.choice(["7", "88", ""]) + rng.choice("|!") + ")"
    elif r < 0.8:
        s = core[:-1]
    elif r < 0.9:
        s = "(" + d * rng.choice([0, 1, 2, 4]) + port + d + ")"
    else:
        s = rng.choice(["", "(", "()", "((((1()", "(1111)", "(11111)", "(111231)", "(|||1|)(|||2|", "(||||)", "(|||1||)"])
    return " " + s


def dir_payload(rng):
    name = rng.choice(["/", "/a", "/a b", 'a"b', 'a""b', "//x", "/a/./b/", "", ".", "é", '"', '""', "/x/../y"])
    r = rng.random()
    if r < 0.5:
        s = '"' + name.replace('"', '""') + '"' + rng.choice(["", " created", " is current directory", '"', ' "x"'])
    elif r < 0.7:
        s = '"' + name + '"' + rng.choice(["", " x"])
    elif r < 0.8:
        s = name
    else:
        s = rng.choice(['"', '"abc', '""x', '"a"""b"', '"a""""b"', 'x"y', '"""', '""""', '"a" "b"', '"a""'])
    return " " + s


ALPHA_TXT = list(" ()|,\"0159a-_+\n\r\t.;=/") + ["٣", "²", "é", "\x85", "\xa0", "\x1c", "\x00", "M", "|"]


def mutate_text(rng, s):
    s = list(s)
    r = rng.random()
    if r < 0.3 and s:
        s[rng.randrange(len(s))] = rng.choice(ALPHA_TXT)
        kind = "char-flip"
    elif r < 0.5 and s:
        del s[rng.randrange(len(s))]
        kind = "delete"
    elif r < 0.75:
        s.insert(rng.randrange(len(s) + 1), rng.choice(ALPHA_TXT))
        kind = "insert-special"
    elif r < 0.88:
        s = s[: rng.randrange(len(s) + 1)]
        kind = "truncate"
    else:
        if s:
            i = rng.randrange(len(s))
            s[i:i] = s[i : i + rng.randint(1, 6)] * rng.randint(1, 3)
        kind = "duplicate"
    return "".join(s), kind


def reply_stream(rng):
    code = rng.choice(["200", "227", "229", "257", "150", "226", "550", "999", "000"])
    n = rng.choice([1, 1, 2, 3, 4])
    out = []
    for i in range(n):
        last = i == n - 1
        r = rng.random()
        c = code if r < 0.7 else rng.choice(["200", "12", "", " 20", "²²²", "٣٣٣", "abc", "2 0"])
        sep = " " if last and rng.random() < 0.8 else rng.choice(["-", "-", " ", ""])
        txt = rng.choice(["ok", "", " ", "Entering (|||1|)", "é", "-", "200 x", "x" * rng.choice([3, 30, 70, 200])])
        out.append((c + sep + txt).encode("utf-8") + rng.choice([b"\r\n", b"\r\n", b"\r\n", b"\n", b" \r\n"]))
    b = b"".join(out)
    if rng.random() < 0.25:
        b = b[: rng.randrange(len(b) + 1)]
    return b


VERBS = ["USER", "PASS", "PWD", "CWD", "LIST", "MLSD", "MLST", "RETR", "STOR", "REST", "TYPE", "PASV", "EPSV", "RNFR", "RNTO", "DELE",
         "MKD", "RMD", "SYST", "FEAT", "NOOP", "ABOR", "APPE", "CDUP", "QUIT", "HELP", "XYZZY", "", "user", "PaSs", "ſyst", "SİTE"]
ARGS = ["", "anonymous", "/", "..", "../../etc/passwd", "a b", "  x  ", "²", "٣", "-1", "99999999999999999999", "I", "A", "Z", "é",
        "\x00", "a\x00b", "/" * 300, "x" * 2000, "%s%n", "|||", "1,2,3,4,5,6", "|1|127.0.0.1|1|", "\t", "*", "-la", "a\rb"]


def control_line(rng):
    return (rng.choice(VERBS) + rng.choice([" ", " ", "", "  ", "\t"]) + rng.choice(ARGS)).encode("utf-8") + rng.choice([b"\r\n", b"\r\n", b"\n", b"", b"\r"])


# ----------------------------------------------------------------------------- well-formed inputs (hypotheses of the exactness theorems)
# Each generator returns (components, input) where the input satisfies EXACTLY the hypotheses of the corresponding
# C19_*_exact theorem of coq/Props/C19.v; the harness computes the expected value from the components alone.
KEY_ALPHA = "abcxyzTYPESIZEModifyUNIX.-_019ÉÜßé"
VAL_ALPHA = "abcXYZ0123456789.-_/=:+é日\t"
NAME_ALPHA = "abcXYZ019 .-_/>;=\"'é日本"
EOLS = ["\r\n", "\n", "", " \r\n", "\t\r\n", "\r", "\x0b"]


def _tok(rng, alpha, lo=1, hi=8):
    return "".join(rng.choice(alpha) for _ in range(rng.randint(lo, hi)))


def wf_name(rng, head_nonspace):
    while True:
        s = rng.choice(NAMES) if rng.random() < 0.3 else _tok(rng, NAME_ALPHA, 1, 12)
        if s and s.rstrip() == s and (not head_nonspace or not s[0].isspace()):
            return s


def wf_mlsx(rng):
    k = rng.randint(1, 6)
    facts = []
    for _ in range(k):
        key = rng.choice(["type", "Type", "TYPE", "size", "Size", "modify", "unix.mode", "perm", ""]) if rng.random() < 0.6 else _tok(rng, KEY_ALPHA, 0, 8)
        val = rng.choice(["file", "dir", "cdir", "pdir", "12", "20200101000000", ""]) if rng.random() < 0.6 else _tok(rng, VAL_ALPHA, 0, 10)
        facts.append((key, val))
    name, eol = wf_name(rng, False), rng.choice(EOLS)
    return (facts, name), "".join(f"{k}={v};" for k, v in facts) + " " + name + eol


def wf_digits(rng):
    r = rng.random()
    if r < 0.7:
        return str(rng.randrange(0, 70000))
    if r < 0.9:
        return "0" * rng.randint(1, 4) + str(rng.randrange(0, 256))
    if r < 0.97:
        return "".join(rng.choice("0123456789") for _ in range(rng.choice([12, 20, 40])))
    # up to the 4300-digit limit of int(); leading zeros keep the VALUE small (the extracted model has unary-ish big-number division)
    tail = str(rng.randrange(0, 70000))
    return "0" * (rng.choice([300, 4299, 4300]) - len(tail)) + tail


def _text_without(rng, banned, hi=20):
    alpha = [ch for ch in "abc 019()|,.\"-\r\n\té日" if ch not in banned]
    return "".join(rng.choice(alpha) for _ in range(rng.randint(0, hi)))


def wf_epsv(rng):
    pre, ds, post = _text_without(rng, "("), wf_digits(rng), _text_without(rng, "(")
    return ds, pre + "(|||" + ds + "|)" + post


def wf_pasv(rng):
    pre, post = _text_without(rng, "("), _text_without(rng, "")
    ds = [wf_digits(rng) for _ in range(6)]
    return ds, pre + "(" + ",".join(ds) + ")" + post


def wf_dir(rng):
    # any path: quotes anywhere, several in a row, at the very end (C19_directory_exact holds for every d since the F08 repair)
    d = "".join('"' if rng.random() < 0.25 else rng.choice("abc/ .-_é日'") for _ in range(rng.randint(0, 12)))
    pre = _text_without(rng, '"')
    post = "" if rng.random() < 0.3 else rng.choice("abc .-é") + _text_without(rng, "")
    return d, pre + '"' + d.replace('"', '""') + '"' + post


def wf_unix(rng):
    t = rng.choice("-dbcps?xé") if rng.random() < 0.9 else rng.choice(" \t-d")
    m = perm(rng)
    links, size = wf_digits(rng), wf_digits(rng)

    def ident():
        while True:
            s = _tok(rng, "abcROOT019._-\t$é", 1, 8)
            if not s[0].isspace():
                return s

    owner, group = ident(), ident()
    r = rng.random()
    if r < 0.7:
        date = ls_date(rng)
        date = (date + " " * 12)[:12] if len(date) <= 12 else date[:12]
    else:
        date = _tok(rng, "JanFeb 0123456789:x", 12, 12)
    if date[0].isspace():
        date = "J" + date[1:]
    name, eol = wf_name(rng, True), rng.choice(EOLS)
    line = t + m + " " + links + " " + owner + " " + group + " " + size + " " + date + " " + name + eol
    return (t, m, links, owner, group, size, date, name), line


def wf_win(rng):
    """(date, time, ap, col, name), line -- hypotheses of C19_windows_dir_exact / C19_windows_file_exact"""
    if rng.random() < 0.75:
        d = f"{rng.randint(1, 12):02d}/{rng.randint(1, 28):02d}/{rng.randint(1970, 2037)}"
        tm = f"{rng.randint(1, 12):02d}:{rng.randint(0, 59):02d}"
    else:
        d, tm = _tok(rng, "0123456789/-x", 1, 10), _tok(rng, "0123456789:x", 1, 5)
    ap = rng.choice("AP") if rng.random() < 0.9 else rng.choice("xp0")
    if rng.random() < 0.4:
        col = "<DIR>"
    else:
        n = str(rng.randrange(0, 10**9))
        col = rng.choice([n, f"{int(n):,}", "0" + n, "," + n, n + ","])
    while True:
        name = rng.choice(NAMES) if rng.random() < 0.3 else _tok(rng, NAME_ALPHA + "\t", 1, 12)
        if name and not name[0].isspace() and name.rstrip("\r\n") == name and name not in (".", ".."):
            break
    eol = rng.choice(["\r\n", "\n", "", "\r", "\n\r\n"])
    line = d + " " + tm + " " + ap + "M" + " " * rng.randint(1, 6) + col + " " * rng.randint(1, 10) + name + eol
    return (d, tm, ap, col, name), line


# ----------------------------------------------------------------------------- complexity bait ("never hangs")
# Inputs on which a backtracking matcher with a careless pattern explodes: long runs of one character class that ALMOST match and
# then fail at the very end (unclosed parenthesis / quote, wrong terminator), runs with optional separators, nested openers.
def bait(rng, family):
    k = rng.choice([28, 40, 64, 120, 400])
    unit = rng.choice(["1", "0", "9", "12", "1,", ",", "1,1", "٣", " ", "|", "(", ")", "((", "()", '"', '""', "a", "1|", "|1", ".", "1 ", "M", " -> "])
    if any(ch.isdigit() for ch in unit):
        k = min(k, 64 // len(unit) + 1)  # numbers stay below ~64 digits: the extracted model prints integers with schoolbook division
    run = unit * k
    opener = {"pasv": ["(", "((", "x(", "Entering Passive Mode ("], "epsv": ["(|||", "(", "(111", "(|||1|)(|||", "((("],
              "dir": ['"', '""', 'x"', '"a""'], "line": ["", "-rw-r--r-- 1 o g 1 ", "10/27/2016  06:02 PM ", "type=file;"]}[family]
    closer = ["", "x", " )", ".", ";", "|", "| )", '" ', "\t", ")x(", "(", "!"]
    return rng.choice(opener) + run + rng.choice(closer)


BAIT_FIXED = {
    "pasv": [" (" + "1" * 30, " (" + "1" * 64, " (" + "1" * 64 + " )", " (" + "1," * 40 + "x", " (" + "1" * 40 + ",", " Entering Passive Mode (" + "9" * 64 + ".",
             " (" + "(" * 200, " " + "(" * 300 + ")" * 300, " (" + "1,1" * 60 + "a)", " (" + "," * 500, " (" + "1 " * 80],
    "epsv": [" (|||" + "1" * 64, " (|||" + "1" * 64 + "x)", " (111" + "1" * 80, " (" + "|" * 300, " " + "(|||1|" * 100, " (" + "1" * 60 + ")", " ((((" * 100,
             " (|||" + "٣" * 100 + "x"],
    "dir": [' "' + '"' * 301, ' "' + 'a""' * 200, ' ' + '"' * 1000, ' "' + "a" * 5000, ' "' + '""' * 500 + "x"],
}


# ---- lines that are well-formed UP TO one column and broken ONLY there (bounded-exhaustive: base line x column x broken value) ----
# A parser reaches the code that handles column k only on a line whose columns < k are valid; a line that is garbage from the first
# byte ends in the first check.  Every column of the three listing formats gets its own broken values, everything else stays valid,
# so each parsing step (and whatever library / environment it depends on: strptime, the process locale) sees malformed input.
UNIX_BASES = [
    # (type+mode, links, owner, group, size, month, day, time-or-year, name)
    ("-rw-r--r--", "1", "poh", "poh", "6595", "Feb", "27", "12:30", "history.rst"),
    ("drwxr-xr-x", "2", "0", "0", "4096", "Mar", " 1", " 2018", "docs"),
    ("lrwxrwxrwx", "1", "root", "wheel", "11", "Nov", "18", "23:59", "link -> /target/'"),
]
UNIX_BROKEN = {
    "type": ["", "?", "é", "D"],
    "mode": ["rw-r--r-", "rw-r--r-?", "rwxrwxrwz", "---------x", "rw"],
    "links": ["x", "", "²", "1a", "-1"],
    "owner": [""],
    "group": [""],
    "size": ["x", "", "1,024", "²", "1.5", "-1"],
    "month": ["Foo", "Sept", "13", "", "мар", "ſep", "Fe", "Febr"],
    "day": ["0", "32", "31", "xx", "٣", "-1", ""],
    "time": ["25:61", "24:00", "12:60", "xx:yy", "1230", "12:3x", "١٢:٣٠", ":", "12:"],
    "year": [" 0000", "10000", " abcd", "-2018", " 20x8", " ٢٠١٨", "     "],
    "name": ["", " ", ".", ".."],
    "link": [" -> ", "a -> ", "a -> '", 'a -> "'],
}
WIN_BASES = [
    # (date, time, am/pm, <DIR>-or-size, name)
    ("03/15/2018", "10:12", "AM", "<DIR>", "folder"),
    ("10/27/2016", "06:02", "PM", "1,234", "file.bin"),
]
WIN_BROKEN = {
    "date": ["13/45/2018", "00/10/2018", "02/30/2018", "2018-03-15", "03/15/18x", "03.15.2018", "٠٣/١٥/٢٠١٨", "3/15", ""],
    "time": ["77:12", "00:00", "13:00", "12:60", "1012", "xx:yy", "10:", ""],
    "ampm": ["XM", "M", "am.M", "ÄM", "pM M"],
    "mid": ["1.5", "x", "<DIR>x", "<dir>", "²", "1,,2", ","],
    "name": ["", ".", ".."],
}
MLSX_BASES = [("type=file;size=10;modify=20200101000000;", "name.txt"), ("Type=dir;perm=el;", "sub dir")]
MLSX_BROKEN = {
    "facts": ["size=10;", "type;", "=file;", "typefile;", ";", "type=file", "type=file;;size", "TYPE=", "size=1;type"],
    "sep": [""],
    "name": ["", " ", ".", ".."],
}


def column_cases():
    """[(line bytes, family, 'column:<which>')]: for every base line, every column, every broken value -- the other columns untouched"""
    out = []
    for mode, links, owner, group, size, mon, day, ty, name in UNIX_BASES:
        def build(**kw):
            f = dict(mode=mode, links=links, owner=owner, group=group, size=size, mon=mon, day=day, ty=ty, name=name)
            f.update(kw)
            date = (f["mon"] + " " + f["day"] + " " + f["ty"]).ljust(12)[:12] if "date" not in kw else kw["date"]
            return f"{f['mode']} {f['links']} {f['owner']} {f['group']} {f['size']} {date} {f['name']}\r\n".encode("utf-8")

        out.append((build(), "unix", "column:none"))
        for col, vals in UNIX_BROKEN.items():
            for v in vals:
                if col == "type":
                    b = build(mode=v + mode[1:])
                elif col == "mode":
                    b = build(mode=mode[0] + v)
                elif col == "month":
                    b = build(mon=v)
                elif col == "day":
                    b = build(day=v)
                elif col in ("time", "year"):
                    b = build(ty=v)
                elif col == "link":
                    if not mode.startswith("l"):
                        continue
                    b = build(name=v)
                else:
                    b = build(**{col: v})
                out.append((b, "unix", "column:" + col))
        # the 12-character date column as a whole
        for d in ["Feb 31 12:30", "Feb 29 xx:yy", "Foo 27  2018", "xxxxxxxxxxxx", "            ", "Feb 30  2018", "Jan  1 00:60", "2018-02-27 1", "Feb 27 12:30"[::-1]]:
            out.append((build(date=d), "unix", "column:date"))
    for date, time, ap, mid, name in WIN_BASES:
        def wbuild(**kw):
            f = dict(date=date, time=time, ampm=ap, mid=mid, name=name)
            f.update(kw)
            return f"{f['date']}  {f['time']} {f['ampm']}    {f['mid']:<14} {f['name']}\r\n".encode("utf-8")

        out.append((wbuild(), "windows", "column:none"))
        for col, vals in WIN_BROKEN.items():
            for v in vals:
                out.append((wbuild(**{col: v}), "windows", "column:" + col))
    for facts, name in MLSX_BASES:
        out.append(((facts + " " + name + "\r\n").encode("utf-8"), "mlsx", "column:none"))
        for v in MLSX_BROKEN["facts"]:
            out.append(((v + " " + name + "\r\n").encode("utf-8"), "mlsx", "column:facts"))
        out.append(((facts + name + "\r\n").encode("utf-8"), "mlsx", "column:sep"))
        for v in MLSX_BROKEN["name"]:
            out.append(((facts + " " + v + "\r\n").encode("utf-8"), "mlsx", "column:name"))
    return out


def column_broken(rng):
    """one random column case, optionally with a random valid prefix/suffix variation (line ending)"""
    b, fam, kind = rng.choice(column_cases())
    if rng.random() < 0.3:
        b = b.rstrip(b"\r\n") + rng.choice([b"\n", b"", b"\r\n"])
    return b, fam, kind
