"""C15 — speed limits bound the cumulative rate, compose, cost nothing when off.

Correspondence of coq/Model/Throttle.v with the REAL aioftp.common.Throttle / StreamThrottle /
ThrottleStreamIO, run under a virtual clock with exact rational (fractions.Fraction) times and
limits (the code is duck-typed: every value it computes is an exact rational), plus a float stream
on dyadic inputs; the property oracle (the cumulative inequality, evaluated on the REAL trace,
independent of the model); the wiring facts of Gen/Wiring.v against object identities in a live
loopback session; end-to-end in VIRTUAL time on harness/simnet.py (real Server + Client: limit levels x direction x
sessions x timeouts on the limited side; login histories under a per-user limit); thorough tier: end-to-end
loopback transfers with small limits in real time.

Streams of the virtual-clock traces may carry read/write timeouts (the event loop's timers are virtual too), a socket
I/O that outlasts its timeout ends in asyncio.TimeoutError (model event Abort), and ANY exception the implementation
raises is an event of the trace ("raise": model says X, implementation raised E), never the end of the run.

How the real code is driven (nothing in /repo is edited):
  * `asyncio.sleep` (looked up as `asyncio.sleep` by aioftp.common at call time) is replaced, while a
    case runs, by a virtual sleep that parks the caller on a heap of exact wake times;
  * `aioftp.common._now` is replaced by the virtual clock;
  * the event loop is a SelectorEventLoop whose `_run_once` advances the virtual clock to the next
    parked wake time whenever nothing is ready;
  * `Throttle.wait` is wrapped (class attribute, the original coroutine function is still what
    runs) only to RECORD the instant at which each wait task evaluates the throttle;
  * streams are real ThrottleStreamIO objects over fake reader/writer objects whose read()/drain()
    take a scripted virtual duration and return a scripted number of bytes.
Mode A calls the real read()/readline()/write(); mode B replicates only their awaiting shell
(`await stream.wait(name)`; start; I/O; `stream.append(name, data, start)`) in order to put an
arbitrary extra delay between the wait and the start (the real shell always starts at the wake
instant)."""
import asyncio
import contextvars
import heapq
import json
import time
from fractions import Fraction as F

import aioftp
import aioftp.common as common

from .. import sx

ID = "C15"
EXTRACT = "ExC15"
TECHNIQUE = (
    "Coq proof over Q (invariant sum = T - C, |C - L(start - t0)| <= r/2; covering/counting lemma for k streams; "
    "simulation from a store of shared throttle objects to each single throttle) about an executable model of "
    "Throttle.wait/append/limit/clone and ThrottleStreamIO.wait/append/read/readline/write, tied to the code by "
    "(a) py2v wiring facts + a closed checker obligation, (b) differential correspondence of the extracted model "
    "against the real classes under a virtual clock with exact rational arithmetic"
)
LEVEL_TEXT = (
    "Theorems C15_fold_invariant, C15_resets_bounded, C15_scheduled_within_rate, C15_shared_bound, "
    "C15_single_stream_bound, C15_no_excess_delay, C15_sys_projects, C15_tightest_governs_max, "
    "C15_tightest_governs_all, C15_sys_shared_bound, C15_independent, C15_clone_no_memory, C15_off_is_free(_one), "
    "C15_round_half_even_error are proved for every positive rational limit, every reset period >= 0, every number of "
    "streams and throttle objects and every interleaving of evaluate/start/complete/ABORT events (an operation that ends "
    "without append: timeout of the timed socket I/O, connection error, cancellation) with arbitrary block sizes "
    ">= 0, durations and gaps (Closed under the global context). C15_timed_end_spec, C15_timeout_does_not_move_start, "
    "C15_timed_op_in_model: every read/readline/write on a stream with ANY read/write timeout is such a trace, its I/O "
    "starts at the throttles' wake time whatever the timeout. C15_per_user_shared_over_histories: after any history of "
    "logins, re-logins and disconnects two live sessions hold the same per-user object iff they have the same user "
    "(C15_per_user_pop_refuted otherwise). The bound that holds is L*(t - t0) + r/2 + blocks in "
    "flight with r <= (t - t0)/reset_rate resets; the literal bound of the property text (no r/2) is refuted "
    "(C15_literal_bound_refuted, finding F15). C15_wiring is a closed vm_compute obligation over facts regenerated "
    "from the source on every run. The model is hand-written; its tie is a differential correspondence (thousands of "
    "virtual-time traces per run, every wake time and every (start, sum) state compared exactly) plus a live "
    "object-identity check of the wiring, so the assurance is a proof about the model plus sampled agreement."
)
LEVEL_NOTE = (
    "Trusted: Coq kernel; extraction cross-checked with vm_compute; harness virtual clock. Modelled, not verified: "
    "asyncio.sleep accuracy and task scheduling (asyncio.wait on all tasks = wake at the max), float rounding in "
    "production (theorems are over Q; the float stream on dyadic inputs is validation only), len(data) = bytes moved. "
    "The window origin t0 is the throttle's own first recorded start (with several streams it can be later than the "
    "earliest in-flight start; the upper bound is then stronger, the no-excess-delay direction is relative to t0)."
)
TRUSTED = [
    "virtual clock harness: asyncio.sleep / aioftp.common._now replaced while a case runs; Throttle.wait wrapped only to "
    "record the evaluation instant (the original coroutine function runs)",
    "asyncio semantics assumed by the model: the wait tasks of one stream.wait() evaluate atomically w.r.t. other "
    "coroutines; asyncio.wait(tasks) resumes when the last sleep ends",
]
ASSUMPTIONS = [
    "modelled, not verified: asyncio.sleep accuracy; float arithmetic of production runs (exact on dyadic inputs, exercised)",
    "reset_rate >= 0 and limit fixed during an epoch for the rate theorems (limit setter starts a new epoch)",
]

KNOWN_KEY = "c15-rounding-slack"
KNOWN_ID = "F15-throttle-reset-rounding"

# ---------------------------------------------------------------------------------------------
# virtual time

ACTOR = contextvars.ContextVar("c15_actor", default=None)
IN_WAIT = contextvars.ContextVar("c15_in_wait", default=None)
RUN = None  # the Recorder of the case being run


class VTimer:
    """what loop.call_later / call_at return on the virtual loop (asyncio.TimerHandle look-alike): the
    timers of asyncio.wait_for / asyncio.timeout / asyncio.wait(timeout=) live on the same exact heap
    as the virtual sleeps"""

    __slots__ = ("_when", "cb", "args", "context", "_cancelled")

    def __init__(self, when, cb, args, context):
        self._when, self.cb, self.args, self.context, self._cancelled = when, cb, args, context, False

    def cancel(self):
        self._cancelled = True

    def cancelled(self):
        return self._cancelled

    def when(self):
        return self._when


class VClock:
    def __init__(self, now):
        self.now = now
        self.heap = []
        self.seq = 0
        self.loop = None

    def park(self, delay, fut):
        heapq.heappush(self.heap, (self.now + delay, self.seq, fut))
        self.seq += 1

    def park_at(self, when, item):
        heapq.heappush(self.heap, (when, self.seq, item))
        self.seq += 1

    def advance(self):
        while self.heap and self.heap[0][2].cancelled():
            heapq.heappop(self.heap)
        if not self.heap:
            return False
        when = self.heap[0][0]
        if when > self.now:
            self.now = when
        while self.heap and self.heap[0][0] == when:
            _, _, item = heapq.heappop(self.heap)
            if item.cancelled():
                continue
            if isinstance(item, VTimer):
                self.loop.call_soon(item.cb, *item.args, context=item.context)
            else:
                item.set_result(None)
        return True


class VLoop(asyncio.SelectorEventLoop):
    """time() is the virtual clock (an exact Fraction, or a float in the float stream); call_later /
    call_at park on the virtual heap, so nothing ever waits in real time"""

    def __init__(self, vc):
        super().__init__()
        self.vc = vc
        vc.loop = self

    def time(self):
        return self.vc.now

    def call_later(self, delay, callback, *args, context=None):
        return self.call_at(self.vc.now + delay, callback, *args, context=context)

    def call_at(self, when, callback, *args, context=None):
        t = VTimer(when, callback, args, context)
        self.vc.park_at(when, t)
        return t

    def _run_once(self):
        if not self._ready and not self._stopping:
            if not self.vc.advance() and not self._scheduled:
                raise RuntimeError("virtual clock: nothing ready and nothing parked (deadlock)")
        super()._run_once()

    def shutdown(self):
        """cancel what a case left behind (e.g. throttle wait tasks nobody awaits any more) and close"""
        try:
            pending = [t for t in asyncio.all_tasks(self) if not t.done()]
            for t in pending:
                t.cancel()
            if pending:
                self.run_until_complete(asyncio.gather(*pending, return_exceptions=True))
        finally:
            self.close()


async def vsleep(delay, result=None):
    loop = asyncio.get_running_loop()
    vc = loop.vc
    th = IN_WAIT.get()
    if th is not None and RUN is not None:
        RUN.on_throttle_sleep(ACTOR.get(), th, vc.now + delay)
    fut = loop.create_future()
    vc.park(delay, fut)
    await fut
    return result


def vnow():
    vc = asyncio.get_running_loop().vc
    if IN_WAIT.get() is None and RUN is not None and ACTOR.get() is not None:
        RUN.on_start(ACTOR.get(), vc.now)
    return vc.now


_orig_wait = None


async def _wait_shim(self):
    if RUN is not None and ACTOR.get() is not None:
        RUN.on_eval(ACTOR.get(), asyncio.get_running_loop().vc.now)
    tok = IN_WAIT.set(self)
    try:
        await _orig_wait(self)
    finally:
        IN_WAIT.reset(tok)


class Patched:
    """patch points are module attributes looked up at call time; restored on exit"""

    def __enter__(self):
        global _orig_wait
        self.sleep = asyncio.sleep
        self.now = common._now
        self.wait = common.Throttle.wait
        _orig_wait = self.wait
        asyncio.sleep = vsleep
        common._now = vnow
        common.Throttle.wait = _wait_shim
        return self

    def __exit__(self, *a):
        global RUN
        asyncio.sleep = self.sleep
        common._now = self.now
        common.Throttle.wait = self.wait
        RUN = None


class FakeReader:
    def __init__(self):
        self.next = (0, 0)
        self.completed = 0  # socket I/Os that returned (whatever happened afterwards)

    async def read(self, count=-1):
        dur, n = self.next
        await vsleep(dur)
        self.completed += 1
        return b"x" * n

    async def readline(self):
        dur, n = self.next
        await vsleep(dur)
        self.completed += 1
        return b"x" * (n - 1) + b"\n" if n > 0 else b""


class FakeWriter:
    def __init__(self):
        self.next = (0, 0)
        self.written = 0
        self.completed = 0

    def write(self, data):
        self.written += len(data)

    async def drain(self):
        await vsleep(self.next[0])
        self.completed += 1

    def close(self):
        pass


# ---------------------------------------------------------------------------------------------
# a case: store of throttles, dicts, actors with scripts; Fractions are serialised as "n/d"


def fq(x):
    return None if x is None else str(F(x))


def pq(s):
    return None if s is None else F(s)


def qsx(x):
    x = F(x)
    return [x.numerator, x.denominator]


def oqsx(x):
    return [] if x is None else [qsx(x)]


class Recorder:
    def __init__(self, objs, actor_ids):
        self.objs = objs
        self.actor_ids = actor_ids  # actor -> list of store ids of its direction
        self.events = []  # dicts: kind, actor, t, n, wake (filled later), state snapshot
        self.cur_eval = {}  # actor -> index of the Eval event of the operation in progress
        self.sleeps = {}  # actor -> list of wake instants requested by its wait tasks
        self.ops = []  # one record per mode-A operation (and per raising operation): timeout, start, duration, outcome

    def snap(self):
        return [(t._limit, t.reset_rate, t._start, t._sum) for t in self.objs]

    def begin_op(self, a):
        self.cur_eval.pop(a, None)
        self.sleeps[a] = []

    def on_eval(self, a, now):
        if a not in self.cur_eval:
            self.cur_eval[a] = len(self.events)
            self.events.append({"k": "eval", "a": a, "t": now, "snap": self.snap()})

    def on_throttle_sleep(self, a, th, until):
        self.sleeps.setdefault(a, []).append(until)

    def on_start(self, a, now):
        if a not in self.cur_eval:  # no wait task was created: nothing limited in this direction
            self.on_eval(a, now)
        ev = self.events[self.cur_eval[a]]
        ev["wake"] = max([ev["t"]] + self.sleeps.get(a, []))
        self.events.append({"k": "start", "a": a, "t": now, "snap": self.snap()})

    def on_done(self, a, now, n):
        self.events.append({"k": "done", "a": a, "t": now, "n": n, "snap": self.snap()})

    def on_raise(self, a, now, exc, moved, expected):
        """the operation of actor a ended with an exception at `now`; `moved` = bytes of a socket I/O that
        had completed before it was raised (0 when the I/O itself was cut); `expected` = the timed
        region's own asyncio.TimeoutError, which the model predicts (timed_end)"""
        self.events.append({"k": "raise", "a": a, "t": now, "exc": exc, "n": moved, "expected": expected,
                            "snap": self.snap()})
        self.cur_eval.pop(a, None)

    def on_setlimit(self, k, v):
        self.events.append({"k": "setlimit", "id": k, "v": v, "snap": self.snap()})

    def on_cloneall(self):
        self.events.append({"k": "cloneall", "snap": self.snap()})


def conv(x, flt):
    if x is None:
        return None
    return float(x) if flt else F(x)


def build(case, flt=False):
    """real objects of a case: Throttle per store id, one dict object per dict, one stream per actor"""
    objs = []
    for lim, rr in case["store"]:
        lim, rr = pq(lim), pq(rr)
        objs.append(aioftp.Throttle(limit=conv(lim, flt), reset_rate=conv(rr, flt)))
    dicts = []
    for pairs in case["dicts"]:
        d = {}
        for i, (r, w) in enumerate(pairs):
            d[f"k{i}"] = aioftp.StreamThrottle(read=objs[r], write=objs[w])
        dicts.append(d)
    streams = []
    for ac in case["actors"]:
        kw = {}
        for name, v in zip(("timeout", "read_timeout", "write_timeout"), ac.get("tmo") or (None, None, None)):
            if v is not None:
                kw[name] = conv(pq(v), flt)
        st = aioftp.ThrottleStreamIO(FakeReader(), FakeWriter(), throttles=dicts[ac["dict"]], **kw)
        streams.append(st)
    return objs, dicts, streams


def eff_timeout(ac):
    """StreamIO.__init__: <x>_timeout = <x>_timeout or timeout, for the direction of the actor; the
    generator uses None or positive values only (what 0 means is C16's subject)"""
    tmo = ac.get("tmo") or (None, None, None)
    own = tmo[2] if ac["op"] == "write" else tmo[1]
    return own if own is not None else tmo[0]


def rebuild_dicts(case, objs, dicts):
    for d, pairs in zip(dicts, case["dicts"]):
        d.clear()
        for i, (r, w) in enumerate(pairs):
            d[f"k{i}"] = aioftp.StreamThrottle(read=objs[r], write=objs[w])


def actor_ids(case):
    out = []
    for ac in case["actors"]:
        pairs = case["dicts"][ac["dict"]]
        out.append([(w if ac["op"] == "write" else r) for r, w in pairs])
    return out


async def actor_main(a, ac, script, stream, rec, objs, flt):
    ACTOR.set(a)
    vc = asyncio.get_running_loop().vc
    name = "write" if ac["op"] == "write" else "read"
    for item in script:
        kind = item[0]
        if kind == "gap":
            await vsleep(conv(pq(item[1]), flt))
        elif kind == "set":
            k, v = item[1], conv(pq(item[2]), flt)
            objs[k].limit = v
            rec.on_setlimit(k, v)
        elif kind == "io":
            dur, n = conv(pq(item[1]), flt), item[2]
            rec.begin_op(a)
            fake = stream.writer if ac["op"] == "write" else stream.reader
            before = fake.completed
            nstart = sum(1 for e in rec.events if e["k"] == "start" and e["a"] == a)
            # an exception raised by the implementation is an OBSERVATION (event "raise"), never the end
            # of the run: the actor goes on with its script
            try:
                if ac["mode"] == "A":
                    if ac["op"] == "write":
                        stream.writer.next = (dur, n)
                        await stream.write(b"y" * n)
                        got = n
                    else:
                        stream.reader.next = (dur, n)
                        data = await (stream.readline() if ac["op"] == "readline" else stream.read(max(n, 1)))
                        got = len(data)
                else:  # mode B: only the awaiting shell is replicated
                    extra = conv(pq(item[3]), flt)
                    await stream.wait(name)
                    if extra:
                        await vsleep(extra)
                    start = vc.now
                    rec.on_start(a, start)
                    fake.next = (dur, n)
                    await (fake.drain() if ac["op"] == "write" else fake.read())
                    stream.append(name, b"z" * n, start)
                    got = n
            except Exception as e:  # noqa: BLE001 - every exception of the code under test is recorded
                started = [e2 for e2 in rec.events if e2["k"] == "start" and e2["a"] == a][nstart:]
                moved = n if fake.completed > before else 0
                tmo = getattr(stream, name + "_timeout", None)
                expected = (
                    ac["mode"] == "A" and isinstance(e, asyncio.TimeoutError) and tmo is not None and bool(started)
                    and fake.completed == before and dur >= tmo and vc.now == started[0]["t"] + tmo
                )
                rec.on_raise(a, vc.now, type(e).__name__, moved, bool(expected))
                rec.ops.append({"a": a, "tmo": tmo, "start": started[0]["t"] if started else None, "dur": dur,
                                "ok": False, "end": vc.now, "exc": type(e).__name__, "mode": ac["mode"]})
                continue
            if ac["mode"] == "A":
                started = [e2 for e2 in rec.events if e2["k"] == "start" and e2["a"] == a][nstart:]
                rec.ops.append({"a": a, "tmo": getattr(stream, name + "_timeout", None),
                                "start": started[0]["t"] if started else None, "dur": dur, "ok": True,
                                "end": vc.now, "exc": None, "mode": "A"})
            rec.on_done(a, vc.now, got)


def run_impl(case, flt=False):
    """run the real code on a case; returns (events, objs)"""
    global RUN
    objs, dicts, streams = build(case, flt)
    rec = Recorder(objs, actor_ids(case))
    vc = VClock(conv(pq(case["clock0"]), flt))
    with Patched():
        RUN = rec
        for ph, phase in enumerate(case["phases"]):
            for adm in phase.get("admin", []):
                if adm[0] == "set":
                    objs[adm[1]].limit = conv(pq(adm[2]), flt)
                    rec.on_setlimit(adm[1], objs[adm[1]]._limit)
                elif adm[0] == "cloneall":
                    new = [t.clone() for t in objs]
                    objs[:] = new
                    rebuild_dicts(case, objs, dicts)
                    rec.on_cloneall()
                elif adm[0] == "gap":
                    vc.now = vc.now + conv(pq(adm[1]), flt)
            loop = VLoop(vc)
            try:

                async def main():
                    tasks = [
                        asyncio.create_task(actor_main(a, ac, phase["scripts"][a], streams[a], rec, objs, flt))
                        for a, ac in enumerate(case["actors"])
                    ]
                    await asyncio.gather(*tasks)

                loop.run_until_complete(main())
            finally:
                loop.shutdown()
    run_impl.last_ops = rec.ops
    return rec.events, objs


# ---------------------------------------------------------------------------------------------
# model side


def model_input(case, events):
    store = [[oqsx(pq(l)), qsx(pq(r)), [], 0] for l, r in case["store"]]
    actors = [[[[r, w] for r, w in case["dicts"][ac["dict"]]], ac["op"] == "write"] for ac in case["actors"]]
    evs = []
    for e in events:
        if e["k"] == "eval":
            evs.append([0, e["a"], qsx(e["t"])])
        elif e["k"] == "start":
            evs.append([1, e["a"], qsx(e["t"])])
        elif e["k"] == "done":
            evs.append([2, e["a"], qsx(e["t"]), e["n"]])
        elif e["k"] == "setlimit":
            evs.append([3, e["id"], oqsx(e["v"])])
        elif e["k"] == "raise":
            evs.append([5, e["a"], qsx(e["t"])])  # Abort: the operation ended without append()
        else:
            evs.append([4])
    return [store, actors, qsx(pq(case["clock0"])), evs]


def canon_snap(snap):
    return [[oqsx(l), qsx(r), oqsx(s), int(m)] for l, r, s, m in snap]


def dec_oq(x):
    return [] if not x else [list(x[0])]


def canon_model_store(ms):
    return [[dec_oq(t[0]), list(t[1]), dec_oq(t[2]), t[3]] for t in ms]


def compare(ctx, stream, case, events, log):
    """model log vs real events; returns True when they agree everywhere"""
    ok = True
    if len(log) != len(events):
        ctx.disagree(stream, {"case": case, "at": len(log) - 1}, "model refused event / log length %d" % len(log), "%d events" % len(events))
        return False
    for i, (e, m) in enumerate(zip(events, log)):
        if e["k"] == "raise" and not e.get("expected"):
            # model says X, implementation raised E: recorded, and the comparison of this trace ends here
            ctx.disagree(stream, {"case": case, "at": i, "event": _ev_json(e)},
                         "model: the operation completes (Done) unless the timed socket I/O itself outlasts the timeout",
                         "implementation raised " + e["exc"])
            return False
        if m[0] != 1:
            ctx.disagree(stream, {"case": case, "at": i}, "model refuses event", _ev_json(e))
            return False
        ms = canon_model_store(m[2])
        rs = canon_snap(e["snap"])
        if ms != rs:
            ctx.disagree(stream, {"case": case, "at": i, "event": _ev_json(e)}, ms, rs)
            ok = False
            break
        if e["k"] == "eval":
            st = m[1][e["a"]]
            mw = list(st[1]) if st[0] == 1 else None
            if mw != qsx(e.get("wake", e["t"])):
                ctx.disagree(stream, {"case": case, "at": i, "event": _ev_json(e)}, {"wake": mw}, {"wake": qsx(e.get("wake", e["t"]))})
                ok = False
                break
    return ok


def _ev_json(e):
    d = {k: v for k, v in e.items() if k != "snap"}
    for k in ("t", "wake", "v"):
        if k in d and d[k] is not None:
            d[k] = str(F(d[k]))
    return d


# ---------------------------------------------------------------------------------------------
# property oracle on the REAL trace (does not use the model)


def oracle(ctx, case, events, ids, report=True, tag="trace"):
    """returns list of (key, what, detail); calls ctx.violation for each when report"""
    K = len(case["store"])
    L = [pq(l) for l, _ in case["store"]]
    R = [pq(r) for _, r in case["store"]]
    T = [0] * K
    t0 = [None] * K
    last_start = [None] * K
    r = [0] * K
    epoch = [0] * K
    nact = len(ids)
    status = ["idle"] * nact
    snapT = [dict() for _ in range(nact)]  # actor -> {k: (T, epoch)}
    last = [dict() for _ in range(nact)]  # actor -> {k: size of last completed block in this epoch}
    out = []
    slack_hits = 0

    def pos(k):
        return L[k] is not None and L[k] > 0

    nraised = sum(1 for e in events if e["k"] == "raise" and not e.get("expected"))

    def viol(key, what, detail):
        out.append((key, what, detail))
        if report:
            ctx.violation(what, {"key": key, "case": case, "stream": tag, "detail": detail, "raised": nraised})

    def new_epoch(k, newlimit):
        L[k] = newlimit
        T[k] = 0
        t0[k] = None
        last_start[k] = None
        r[k] = 0
        epoch[k] += 1
        for a in range(nact):
            last[a].pop(k, None)

    for idx, e in enumerate(events):
        kind = e["k"]
        if kind == "setlimit":
            new_epoch(e["id"], None if e["v"] is None else F(e["v"]))
            continue
        if kind == "cloneall":
            for k in range(K):
                new_epoch(k, L[k])
            continue
        a, t = e["a"], F(e["t"])
        if kind == "raise":
            # the operation ended with an exception: its actor is idle again; bytes of a socket I/O that had
            # completed before the exception HAVE moved (the throttle may not have accounted them)
            status[a] = "idle"
            if e.get("n"):
                for k in ids[a]:
                    if pos(k):
                        T[k] += e["n"]
                        last[a][k] = e["n"]
            continue
        if kind == "eval":
            w = F(e.get("wake", e["t"]))
            status[a] = "evaluated"
            snapT[a] = {k: (T[k], epoch[k]) for k in ids[a] if pos(k)}
            if w < t:
                viol("c15-wake-before-now", "wait() ended before it was called", {"at": idx, "wake": str(w), "now": str(t)})
            if w > t:
                limited = [k for k in ids[a] if pos(k)]
                if not limited:
                    viol("c15-delay-when-off", "a stream with no positive limit in this direction was delayed",
                         {"at": idx, "actor": a, "delay": str(w - t)})
                else:
                    # no_excess_delay: some throttle of the dict requires this wake time (within the r/2 slack)
                    need = [k for k in limited if t0[k] is not None and R[k] >= 0 and L[k] * (w - t0[k]) - F(r[k], 2) <= T[k]]
                    if not need and all(R[k] >= 0 for k in limited):
                        viol("c15-excess-delay", "a stream was delayed beyond what any of its limits requires",
                             {"at": idx, "actor": a, "wake": str(w), "now": str(t),
                              "limits": {k: [str(L[k]), str(t0[k]), T[k], r[k]] for k in limited}})
        elif kind == "start":
            status[a] = "started"
            for k, (tk, ep) in snapT[a].items():
                if ep != epoch[k] or not pos(k) or t0[k] is None or R[k] < 0:
                    continue
                bound = L[k] * (t - t0[k])
                if tk > bound + F(r[k], 2):
                    viol("c15-rate-exceeded", "an I/O started although the bytes already accounted exceed limit*(t - t0) + r/2",
                         {"at": idx, "actor": a, "throttle": k, "T_eval": tk, "L": str(L[k]), "t": str(t), "t0": str(t0[k]), "resets": r[k]})
                elif tk > bound:
                    slack_hits += 1
                    if report:
                        ctx.violation(
                            "bytes accounted exceed the literal limit*(t - t0) (within the r/2 rounding slack of the reset folding)",
                            {"key": KNOWN_KEY, "case": case, "stream": tag,
                             "detail": {"at": idx, "throttle": k, "T_eval": tk, "bound": str(bound), "resets": r[k]}},
                        )
        elif kind == "done":
            status[a] = "idle"
            n = e["n"]
            snap = e["snap"]
            for k in ids[a]:
                if not pos(k):
                    continue
                T[k] += n
                last[a][k] = n
                s_obs = snap[k][2]
                if s_obs is not None:
                    s_obs = F(s_obs)
                    if t0[k] is None:
                        t0[k] = s_obs
                    elif s_obs != last_start[k]:
                        r[k] += 1
                    last_start[k] = s_obs
                if t0[k] is None or R[k] < 0:
                    continue
                users = [b for b in range(nact) if k in ids[b]]
                inflight = sum(last[b].get(k, 0) for b in users if status[b] != "started")
                if T[k] > L[k] * (t - t0[k]) + F(r[k], 2) + inflight:
                    viol("c15-shared-bound", "bytes completed exceed limit*(t - t0) + r/2 + one block per stream",
                         {"at": idx, "throttle": k, "T": T[k], "L": str(L[k]), "t": str(t), "t0": str(t0[k]), "resets": r[k], "blocks": inflight})
                if R[k] > 0 and r[k] * R[k] > t - t0[k]:
                    viol("c15-reset-count", "more resets than elapsed time / reset_rate", {"at": idx, "throttle": k})
    return out, slack_hits


# ---------------------------------------------------------------------------------------------
# generators

DUR = ["0", "0", "1/4", "1/3", "1/2", "1", "3/2", "2", "7/3", "5"]
BLK = [0, 0, 1, 1, 2, 3, 5, 8, 13, 64, 100, 1000]
LIMS = ["1", "2", "3/2", "4", "5/2", "7/3", "10", "1/2", "64", "100/3", "8/5", "1000"]
RRS = ["10", "1", "1/2", "5/2", "3", "0", "2"]
DY_DUR = ["0", "1/4", "1/2", "1", "3/2", "2", "5", "1/8"]
DY_LIMS = ["1", "2", "4", "1/2", "64", "8", "1024", "1/4"]
DY_RRS = ["10", "1", "1/2", "2", "0", "4"]


def gen_limit(rng, dyadic):
    x = rng.random()
    if x < 0.2:
        return None
    if x < 0.3:
        return "0"
    if x < 0.33:
        return "-1"
    return rng.choice(DY_LIMS if dyadic else LIMS)


TMO = ["1/4", "1/2", "1", "2", "3", "5", "10", "100"]
DY_TMO = ["1/4", "1/2", "1", "2", "4", "8", "16", "128"]


def gen_timeout(rng, pos_lims, dyadic):
    if pos_lims and rng.random() < 0.6:
        need = F(rng.choice([b for b in BLK if b > 0])) / rng.choice(pos_lims)  # the sleep one block is worth
        t = need * F(rng.choice(["1/4", "1/2", "1", "1", "2", "4"])) + rng.choice([-1, 0, 0, 1]) * F(1, 4)
        if t > 0 and t.denominator <= 5040 and t <= 4000:
            return str(t)
    return rng.choice(DY_TMO if dyadic else TMO)


def gen_gap(rng, rrs, dyadic):
    x = rng.random()
    if x < 0.25:
        return "0"
    if x < 0.6:
        rr = F(rng.choice(rrs))
        eps = F(rng.choice(["1/4", "1/2", "1"] if dyadic else ["1/4", "1/3", "1/2", "1"]))
        g = rr + rng.choice([-1, 0, 1]) * eps
        return str(max(g, F(0)))
    return rng.choice(DY_DUR if dyadic else DUR)


def gen_case(rng, dyadic=False, server_like=None):
    if server_like is None:
        server_like = rng.random() < 0.4
    nact = rng.choice([1, 1, 2, 2, 3, 4])
    store = []
    if server_like:
        # ids: 0/1 server_global r/w; per connection c: 2+2c, 3+2c; users: after
        ncon = rng.choice([1, 2, 2, 3])
        nuser = rng.choice([1, 2])
        rr = rng.choice(DY_RRS if dyadic else RRS)
        for _ in range(2 + 2 * ncon + 2 * nuser + 2 * ncon):
            store.append([gen_limit(rng, dyadic), rr if rng.random() < 0.7 else rng.choice(DY_RRS if dyadic else RRS)])
        # per-connection clones share limits
        for c in range(1, ncon):
            store[2 + 2 * c][0] = store[2][0]
            store[3 + 2 * c][0] = store[3][0]
        dicts = []
        for c in range(ncon):
            u = rng.randrange(nuser)
            ub = 2 + 2 * ncon + 2 * u
            pb = 2 + 2 * ncon + 2 * nuser + 2 * c
            pairs = [[0, 1], [2 + 2 * c, 3 + 2 * c]]
            if rng.random() < 0.7:
                pairs += [[ub, ub + 1], [pb, pb + 1]]
            dicts.append(pairs)
    else:
        K = rng.randint(2, 8)
        for _ in range(K):
            store.append([gen_limit(rng, dyadic), rng.choice(DY_RRS if dyadic else RRS)])
        if rng.random() < 0.05:
            store[rng.randrange(K)][1] = "-1"
        dicts = []
        for _ in range(rng.choice([1, 1, 2, 3])):
            nk = rng.randint(1, min(4, K // 2))
            ids = rng.sample(range(K), 2 * nk)
            dicts.append([[ids[2 * i], ids[2 * i + 1]] for i in range(nk)])
    # make sure something is limited most of the time
    if all(l is None or F(l) <= 0 for l, _ in store) and rng.random() < 0.8:
        store[rng.randrange(len(store))][0] = rng.choice(DY_LIMS if dyadic else LIMS)
    actors = []
    for a in range(nact):
        op = rng.choice(["read", "readline", "write", "write", "read"])
        mode = "A" if rng.random() < 0.6 else "B"
        if mode == "B" and op == "readline":
            op = "read"
        actors.append({"dict": rng.randrange(len(dicts)), "op": op, "mode": mode})
    if rng.random() < 0.5 and nact >= 2:  # force sharing: same dict, same direction
        actors[1]["dict"] = actors[0]["dict"]
        actors[1]["op"] = "write" if actors[0]["op"] == "write" else rng.choice(["read", "readline"])
        if actors[1]["mode"] == "B" and actors[1]["op"] == "readline":
            actors[1]["op"] = "read"
    # read/write timeouts of the streams (StreamIO timeout / read_timeout / write_timeout): None or positive,
    # below / around / above the sleep some block needs under some limit of the case, or from a fixed pool
    pos_lims = [F(l) for l, _ in store if l is not None and F(l) > 0]
    for ac in actors:
        if rng.random() < 0.45:
            ac["tmo"] = [gen_timeout(rng, pos_lims, dyadic) if rng.random() < p else None for p in (0.5, 0.5, 0.5)]
            if all(v is None for v in ac["tmo"]):
                ac["tmo"][rng.randrange(3)] = gen_timeout(rng, pos_lims, dyadic)
    rrs = [r for _, r in store if F(r) >= 0] or ["1"]
    nphase = rng.choice([1, 1, 1, 2, 3])
    phases = []
    cur_store = [list(s) for s in store]
    for ph in range(nphase):
        admin = []
        if ph > 0:
            admin.append(["gap", gen_gap(rng, rrs, dyadic)])
            for _ in range(rng.randint(0, 2)):
                k = rng.randrange(len(store))
                v = gen_limit(rng, dyadic)
                admin.append(["set", k, v])
                cur_store[k][0] = v
            if rng.random() < 0.4:
                admin.append(["cloneall"])
        scripts = []
        for a in range(nact):
            sc = []
            for _ in range(rng.randint(2, 8)):
                x = rng.random()
                if x < 0.3:
                    sc.append(["gap", gen_gap(rng, rrs, dyadic)])
                elif x < 0.36:
                    # in-trace limit change that keeps truthiness (positive -> positive, falsy -> falsy)
                    k = rng.randrange(len(store))
                    cur = cur_store[k][0]
                    if cur is not None and F(cur) > 0:
                        v = rng.choice(DY_LIMS if dyadic else LIMS)
                    elif cur is None or F(cur) == 0:
                        v = rng.choice([None, "0"])
                    else:
                        continue
                    sc.append(["set", k, v])
                    cur_store[k][0] = v
                else:
                    n = rng.choice(BLK)
                    dur = rng.choice(DY_DUR if dyadic else DUR)
                    tmo = eff_timeout(actors[a])
                    if tmo is not None and actors[a]["mode"] == "A":
                        # the socket I/O itself mostly stays below the timeout (else the operation times out,
                        # which is also generated); never exactly on it (a race inside asyncio)
                        fits = [d for d in (DY_DUR if dyadic else DUR) if F(d) < F(tmo)] or ["0"]
                        if F(dur) == F(tmo) or (F(dur) > F(tmo) and rng.random() < 0.75):
                            dur = rng.choice(fits)
                    if actors[a]["op"] == "readline" and n == 0 and rng.random() < 0.5:
                        n = 1
                    item = ["io", dur, n]
                    if actors[a]["mode"] == "B":
                        item.append(rng.choice(["0", "0", "1/4", "1", "1/2"]))
                    sc.append(item)
            scripts.append(sc)
        phases.append({"admin": admin, "scripts": scripts})
    return {"store": store, "dicts": dicts, "actors": actors, "clock0": rng.choice(["0", "100", "5/2"]), "phases": phases}


def wired(case):
    for pairs in case["dicts"]:
        rs = [r for r, _ in pairs]
        ws = [w for _, w in pairs]
        if len(set(rs)) != len(rs) or len(set(ws)) != len(ws):
            return False
    return True


# ---------------------------------------------------------------------------------------------
# streams


def stream_traces(ctx, n, dyadic, flt, tag, xcheck):
    rng = ctx.rng
    batch = []
    ops_all = []
    for _ in range(n):
        case = gen_case(rng, dyadic=dyadic)
        ctx.traces_impl += 1
        try:
            events, objs = run_impl(case, flt=flt)
        except Exception as e:  # noqa: BLE001 - not even the harness' own failure may end the search
            ctx.disagree(tag, {"case": case}, "model: every generated case is a trace", "running the case raised %r" % (e,))
            ctx.count(f"{tag}_case_raised")
            continue
        batch.append((case, events))
        ops_all += [(case, o) for o in run_impl.last_ops]
    logs = ctx.model([(1, model_input(c, ev)) for c, ev in batch])
    check_ops(ctx, tag, ops_all, xcheck)
    nres = 0
    for (case, events), log in zip(batch, logs):
        key = json.dumps(case, sort_keys=True)
        ids = actor_ids(case)
        ctx.case((tag, key), nontrivial=any(e["k"] == "done" and e["n"] > 0 for e in events))
        ctx.count(f"{tag}_events", len(events))
        ctx.count(f"{tag}_actors_{len(case['actors'])}")
        sleeps = sum(1 for e in events if e["k"] == "eval" and F(e.get("wake", e["t"])) > F(e["t"]))
        ctx.count(f"{tag}_sleeping_waits", sleeps)
        agree = compare(ctx, tag, case, events, log)
        viol, slack = oracle(ctx, case, events, ids, tag=tag)
        nres += slack
        resets = 0
        prev = {}
        for e in events:
            if e["k"] == "done":
                for k, s in enumerate(e["snap"]):
                    if s[2] is not None and prev.get(k) is not None and prev[k] != s[2]:
                        resets += 1
                    prev[k] = s[2]
            elif e["k"] in ("setlimit", "cloneall"):
                prev = {}
        ctx.count(f"{tag}_resets", resets)
        ctx.count(f"{tag}_streams_with_timeout", sum(1 for ac in case["actors"] if ac.get("tmo")))
        ctx.count(f"{tag}_ops_timed_out", sum(1 for e in events if e["k"] == "raise" and e.get("expected")))
        ctx.count(f"{tag}_ops_raised_unexpectedly", sum(1 for e in events if e["k"] == "raise" and not e.get("expected")))
        ctx.count(f"{tag}_sleeps_longer_than_stream_timeout", _sleeps_over_timeout(case, events))
        if agree and len(xcheck) < 25 and len(events) <= 40:
            xcheck.append((1, model_input(case, events), log))
        if len(ctx.samples) < 3:
            ctx.sample({"stream": tag, "actors": case["actors"], "dicts": case["dicts"], "store": case["store"],
                        "events": [_ev_json(e) for e in events[:12]]})
    ctx.count(f"{tag}_literal_bound_exceeded_within_slack", nres)


def _sleeps_over_timeout(case, events):
    """non-triviality of the timeout dimension: throttle waits that outlast the stream's own timeout"""
    k = 0
    for e in events:
        if e["k"] == "eval":
            tmo = eff_timeout(case["actors"][e["a"]])
            if tmo is not None and F(e.get("wake", e["t"])) - F(e["t"]) > F(tmo):
                k += 1
    return k


def check_ops(ctx, tag, ops_all, xcheck):
    """every operation on a stream vs timed_end: with effective timeout T the socket I/O of duration d entered
    at `start` completes at start + d when d < T (or T is None) and raises asyncio.TimeoutError at start + T
    otherwise; anything else the implementation raised is reported (model says X, implementation raised E)"""
    jobs, keep = [], []
    for case, o in ops_all:
        if o["start"] is None or o["mode"] != "A":
            continue
        jobs.append((6, [oqsx(o["tmo"]), qsx(o["start"]), qsx(o["dur"])]))
        keep.append((case, o))
    res = ctx.model(jobs) if jobs else []
    for (case, o), job, m in zip(keep, jobs, res):
        ctx.case((tag, "op", str(o["tmo"]), str(o["start"]), str(o["dur"])), nontrivial=o["tmo"] is not None)
        impl = [1 if o["ok"] else 0, qsx(o["end"])]
        if [m[0], list(m[1])] != impl or (not o["ok"] and o["exc"] != "TimeoutError"):
            ctx.disagree(tag + "_timed_op", {"case": case, "op": {k: (str(v) if isinstance(v, (F, float)) else v) for k, v in o.items()}},
                         {"completed": m[0], "end": list(m[1])}, {"completed": impl[0], "end": impl[1], "raised": o["exc"]})
        elif o["tmo"] is not None and len(xcheck) < 40 and sum(1 for x in xcheck if x[0] == 6) < 8:
            xcheck.append(job + (m,))
    ctx.count(f"{tag}_timed_ops", len(keep))


def stream_units(ctx, n, xcheck):
    """round / wake / append / clone / limit setter on arbitrary states (also states no trace reaches)"""
    rng = ctx.rng
    # round_half_even: exhaustive over small fractions + random
    qs = [F(a, b) for b in range(1, 13) for a in range(-3 * b - 1, 3 * b + 2)]
    qs += [F(rng.randint(-10**6, 10**6), rng.randint(1, 5040)) for _ in range(n)]
    res = ctx.model([(0, qsx(q)) for q in qs])
    for q, m in zip(qs, res):
        ctx.case(("round", q))
        if m != round(q):
            ctx.disagree("round_half_even", str(q), m, round(q))
        if abs(round(q) - q) > F(1, 2):
            ctx.violation("round() further than 1/2", {"key": "c15-round", "q": str(q)})
    ctx.count("round_cases", len(qs))
    xcheck.extend((0, qsx(q), m) for q, m in list(zip(qs, res))[:15])

    def rq(pool):
        return rng.choice(pool)

    cases = []
    for _ in range(n):
        lim = gen_limit(rng, False)
        rr = rng.choice(RRS + ["-1"])
        st = None if rng.random() < 0.3 else str(F(rng.randint(0, 400), rng.choice([1, 2, 3, 4, 12])))
        sm = rng.choice([0, 1, 5, -3, 100, -250, 7, 64])
        now = str(F(rng.randint(0, 800), rng.choice([1, 2, 3, 4, 12])))
        nb = rng.choice(BLK)
        cases.append((lim, rr, st, sm, now, nb, gen_limit(rng, False)))
    jobs = []
    for lim, rr, st, sm, now, nb, newlim in cases:
        th = [oqsx(pq(lim)), qsx(pq(rr)), oqsx(pq(st)), sm]
        jobs += [(2, [th, qsx(pq(now))]), (3, [th, nb, qsx(pq(now))]), (4, [th]), (5, [th, oqsx(pq(newlim))])]
    res = ctx.model(jobs)
    with Patched():
        for i, (lim, rr, st, sm, now, nb, newlim) in enumerate(cases):
            ctx.case(("unit", lim, rr, st, sm, now, nb, newlim))

            def mk():
                t = aioftp.Throttle(limit=pq(lim), reset_rate=pq(rr))
                t._start = pq(st)
                t._sum = sm
                return t

            def state(t):
                return [oqsx(t._limit), qsx(t.reset_rate), oqsx(t._start), int(t._sum)]

            m_wake, m_app, m_clone, m_set = res[4 * i : 4 * i + 4]

            def observed(f):
                """the state the call leaves behind, or the exception it raised (an observation like any other)"""
                try:
                    return f()
                except Exception as e:  # noqa: BLE001
                    ctx.count("unit_calls_raised")
                    return "raised " + type(e).__name__

            # wake: run the real wait() on a loop whose sleep is the recorder
            def do_wait():
                vc = VClock(pq(now))
                loop = VLoop(vc)
                try:
                    loop.run_until_complete(mk().wait())
                    return vc.now
                finally:
                    loop.shutdown()

            woke = observed(do_wait)
            if isinstance(woke, str) or list(m_wake) != qsx(woke):
                ctx.disagree("unit_wake", [lim, rr, st, sm, now], list(m_wake), woke if isinstance(woke, str) else qsx(woke))

            def do_append():
                t = mk()
                t.append(b"a" * nb, pq(now))
                return state(t)

            got = observed(do_append)
            if canon_model_store([m_app])[0] != got:
                ctx.disagree("unit_append", [lim, rr, st, sm, now, nb], m_app, got)
            c = observed(lambda: mk().clone())
            if isinstance(c, str) or canon_model_store([m_clone])[0] != state(c):
                ctx.disagree("unit_clone", [lim, rr, st, sm], m_clone, c if isinstance(c, str) else state(c))
            if not isinstance(c, str) and (c._start is not None or c._sum != 0 or c._limit != pq(lim)):
                ctx.violation("clone() keeps memory or changes the limit", {"key": "c15-clone-memory", "case": [lim, rr, st, sm]})

            def do_set():
                t = mk()
                t.limit = pq(newlim)
                return state(t)

            got = observed(do_set)
            if canon_model_store([m_set])[0] != got:
                ctx.disagree("unit_set_limit", [lim, rr, st, sm, newlim], m_set, got)
            # off is free, on ANY memory
            if (pq(lim) is None or pq(lim) <= 0) and not isinstance(woke, str) and woke != pq(now):
                ctx.violation("wait() sleeps although the limit is off", {"key": "c15-delay-when-off", "case": [lim, rr, st, sm, now]})
            if i < 10:
                th = [oqsx(pq(lim)), qsx(pq(rr)), oqsx(pq(st)), sm]
                xcheck.append((2, [th, qsx(pq(now))], m_wake))
                xcheck.append((3, [th, nb, qsx(pq(now))], m_app))
    # StreamThrottle.clone / from_limits
    try:
        stt = aioftp.StreamThrottle.from_limits(F(3), None)
        stt.read.append(b"abc", F(1))
        cl = stt.clone()
        if cl.read is stt.read or cl.write is stt.write or cl.read._start is not None or cl.read._limit != F(3) or cl.write._limit is not None:
            ctx.violation("StreamThrottle.clone() does not give fresh memoryless throttles", {"key": "c15-clone-memory", "case": "StreamThrottle"})
    except Exception as e:  # noqa: BLE001
        ctx.disagree("unit_stream_throttle_clone", "from_limits(3, None); append; clone", "model: a fresh pair", "raised %r" % (e,))
    ctx.count("unit_cases", len(cases))


# ---------------------------------------------------------------------------------------------
# wiring: Gen facts vs object identities in a live loopback session


def wiring_expectations():
    """the facts of Gen/Wiring.v (recomputed with the same translator code) as identity expectations"""
    from tools.py2v import gen_wiring

    from ..core import SRC

    import shutil

    from tools.py2v.normalize import normalized_src

    sites, timeouts, inits, flags, ops = [], [], [], {}, []
    nsrc = normalized_src(SRC / "aioftp")  # the same pre-pass `python -m tools.py2v` applies
    try:
        gen_wiring.scan_module(nsrc / "server.py", sites, timeouts, inits, flags)
        gen_wiring.scan_module(nsrc / "client.py", sites, timeouts, inits, flags)
        gen_wiring.scan_common(nsrc / "common.py", timeouts, flags, ops)
    finally:
        shutil.rmtree(nsrc.parent, ignore_errors=True)
    exp = {}
    for name, (tag, expr), ents in sites:
        exp[name] = {"dict": tag, "expr": expr, "entries": {k: t for k, (t, _) in ents}}
    return exp, flags


async def _shutdown(clients, server):
    """QUIT every session first so that server.close() has no dispatcher task left to cancel"""
    for c in clients:
        try:
            await asyncio.wait_for(c.quit(), 5)
        except Exception:
            try:
                c.close()
            except Exception:
                pass
    for _ in range(100):
        if not server.connections:
            break
        await asyncio.sleep(0.01)
    await server.close()


async def live_wiring():
    """three sessions (two of user a, one of user b) on 127.0.0.1; returns observed identity relations"""
    users = [
        aioftp.User("a", "pw", base_path="/", read_speed_limit_per_connection=None),
        aioftp.User("b", "pw", base_path="/"),
    ]
    server = aioftp.Server(users, path_io_factory=aioftp.MemoryPathIO)
    await server.start("127.0.0.1", 0)
    port = server.server_port
    clients = []
    obs = {}
    try:
        for u in ("a", "a", "b"):
            c = aioftp.Client(path_io_factory=aioftp.MemoryPathIO)
            await c.connect("127.0.0.1", port)
            await c.login(u, "pw")
            clients.append(c)
        for _ in range(100):
            if len(server.connections) == 3 and all("user_global" in s.throttles for s in server.connections):
                break
            await asyncio.sleep(0.01)
        conns = list(server.connections.values())
        by_user = {}
        for cn in conns:
            by_user.setdefault(cn.user.login, []).append(cn)
        ctrl = [cn.command_connection for cn in conns]
        d = [s.throttles for s in ctrl]
        obs["keys"] = sorted(d[0].keys())
        obs["server_global_same_object_everywhere"] = all(x["server_global"] is server.throttle for x in d)
        obs["server_per_connection_distinct"] = len({id(x["server_per_connection"]) for x in d}) == 3 and all(
            x["server_per_connection"] is not server.throttle_per_connection for x in d
        )
        obs["server_per_connection_parts_distinct"] = (
            len({id(x["server_per_connection"].read) for x in d}) == 3
            and len({id(x["server_per_connection"].write) for x in d}) == 3
            and all(x["server_per_connection"].read is not server.throttle_per_connection.read for x in d)
        )
        a1, a2 = by_user["a"]
        (b1,) = by_user["b"]
        ta1, ta2, tb1 = (x.command_connection.throttles for x in (a1, a2, b1))
        obs["user_global_shared_by_user_sessions"] = ta1["user_global"] is ta2["user_global"]
        obs["user_global_distinct_between_users"] = ta1["user_global"] is not tb1["user_global"]
        obs["user_per_connection_distinct"] = len({id(x["user_per_connection"]) for x in (ta1, ta2, tb1)}) == 3
        objs = [ta1[k] for k in ("server_global", "server_per_connection", "user_global", "user_per_connection")]
        obs["session_objects_distinct"] = len({id(o) for o in objs}) == 4 and len({id(o.read) for o in objs}) == 4
        # data streams: open a passive connection per client, wait until the server has attached it
        same = []
        for c, cmds in zip(clients, (("epsv",), ("pasv",), None)):  # both handlers are exercised
            reader, writer = await c.get_passive_connection("I", commands=cmds)
            c._c15 = writer
        for _ in range(200):
            if all(cn.future.data_connection.done() for cn in conns):
                break
            await asyncio.sleep(0.01)
        for cn in conns:
            if cn.future.data_connection.done():
                ds = cn.data_connection
                same.append(ds.throttles is cn.command_connection.throttles)
            else:
                same.append(None)
        obs["data_dict_is_control_dict"] = same
        # re-login as another user on session a2: the dict object is kept, user entries replaced
        before = a2.command_connection.throttles
        c2 = clients[1]
        await c2.command("USER b", ("230", "33x"))
        await c2.command("PASS pw", "230")
        obs["relogin_keeps_dict_object"] = a2.command_connection.throttles is before
        obs["relogin_switches_user_global"] = before["user_global"] is tb1["user_global"]
        # client side
        cl = clients[0]
        obs["client_control_uses_client_throttle"] = cl.stream.throttles.get("_") is cl.throttle and len(cl.stream.throttles) == 1
        for c in clients:
            c._c15.close()
        stream = await cl.upload_stream("f.bin")
        obs["client_data_uses_client_throttle"] = stream.throttles.get("_") is cl.throttle and len(stream.throttles) == 1
        await stream.write(b"hello")
        await stream.finish()
    finally:
        await _shutdown(clients, server)
    return obs


def _close_loop(loop):
    """cancel what the sessions left behind (aioftp does not cancel the wait tasks of a cancelled stream.wait())"""
    try:
        pending = [t for t in asyncio.all_tasks(loop) if not t.done()]
        for t in pending:
            t.cancel()
        if pending:
            loop.run_until_complete(asyncio.gather(*pending, return_exceptions=True))
    finally:
        loop.close()


def check_wiring_live(ctx):
    try:
        exp, flags = wiring_expectations()
    except Exception as e:  # translator failed closed: the oracle below must still run on the live objects
        exp, flags = None, {}
        ctx.obligation_broken("wiring-translator", repr(e)[:400])
    loop = asyncio.new_event_loop()
    try:
        obs = loop.run_until_complete(asyncio.wait_for(live_wiring(), 30))
    finally:
        _close_loop(loop)
    ctx.traces_impl += 1
    ctx.extra["wiring_live"] = obs
    ctx.sample({"stream": "wiring", "observed": obs})

    if exp is not None:
        _wiring_tie(ctx, exp, flags, obs)
    _wiring_oracle(ctx, obs)


def _wiring_tie(ctx, exp, flags, obs):
    # (1) tie: what the translator says vs what the objects are
    def tag_of(site, key):
        return exp.get(site, {}).get("entries", {}).get(key)

    tie = {
        "server_global_same_object_everywhere": tag_of("Server.dispatcher", "server_global") == 0,
        "server_per_connection_distinct": tag_of("Server.dispatcher", "server_per_connection") in (1, 3),
        "user_global_shared_by_user_sessions": tag_of("Server.user", "user_global") == 2 and flags.get("per_user_guarded", False),
        "user_per_connection_distinct": tag_of("Server.user", "user_per_connection") in (1, 3),
        "relogin_keeps_dict_object": exp.get("Server.user", {}).get("dict") == 2,
        "client_control_uses_client_throttle": tag_of("BaseClient.connect", "_") == 0,
        "client_data_uses_client_throttle": tag_of("Client.get_stream", "_") == 0,
    }
    for k, expected in tie.items():
        ctx.case(("wiring-tie", k))
        if obs.get(k) != expected:
            ctx.disagree("wiring", k, {"translator_expects": expected}, {"observed": obs.get(k)})
    data_same = all(exp.get(s, {}).get("dict") == 1 for s in ("Server.pasv.handler", "Server.epsv.handler")) and flags.get("byref", False)
    ctx.case(("wiring-tie", "data"))
    if all(x is True for x in obs["data_dict_is_control_dict"]) != data_same:
        ctx.disagree("wiring", "data_dict_is_control_dict", {"translator_expects": data_same}, {"observed": obs["data_dict_is_control_dict"]})


def _wiring_oracle(ctx, obs):
    # (2) oracle: what the property needs
    need = {
        "server_global_same_object_everywhere": "the server-wide limit is not one object shared by all sessions (it would not bound their sum)",
        "server_per_connection_distinct": "per-connection limit objects are shared between sessions (not independent)",
        "server_per_connection_parts_distinct": "per-connection read/write Throttle objects are shared between sessions (not independent)",
        "user_global_shared_by_user_sessions": "the per-user limit is not shared by that user's sessions (it would not bound their sum)",
        "user_global_distinct_between_users": "different users share one per-user limit object",
        "user_per_connection_distinct": "per-user-connection limit objects are shared between sessions",
        "session_objects_distinct": "two keys of one session's dict hold the same object (bytes would be counted twice)",
        "relogin_keeps_dict_object": "re-login replaces the dict object (data streams would keep the old limits)",
        "client_control_uses_client_throttle": "client control stream does not use client.throttle",
        "client_data_uses_client_throttle": "client data stream does not use client.throttle",
    }
    for k, what in need.items():
        ctx.case(("wiring-oracle", k))
        if obs.get(k) is not True:
            ctx.violation(what, {"key": "c15-wiring-" + k, "observed": obs})
    if not all(x is True for x in obs["data_dict_is_control_dict"]):
        ctx.violation("a data stream does not share the control stream's throttles dict (limits set at login would not apply to transfers)",
                      {"key": "c15-wiring-data-dict", "observed": obs})
    ctx.count("wiring_live_sessions", 3)


# ---------------------------------------------------------------------------------------------
# thorough: end-to-end loopback transfers in real time


async def e2e_one(level, direction, nconn, size, limit):
    kw = {}
    ukw = {}
    side = "write" if direction == "download" else "read"  # server side direction
    if level == "server":
        kw[f"{side}_speed_limit"] = limit
    elif level == "server_per_connection":
        kw[f"{side}_speed_limit_per_connection"] = limit
    elif level == "user":
        ukw[f"{side}_speed_limit"] = limit
    elif level == "user_per_connection":
        ukw[f"{side}_speed_limit_per_connection"] = limit
    users = [aioftp.User("a", "pw", base_path="/", **ukw)]
    server = aioftp.Server(users, path_io_factory=aioftp.MemoryPathIO, block_size=1024, **kw)
    await server.start("127.0.0.1", 0)
    ckw = {}
    if level == "client":
        ckw["read_speed_limit" if direction == "download" else "write_speed_limit"] = limit
    clients = []
    payload = b"-" * size
    try:
        for i in range(nconn):
            c = aioftp.Client(path_io_factory=aioftp.MemoryPathIO, **ckw)
            await c.connect("127.0.0.1", server.server_port)
            await c.login("a", "pw")
            clients.append(c)
        if direction == "download":
            # seed through the opposite (unlimited) direction
            for i, c in enumerate(clients):
                async with c.upload_stream(f"file{i}") as st:
                    await st.write(payload)

        async def xfer(c, i):
            name = f"file{i}"
            if direction == "download":
                n = 0
                async with c.download_stream(name) as st:
                    async for block in st.iter_by_block(1024):
                        n += len(block)
                return n
            async with c.upload_stream(name) as st:
                for off in range(0, size, 1024):
                    await st.write(payload[off : off + 1024])
            return size

        t_begin = time.monotonic()
        res = await asyncio.gather(*[xfer(c, i) for i, c in enumerate(clients)])
        dur = time.monotonic() - t_begin
        return dur, res
    finally:
        await _shutdown(clients, server)


def stream_e2e(ctx):
    """duration of real transfers against the bound: moving S bytes through a limit L shared by m
    connections cannot take less than (m*S - blocks in flight)/L - slack; and without a limit in the
    relevant direction it must not be slowed down"""
    rng = ctx.rng
    size = 6 * 1024
    limit = 4096
    combos = []
    for level in ("client", "server", "server_per_connection", "user", "user_per_connection"):
        for direction in ("download", "upload"):
            combos.append((level, direction, rng.choice([1, 2])))
    for level, direction, nconn in combos:
        loop = asyncio.new_event_loop()
        try:
            try:
                dur, res = loop.run_until_complete(asyncio.wait_for(e2e_one(level, direction, nconn, size, limit), 60))
            except RuntimeError as e:
                ctx.notes.append(f"e2e {level}/{direction} skipped: {e}")
                continue
        finally:
            _close_loop(loop)
        ctx.traces_impl += 1
        ctx.case(("e2e", level, direction, nconn))
        shared = nconn if level in ("server", "user") else 1
        if level == "client":
            shared = 1
        total = shared * size
        # control-connection bytes also pass the same throttles (replies/commands): they only add delay
        lower = (total - shared * 2 * 1024) / limit - 0.25
        ctx.count("e2e_transfers")
        ctx.extra.setdefault("e2e", []).append({"level": level, "direction": direction, "connections": nconn, "seconds": round(dur, 3), "lower_bound": round(lower, 3)})
        if dur < lower:
            ctx.violation("an end-to-end transfer finished faster than the configured limit allows",
                          {"key": "c15-e2e-duration", "level": level, "direction": direction, "connections": nconn, "seconds": dur, "lower_bound": lower})
        # no excess delay / independence: per-connection limits must not add up across connections
        if dur > total / limit + 1.2:
            ctx.violation("an end-to-end transfer was slower than the limit requires (limits not independent, or excess delay)",
                          {"key": "c15-e2e-slow", "level": level, "direction": direction, "connections": nconn, "seconds": dur})


# ---------------------------------------------------------------------------------------------
# end-to-end in VIRTUAL time (harness/simnet.py): the real Server and Client, in-process, on an in-memory
# network.  Dimensions: the five limit levels x direction x 1..n sessions x block / file sizes x TIMEOUTS
# configured on the limited side (server socket_timeout / idle_timeout, client socket_timeout: none, below,
# around, above the sleep one block is worth) x multi-step login HISTORIES (login, quit, re-login of
# several sessions of one or two users before the concurrent transfers).
#
# Observation (below aioftp, at the asyncio layer): every transport.write (instant, sender side, bytes) and
# every StreamReader.read/readline return (instant, reader side, bytes), tagged with the session that opened
# the connection.  Oracle (arithmetic, on those observations only): for every configured limit L and every
# group of streams that must share it, at every I/O the bytes moved before it obey
#     B <= L * (t - t0) + (resets + 1)/2 + one block per participating stream
# (t0 = first byte of the group's sessions in that direction), and -- single-limit scenarios -- the whole
# scenario takes no longer than (bytes in the limited direction)/L (throttling adds no other delay: with a
# limit only in the opposite direction a transfer costs only the control traffic's share).
# Model prediction for every generated scenario: it completes (the throttle wait is outside every timed
# region; the timed socket I/O itself is instantaneous on this network); an exception is an observation.

SESSION = contextvars.ContextVar("c15_session", default=None)
LEVELS = ("client", "server", "server_per_connection", "user", "user_per_connection")
RESET_RATE = 10  # Throttle's default reset_rate, the only one the server / client ever construct


class SimObs:
    def __init__(self, net):
        self.net = net
        self.log = []
        self.user_of = {}  # session -> user it is logged in as right now (None before login / after quit)
        self.epoch = {}  # session -> number of logins so far
        net.on_connect = self.on_connect

    def on_connect(self, ct, st):
        sid = SESSION.get()
        for tr in (ct, st):
            tr.session = sid
            tr.out.segmenter = self._segmenter(tr)

    def _segmenter(self, tr):
        def seg(data):
            self.entry(tr, "write", len(data))
            return [data]

        return seg

    def entry(self, tr, dirn, n):
        if n <= 0:
            return
        sid = getattr(tr, "session", None)
        self.log.append({"t": self.net.loop.time(), "s": sid, "side": tr.side, "dir": dirn, "stream": tr.label,
                         "n": n, "user": self.user_of.get(sid), "ep": self.epoch.get(sid, 0)})


class ReaderSpy:
    """asyncio.StreamReader.read / readline report what they return (class attributes, restored on exit)"""

    def __init__(self, obs):
        self.obs = obs

    def __enter__(self):
        from .. import simnet

        R = asyncio.StreamReader
        self.saved = (R.read, R.readline)
        o_read, o_readline = self.saved
        obs = self.obs

        async def read(rd, n=-1):
            data = await o_read(rd, n)
            tr = getattr(rd, "_transport", None)
            if isinstance(tr, simnet.MemTransport):
                obs.entry(tr, "read", len(data))
            return data

        async def readline(rd):
            data = await o_readline(rd)
            tr = getattr(rd, "_transport", None)
            if isinstance(tr, simnet.MemTransport):
                obs.entry(tr, "read", len(data))
            return data

        R.read, R.readline = read, readline
        return self

    def __exit__(self, *a):
        asyncio.StreamReader.read, asyncio.StreamReader.readline = self.saved


def _limit_kwargs(sc):
    server_kw, user_kw, client_kw = {}, {}, {}
    for level, dirn, L in sc["limits"]:
        if level == "server":
            server_kw[f"{dirn}_speed_limit"] = L
        elif level == "server_per_connection":
            server_kw[f"{dirn}_speed_limit_per_connection"] = L
        elif level == "user":
            user_kw[f"{dirn}_speed_limit"] = L
        elif level == "user_per_connection":
            user_kw[f"{dirn}_speed_limit_per_connection"] = L
        elif level == "client":
            client_kw[f"{dirn}_speed_limit"] = L
    return server_kw, user_kw, client_kw


def run_sim(sc, wall_timeout=30):
    """run one scenario on the real Server / Client in virtual time; returns {"log", "moved", "raised",
    "identity", "t_end"}"""
    import pathlib

    from .. import simnet

    out = {"log": [], "moved": {}, "raised": [], "identity": None, "t_end": None, "sessions_of_user": {}}

    async def main(net):
        obs = SimObs(net)
        server_kw, user_kw, client_kw = _limit_kwargs(sc)
        size = sc["block"] * sc["nblocks"]
        payload = b"-" * size
        seed_io = aioftp.MemoryPathIO()
        sids = sorted({st[1] for st in sc["history"]})
        if sc["direction"] == "download":
            for sid in sids:
                async with seed_io.open(pathlib.PurePosixPath(f"/f{sid}"), "wb") as f:
                    await f.write(payload)
        users = [aioftp.User(f"u{u}", "pw", base_path="/", **user_kw) for u in range(sc["users"])]
        st = sc.get("server_timeouts") or {}
        server = aioftp.Server(users, path_io_factory=aioftp.MemoryPathIO, block_size=sc["block"],
                               socket_timeout=st.get("socket"), idle_timeout=st.get("idle"), **server_kw)
        server.path_io_factory.state = seed_io.state  # PathIONursery: the file system every connection shares
        clients = {}
        with ReaderSpy(obs):
            try:
                await server.start("127.0.0.1", 0)
                port = server.server_port
                ct = (sc.get("client_timeouts") or {}).get("socket")
                # ---- the login history, one step after the other
                for step in sc["history"]:
                    kind, sid = step[0], step[1]
                    SESSION.set(sid)
                    try:
                        if kind == "login":
                            c = aioftp.Client(path_io_factory=aioftp.MemoryPathIO, socket_timeout=ct, **client_kw)
                            clients[sid] = c
                            await c.connect("127.0.0.1", port)
                            await c.login(f"u{step[2]}", "pw")
                            obs.user_of[sid] = step[2]
                            obs.epoch[sid] = obs.epoch.get(sid, 0) + 1
                        elif kind == "relogin":
                            obs.user_of[sid] = None
                            await clients[sid].login(f"u{step[2]}", "pw")
                            obs.user_of[sid] = step[2]
                            obs.epoch[sid] = obs.epoch.get(sid, 0) + 1
                        elif kind == "quit":
                            await clients[sid].quit()
                            obs.user_of[sid] = None
                            del clients[sid]
                        out["sessions_of_user"].setdefault(obs.user_of.get(sid), set()).add(sid)
                    except Exception as e:  # noqa: BLE001 - an observation, the scenario goes on
                        out["raised"].append(["history", sid, type(e).__name__, str(e)[:200]])
                    await net.settle()
                # ---- which per-user object does every live session hold (white box, for the identity oracle)
                ident = {}
                for cn in list(server.connections.values()):
                    for sid, c in clients.items():
                        try:
                            mine = c.stream.writer.transport.get_extra_info("sockname")[1] == cn.client_port
                        except Exception:  # noqa: BLE001
                            mine = False
                        if mine:
                            th = cn.command_connection.throttles
                            ident[sid] = {"user": obs.user_of.get(sid),
                                          "user_global": id(th.get("user_global")),
                                          "user_per_connection": id(th.get("user_per_connection")),
                                          "server_global": id(th.get("server_global")),
                                          "server_per_connection": id(th.get("server_per_connection"))}
                out["identity"] = ident
                out["server_throttle"] = id(server.throttle)

                # ---- all live sessions act concurrently
                async def act(sid, c):
                    SESSION.set(sid)
                    n = 0
                    try:
                        if sc["direction"] == "download":
                            async with c.download_stream(f"f{sid}") as stream:
                                async for block in stream.iter_by_block(sc["block"]):
                                    n += len(block)
                        elif sc["direction"] == "upload":
                            async with c.upload_stream(f"up{sid}") as stream:
                                for off in range(0, size, sc["block"]):
                                    await stream.write(payload[off : off + sc["block"]])
                                    n += min(sc["block"], size - off)
                        else:  # a burst of commands on the control channel
                            for i in range(sc["ncmd"]):
                                await c.command("PWD", "257")
                                n += 1
                    except Exception as e:  # noqa: BLE001
                        out["raised"].append([sc["direction"], sid, type(e).__name__, str(e)[:200]])
                    out["moved"][sid] = n

                out["t_phase"] = net.loop.time()
                if clients:
                    await asyncio.gather(*[act(sid, c) for sid, c in sorted(clients.items())])
                out["t_end"] = net.loop.time()
                out["n_phase_end"] = len(obs.log)  # what follows is the tear-down (sessions quit one after the other)
            finally:
                for sid, c in sorted(clients.items()):
                    SESSION.set(sid)
                    try:
                        await asyncio.wait_for(c.quit(), 1000)
                    except Exception:  # noqa: BLE001
                        try:
                            c.close()
                        except Exception:  # noqa: BLE001
                            pass
                await net.settle()
                try:
                    await server.close()
                except Exception as e:  # noqa: BLE001
                    out["raised"].append(["close", None, type(e).__name__, str(e)[:200]])
                out["log"] = obs.log
        return out

    try:
        return simnet.run(main, wall_timeout=wall_timeout)
    except BaseException as e:  # noqa: BLE001 - even a wedged scenario is an observation
        if isinstance(e, KeyboardInterrupt):
            raise
        out["raised"].append(["run", None, type(e).__name__, str(e)[:200]])
        return out


def sim_expected(sc):
    """what a completed scenario moves per live session"""
    live = {}
    for st in sc["history"]:
        if st[0] == "quit":
            live.pop(st[1], None)
        else:
            live[st[1]] = st[2]
    per = sc["ncmd"] if sc["direction"] == "commands" else sc["block"] * sc["nblocks"]
    return live, {sid: per for sid in live}


def sim_groups(sc, out):
    """(name, L, direction, side, member(entry), counted(entry)) for every limit of the scenario and every set of
    streams that must share it.  `member` delimits the sessions of the group (window origin, total time);
    `counted` is the subset of their I/O that is certainly subject to the limit (after the login that bound it)"""
    ever = {}  # user -> sessions that were ever logged in as it
    final_ep = {}
    ep = {}
    for st in sc["history"]:
        if st[0] in ("login", "relogin"):
            ever.setdefault(st[2], set()).add(st[1])
            ep[st[1]] = ep.get(st[1], 0) + 1
            final_ep[st[1]] = ep[st[1]]
    sids = sorted({st[1] for st in sc["history"]})
    groups = []
    for level, dirn, L in sc["limits"]:
        if level == "client":
            for sid in sids:
                m = (lambda e, sid=sid: e["side"] == "client" and e["s"] == sid)
                groups.append((f"client[{sid}]", L, dirn, m, m))
        elif level == "server":
            m = (lambda e: e["side"] == "server")
            groups.append(("server", L, dirn, m, m))
        elif level == "server_per_connection":
            for sid in sids:
                m = (lambda e, sid=sid: e["side"] == "server" and e["s"] == sid)
                groups.append((f"server_per_connection[{sid}]", L, dirn, m, m))
        elif level == "user":
            for u, ss in sorted(ever.items()):
                m = (lambda e, ss=ss: e["side"] == "server" and e["s"] in ss)
                c = (lambda e, ss=ss, u=u: e["side"] == "server" and e["s"] in ss and e["user"] == u)
                groups.append((f"user[u{u}]", L, dirn, m, c))
        elif level == "user_per_connection":
            for sid in sids:
                m = (lambda e, sid=sid: e["side"] == "server" and e["s"] == sid)
                c = (lambda e, sid=sid: e["side"] == "server" and e["s"] == sid and e["user"] is not None
                     and e["ep"] == final_ep.get(sid))
                groups.append((f"user_per_connection[{sid}]", L, dirn, m, c))
    return groups


def sim_oracle(sc, out):
    """the property's cumulative bound (and the no-other-delay direction) on the observation log; returns a list of
    (key, what, detail)"""
    log = out["log"]
    viol = []
    EPS = 1e-6
    for name, L, dirn, member, counted in sim_groups(sc, out):
        ents = [e for e in log if e["dir"] == dirn and member(e)]
        if not ents:
            continue
        t0 = ents[0]["t"]
        B = 0
        latest = {}
        for e in ents:
            if not counted(e):
                continue
            dt = e["t"] - t0
            allowance = L * dt + (dt / RESET_RATE + 1) / 2 + sum(latest.values())
            if B > allowance + EPS * max(1, L):
                viol.append(("c15-sim-rate-exceeded",
                             "end-to-end: the bytes moved under a limit run ahead of limit*(t - t0) by more than the blocks in flight",
                             {"group": name, "limit": L, "direction": dirn, "t": e["t"], "t0": t0, "bytes_before": B,
                              "limit_times_elapsed": L * dt, "blocks_in_flight_allowance": sum(latest.values()),
                              "streams": sorted(latest), "observed_rate": (B / dt if dt > 0 else None)}))
                break
            B += e["n"]
            latest[e["stream"]] = e["n"]
    # no delay beyond what the (single) limit requires
    # (not after a re-login: a session then spent part of its life under another user's limit)
    if len(sc["limits"]) == 1 and not out["raised"] and out.get("t_end") is not None and not any(
        st[0] == "relogin" for st in sc["history"]
    ):
        for name, L, dirn, member, counted in sim_groups(sc, out):
            side = "client" if name.startswith("client") else "server"
            sess = {e["s"] for e in log if member(e)}
            mine = [e for e in log[: out.get("n_phase_end", len(log))] if e["s"] in sess]
            if not mine:
                continue
            # the login history runs one step after the other (a session idles while the others log in); from the
            # start of the concurrent phase on every session acts as fast as it is allowed to, so the last I/O
            # happens no later than t_first + (all bytes in the limited direction)/L
            t_first, t_last = mine[0]["t"], max(e["t"] for e in mine)
            total = sum(e["n"] for e in mine if e["dir"] == dirn and e["side"] == side)
            dt = t_last - t_first
            if t_last > out.get("t_phase", 0) + EPS and dt > total / L + (dt / RESET_RATE + 2) / (2 * L) + EPS:
                viol.append(("c15-sim-excess-delay",
                             "end-to-end: a scenario took longer than (bytes in the limited direction)/limit: throttling added delay the bound does not require",
                             {"group": name, "limit": L, "direction": dirn, "seconds": dt, "bytes_limited_direction": total,
                              "required_at_most": total / L, "concurrent_phase_started": out.get("t_phase")}))
    return viol


def sim_identity_oracle(sc, out):
    """object identity of the shared limits across the sessions that are live after the history: the server-wide
    object is one, the per-user object is one per USER (same user <=> same object), per-connection objects are
    pairwise distinct"""
    ident = out.get("identity") or {}
    viol = []
    sids = sorted(ident)
    for i, a in enumerate(sids):
        for b in sids[i + 1 :]:
            x, y = ident[a], ident[b]
            if x["user"] is None or y["user"] is None:
                continue
            same_user = x["user"] == y["user"]
            if same_user != (x["user_global"] == y["user_global"]):
                viol.append(("c15-history-per-user-identity",
                             "after this login history two live sessions of the same user hold different per-user limit objects "
                             "(the per-user limit no longer bounds their sum)" if same_user else
                             "after this login history two live sessions of different users hold the same per-user limit object",
                             {"sessions": [a, b], "users": [x["user"], y["user"]]}))
            if x["user_per_connection"] == y["user_per_connection"] or x["server_per_connection"] == y["server_per_connection"]:
                viol.append(("c15-history-per-connection-identity", "two live sessions share a per-connection limit object",
                             {"sessions": [a, b]}))
            if x["server_global"] != y["server_global"] or x["server_global"] != out.get("server_throttle"):
                viol.append(("c15-history-server-identity", "live sessions do not share the server-wide limit object",
                             {"sessions": [a, b]}))
    return viol


def sim_check(ctx, sc, tag):
    """run a scenario, compare with the prediction (it completes), evaluate the oracles; returns the oracle hits"""
    out = run_sim(sc)
    ctx.traces_impl += 1
    live, expect = sim_expected(sc)
    ctx.case((tag, json.dumps(sc, sort_keys=True)), nontrivial=bool(out["log"]))
    ctx.count(f"{tag}_scenarios")
    ctx.count(f"{tag}_io_observed", len(out["log"]))
    if out["raised"] or out["moved"] != expect:
        ctx.count(f"{tag}_not_completed")
        ctx.disagree(tag, {"scenario": sc},
                     {"model": "the scenario completes: throttle waits are outside every timed region", "moved": expect},
                     {"raised": out["raised"], "moved": out["moved"]})
    hits = sim_oracle(sc, out) + sim_identity_oracle(sc, out)
    for key, what, detail in hits:
        ctx.violation(what, {"key": key, "stream": tag, "scenario": sc, "detail": detail})
    return out, hits


def _tcfg(sleep, which):
    """a timeout below / around / above the sleep one block is worth (all exact binary fractions)"""
    return {"none": None, "below": sleep / 4, "around-": max(sleep - 0.125, sleep / 2), "around+": sleep + 0.125,
            "above": 4 * sleep}[which]


def limited_dir(level, direction):
    """the direction, seen from the limited side, in which a transfer moves its payload"""
    if level == "client":
        return "read" if direction == "download" else "write"
    return "write" if direction == "download" else "read"


def gen_sim_scenarios(rng, thorough):
    scs = []
    hist1 = lambda n, users=1: [["login", i, i % users] for i in range(n)]  # noqa: E731
    # (A) every level x transfer direction x 1..2 sessions x timeout on the limited side
    for level in LEVELS:
        for direction in ("download", "upload"):
            for nconn in (1, 2):
                for which in ("none", "below", "around-", "around+", "above"):
                    L = rng.choice([1024, 4096])
                    block = rng.choice([1024, 4096, 8192])
                    T = _tcfg(block / L, which)
                    sc = {"direction": direction, "block": block, "nblocks": rng.randint(3, 9), "ncmd": 0,
                          "limits": [[level, limited_dir(level, direction), L]], "users": 1, "history": hist1(nconn),
                          "server_timeouts": {"socket": T if level != "client" else None, "idle": None},
                          "client_timeouts": {"socket": T if level == "client" else None}, "timeout_is": which}
                    scs.append(sc)
    # (B) only the opposite direction is limited: the payload must not be delayed at all
    for level in LEVELS:
        for direction in ("download", "upload"):
            opp = "read" if limited_dir(level, direction) == "write" else "write"
            scs.append({"direction": direction, "block": 4096, "nblocks": rng.randint(3, 9), "ncmd": 0,
                        "limits": [[level, opp, rng.choice([512, 2048])]], "users": 1, "history": hist1(rng.choice([1, 2])),
                        "server_timeouts": {"socket": rng.choice([None, 0.5]), "idle": None} if level != "client" else {},
                        "client_timeouts": {"socket": rng.choice([None, 0.5])} if level == "client" else {},
                        "timeout_is": "opposite"})
    # (C) control channel only: a burst of commands under a tiny limit, idle_timeout (server reads) / socket_timeout
    # (server writes, client) below / around / above the sleep one line is worth
    for level in LEVELS:
        for dirn in ("read", "write"):
            for which in ("below", "around-", "around+", "above") if thorough else (rng.choice(["below", "around-"]), rng.choice(["around+", "above"])):
                L = rng.choice([1, 2, 4])
                T = _tcfg(8 / L, which)
                st, ct = {"socket": None, "idle": None}, {"socket": None}
                if level == "client":
                    ct["socket"] = T
                elif dirn == "read":
                    st["idle"] = T
                else:
                    st["socket"] = T
                # with an idle_timeout only one session: the steps of a history run one after the other, and a
                # session that idles while another one logs in under a 1 B/s limit is rightly dropped (C16)
                scs.append({"direction": "commands", "block": 1024, "nblocks": 0, "ncmd": rng.randint(4, 10),
                            "limits": [[level, dirn, L]], "users": 1, "history": hist1(1 if st["idle"] else rng.choice([1, 2])),
                            "server_timeouts": st, "client_timeouts": ct, "timeout_is": which})
    # (D) two limits at once (the tightest governs: each bound holds), two users, mixed timeouts
    for _ in range(40 if thorough else 12):
        direction = rng.choice(["download", "upload"])
        lv = rng.sample(LEVELS, 2)
        L1, L2 = rng.sample([1024, 2048, 4096, 8192], 2)
        block = rng.choice([1024, 4096])
        # a timeout only when both limits sit on the server: with a client limit in play the faster side is
        # stalled by its peer and its socket timeout rightly fires (C16), which is not this property's subject
        T = None if "client" in lv else _tcfg(block / min(L1, L2), rng.choice(["none", "below", "around+", "above"]))
        scs.append({"direction": direction, "block": block, "nblocks": rng.randint(3, 8), "ncmd": 0,
                    "limits": [[lv[0], limited_dir(lv[0], direction), L1], [lv[1], limited_dir(lv[1], direction), L2]],
                    "users": 2, "history": hist1(rng.choice([2, 3]), users=2),
                    "server_timeouts": {"socket": T, "idle": None}, "client_timeouts": {"socket": None},
                    "timeout_is": "mixed"})
    return scs


def gen_histories(maxlen, users=2, maxlive=3):
    """all login histories up to maxlen steps over `users` users (first login is u0: symmetry), at most maxlive
    live sessions: login of a new session, quit / re-login of the oldest or the newest live session"""
    res = []

    def rec(hist, live, nxt):
        if hist:
            res.append(list(hist))
        if len(hist) == maxlen:
            return
        for u in range(users if hist else 1):
            if len(live) < maxlive:
                rec(hist + [["login", nxt, u]], live + [(nxt, u)], nxt + 1)
        cand = []
        if live:
            cand.append(live[0])
            if len(live) > 1:
                cand.append(live[-1])
        for sid, u in cand:
            rec(hist + [["quit", sid]], [x for x in live if x[0] != sid], nxt)
            for u2 in range(users):
                if u2 != u:
                    rec(hist + [["relogin", sid, u2]], [(s, (u2 if s == sid else uu)) for s, uu in live], nxt)

    rec([], [], 0)
    return res


def stream_sim(ctx):
    """(A)-(D): levels x directions x sessions x timeouts, in virtual time"""
    thorough = ctx.tier == "thorough"
    scs = gen_sim_scenarios(ctx.rng, thorough)
    if thorough:
        scs += gen_sim_scenarios(ctx.rng, False)
    for sc in scs:
        out, hits = sim_check(ctx, sc, "sim")
        ctx.count("sim_timeout_" + str(sc.get("timeout_is")))
        ctx.count("sim_level_" + "+".join(l[0] for l in sc["limits"]))
    ctx.extra.setdefault("sim", {})["scenarios"] = len(scs)


def stream_histories(ctx):
    """(E) login histories of one or two users under a per-user limit: identity of the per-user object across the
    live sessions after EVERY history up to a length (bounded exhaustive), and -- for the histories that end with
    two or more live sessions of one user -- concurrent transfers against the shared bound"""
    thorough = ctx.tier == "thorough"
    rng = ctx.rng
    hs = gen_histories(6 if thorough else 5)
    ctx.count("history_enumerated", len(hs))
    base = {"block": 4096, "ncmd": 0, "users": 2, "server_timeouts": {}, "client_timeouts": {}, "timeout_is": "none"}
    xfer = []
    for h in hs:
        live, _ = sim_expected({"history": h, "direction": "download", "block": 1, "nblocks": 1, "ncmd": 0})
        byuser = {}
        for sid, u in live.items():
            byuser.setdefault(u, []).append(sid)
        shares = any(len(v) >= 2 for v in byuser.values())
        churn = any(st[0] in ("quit", "relogin") for st in h)
        if shares and churn:
            xfer.append(h)
            continue
        # identity only: nothing is transferred (nblocks 0 -> the live sessions run an empty burst)
        sc = dict(base, direction="commands", nblocks=0, limits=[["user", "write", 4096]], history=h)
        sim_check(ctx, sc, "history")
    ctx.count("history_with_shared_user_after_churn", len(xfer))
    budget = len(xfer) if thorough else 120
    if len(xfer) > budget:
        # keep the shortest ones (every pattern of length <= 4 with churn is among them) + a random rest
        xfer.sort(key=len)
        head = [h for h in xfer if len(h) <= 4][:budget]
        xfer = head + rng.sample([h for h in xfer if h not in head], max(0, budget - len(head)))
    for h in xfer:
        direction = rng.choice(["download", "upload"])
        sc = dict(base, direction=direction, nblocks=rng.randint(6, 12),
                  limits=[["user", limited_dir("user", direction), rng.choice([4096, 16384])]], history=h)
        sim_check(ctx, sc, "history")
        ctx.count("history_transfers")


# ---------------------------------------------------------------------------------------------
# the recorded finding: the witness of C15_literal_bound_refuted on the real classes

WITNESS = {
    "store": [["1", "10"], [None, "10"]],
    "dicts": [[[1, 0]]],
    "actors": [{"dict": 0, "op": "write", "mode": "A"}],
    "clock0": "0",
    "phases": [{"admin": [], "scripts": [[["io", "0", 0], ["gap", "23/2"], ["io", "1/4", 12], ["io", "0", 1]]]}],
}


def known(ctx):
    events, objs = run_impl(WITNESS)
    starts = [e for e in events if e["k"] == "start"]
    last = starts[-1]
    # 12 bytes accounted, third I/O starts at 47/4: 12 > 1 * (47/4 - 0)
    done12 = [e for e in events if e["k"] == "done" and e["n"] == 12]
    if done12 and F(last["t"]) == F(47, 4) and 12 > 1 * (F(last["t"]) - 0):
        ctx.known_reproduced(KNOWN_ID, "witness of C15_literal_bound_refuted replayed on the real Throttle: 12 bytes accounted at t - t0 = 47/4 s with limit 1 B/s")
    else:
        ctx.notes.append("F15 witness no longer reproduces on the real code (fixed?) - the _refuted theorem should be revisited")
        ctx.extra["known_witness_events"] = [_ev_json(e) for e in events]


# ---------------------------------------------------------------------------------------------


def correspondence(ctx, budget=None):
    thorough = ctx.tier == "thorough"
    n = budget or (12000 if thorough else 2500)
    ctx.extra["rule"] = (
        "streams: (a) virtual-time traces of the real ThrottleStreamIO/Throttle with exact Fraction clock: 1-4 actors "
        "(read/readline/write; mode A = real read()/readline()/write(), mode B = real wait()/append() with an extra delay "
        "before the start), 2-8+ throttle objects (limit None/0/negative/positive rationals, reset periods incl. 0), random "
        "dicts and server-shaped dicts (global shared, per-connection, per-user, per-user-connection), unequal blocks incl. 0, "
        "durations, gaps at reset_rate -eps/0/+eps, in-trace limit changes, multi-phase with limit re-assignment and clone of "
        "every object; every wake time and the (limit, reset_rate, start, sum) of every object after every event compared "
        "with the model; (b) the same generator on dyadic inputs run with float clock and limits; (c) unit cases of round / "
        "wait / append / clone / limit setter on arbitrary states; (d) wiring facts vs object identities in a live loopback "
        "session; thorough: (e) end-to-end loopback transfers. Streams of (a)/(b) carry StreamIO timeout / read_timeout / "
        "write_timeout (None or positive; below, around, above the sleep a block is worth; the socket I/O mostly shorter, "
        "sometimes longer than the timeout -> asyncio.TimeoutError, model event Abort); every operation's outcome is compared "
        "with timed_end; an exception of the implementation is an event of the trace (model says X, implementation raised E), "
        "never the end of the run. (f) simnet, virtual time, real Server + Client: five limit levels x download/upload/command "
        "burst x 1-2 sessions x socket_timeout / idle_timeout / client socket_timeout on the limited side (none, below, around, "
        "above the sleep of one block or line) + opposite-direction limits + two limits at once; (g) all login histories up to 5 "
        "(thorough 6) steps (login / quit / re-login of the oldest or newest of <= 3 sessions, 2 users) under a per-user limit: "
        "identity of the per-user object across live sessions after each, concurrent transfers after those that end with a "
        "shared user after churn. Oracle on the real trace: scheduled-within-rate at every start, "
        "shared bound at every completion, no excess delay and no delay when off at every wait; end-to-end: cumulative bound "
        "per limit group at every observed I/O, total time <= bytes/limit. A trace is non-trivial when "
        "it moves at least one byte (distinct by hash of the case)."
    )
    xcheck = []

    def guarded(name, f, *a, **kw):
        """no stream may end the run: what escapes one is reported and the others still run"""
        import traceback

        try:
            f(*a, **kw)
        except Exception:  # noqa: BLE001
            ctx.obligation_broken("harness-exception:" + name, traceback.format_exc()[-1500:])

    guarded("fraction", stream_traces, ctx, n, dyadic=False, flt=False, tag="fraction", xcheck=xcheck)
    guarded("float_dyadic", stream_traces, ctx, n // 3, dyadic=True, flt=True, tag="float_dyadic", xcheck=xcheck)
    guarded("units", stream_units, ctx, n // 2, xcheck)
    if budget is None:
        try:
            check_wiring_live(ctx)
        except Exception as e:  # noqa: BLE001
            ctx.obligation_broken("wiring-live-session", repr(e))
        if thorough:
            guarded("e2e-loopback", stream_e2e, ctx)
        guarded("sim", stream_sim, ctx)
        guarded("histories", stream_histories, ctx)
    # core writes the first five: put one of every (stream, key) kind first, and among the virtual-clock traces
    # those on which nothing was raised (they show the arithmetic of a violation most plainly)
    seen = {}
    order = []
    for v in ctx.violations:
        r = v.get("replay") if isinstance(v.get("replay"), dict) else {}
        kind = (r.get("stream"), r.get("key"))
        seen[kind] = seen.get(kind, 0) + (0 if r.get("raised") else 1)
        order.append((0 if not r.get("raised") and seen[kind] == 1 else 1, 1 if r.get("raised") else 0))
    ctx.violations[:] = [v for _, v in sorted(zip(order, ctx.violations), key=lambda p: p[0])]
    from ..core import vm_crosscheck

    ok, out = vm_crosscheck(EXTRACT, xcheck[:60])
    ctx.extra["vm_compute_crosscheck"] = {"cases": len(xcheck[:60]), "agree": ok}
    if not ok:
        ctx.obligation_broken("extraction-crosscheck", out)


def search(ctx):
    if ctx.violations or ctx.tier == "thorough" or ctx.exe is None:
        return
    try:
        correspondence(ctx, budget=5000)
        stream_sim(ctx)  # fresh random limits / sizes / timeouts for the end-to-end scenarios
    except Exception as e:
        ctx.notes.append(f"search aborted: {e!r}")


def replay(ctx, data):
    """re-run a recorded case on the real code and re-evaluate the oracle; True when the property holds"""
    r = data.get("replay", {})
    key = r.get("key", "")
    if key.startswith("c15-wiring"):
        loop = asyncio.new_event_loop()
        try:
            obs = loop.run_until_complete(asyncio.wait_for(live_wiring(), 30))
        finally:
            loop.close()
        print("observed:", json.dumps(obs, indent=1))
        flat = [v for k, v in obs.items() if k != "keys" and not isinstance(v, list)] + list(obs["data_dict_is_control_dict"])
        return all(x is True for x in flat)
    if "scenario" in r and isinstance(r["scenario"], dict):
        sc = r["scenario"]
        out = run_sim(sc)
        hits = sim_oracle(sc, out) + sim_identity_oracle(sc, out)
        live, expect = sim_expected(sc)
        print("scenario:", json.dumps(sc))
        print("moved:", out["moved"], "expected:", expect, "raised:", out["raised"], "virtual seconds:", out.get("t_end"))
        print("identity of the limit objects held by the live sessions:", json.dumps(out.get("identity"), default=str))
        for g in sim_groups(sc, out):
            ents = [e for e in out["log"] if e["dir"] == g[2] and g[3](e)]
            if ents:
                tot = sum(e["n"] for e in ents if g[4](e))
                dt = ents[-1]["t"] - ents[0]["t"]
                print(f"  group {g[0]}: limit {g[1]} B/s {g[2]}: {tot} bytes in {dt:.3f} s = {tot / dt if dt else 0:.1f} B/s over {len({e['stream'] for e in ents})} streams")
        print("oracle:", json.dumps(hits, default=str))
        return not hits
    if "case" in r and isinstance(r["case"], dict):
        flt = r.get("stream") == "float_dyadic"
        events, objs = run_impl(r["case"], flt=flt)

        class Quiet:
            def violation(self, *a):
                pass

        viol, slack = oracle(Quiet(), r["case"], events, actor_ids(r["case"]), report=False)
        for e in events:
            print(_ev_json(e))
        for o in run_impl.last_ops:
            if not o["ok"]:
                print("operation raised:", {k: str(v) for k, v in o.items()})
        print("oracle:", viol, "literal-bound excess within slack:", slack)
        if key == KNOWN_KEY:
            return slack == 0
        return not viol
    print("replay payload:", data)
    return False
