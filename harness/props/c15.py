"""C15 — speed limits bound the cumulative rate, compose, cost nothing when off.

Correspondence of coq/Model/Throttle.v with the REAL aioftp.common.Throttle / StreamThrottle /
ThrottleStreamIO, run under a virtual clock with exact rational (fractions.Fraction) times and
limits (the code is duck-typed: every value it computes is an exact rational), plus a float stream
on dyadic inputs; the property oracle (the cumulative inequality, evaluated on the REAL trace,
independent of the model); the wiring facts of Gen/Wiring.v against object identities in a live
loopback session; thorough tier: end-to-end loopback transfers with small limits in real time.

How the real code is driven (nothing in /repo is edited):
  * `asyncio.sleep` (looked up as `asyncio.sleep` by aioftp.common at call time) is replaced, while a
    case runs, by a virtual sleep that parks the caller on a heap of exact wake times;
  * `aioftp.common._now` is replaced by the virtual clock;
  * the event loop is a SelectorEventLoop whose `_run_once` advances the virtual clock to the next
    parked wake time whenever nothing is ready;
  * `Throttle.wait` is wrapped (class attribute, the original coroutine function is still what
    runs) only to RECORD the instant at which each wait task evaluates the throttle;
  * streams are real ThrottleStreamIO objects over fake reader/writer objects whose read()/drain()
    take a scripted virtual duration and return a scripted number of bytes.
Mode A calls the real read()/readline()/write(); mode B replicates only their awaiting shell
(`await stream.wait(name)`; start; I/O; `stream.append(name, data, start)`) in order to put an
arbitrary extra delay between the wait and the start (the real shell always starts at the wake
instant)."""
import asyncio
import contextvars
import heapq
import json
import time
from fractions import Fraction as F

import aioftp
import aioftp.common as common

from .. import sx

ID = "C15"
EXTRACT = "ExC15"
TECHNIQUE = (
    "Coq proof over Q (invariant sum = T - C, |C - L(start - t0)| <= r/2; covering/counting lemma for k streams; "
    "simulation from a store of shared throttle objects to each single throttle) about an executable model of "
    "Throttle.wait/append/limit/clone and ThrottleStreamIO.wait/append/read/readline/write, tied to the code by "
    "(a) py2v wiring facts + a closed checker obligation, (b) differential correspondence of the extracted model "
    "against the real classes under a virtual clock with exact rational arithmetic"
)
LEVEL_TEXT = (
    "Theorems C15_fold_invariant, C15_resets_bounded, C15_scheduled_within_rate, C15_shared_bound, "
    "C15_single_stream_bound, C15_no_excess_delay, C15_sys_projects, C15_tightest_governs_max, "
    "C15_tightest_governs_all, C15_sys_shared_bound, C15_independent, C15_clone_no_memory, C15_off_is_free(_one), "
    "C15_round_half_even_error are proved for every positive rational limit, every reset period >= 0, every number of "
    "streams and throttle objects and every interleaving of evaluate/start/complete events with arbitrary block sizes "
    ">= 0, durations and gaps (Closed under the global context). The bound that holds is L*(t - t0) + r/2 + blocks in "
    "flight with r <= (t - t0)/reset_rate resets; the literal bound of the property text (no r/2) is refuted "
    "(C15_literal_bound_refuted, finding F15). C15_wiring is a closed vm_compute obligation over facts regenerated "
    "from the source on every run. The model is hand-written; its tie is a differential correspondence (thousands of "
    "virtual-time traces per run, every wake time and every (start, sum) state compared exactly) plus a live "
    "object-identity check of the wiring, so the assurance is a proof about the model plus sampled agreement."
)
LEVEL_NOTE = (
    "Trusted: Coq kernel; extraction cross-checked with vm_compute; harness virtual clock. Modelled, not verified: "
    "asyncio.sleep accuracy and task scheduling (asyncio.wait on all tasks = wake at the max), float rounding in "
    "production (theorems are over Q; the float stream on dyadic inputs is validation only), len(data) = bytes moved. "
    "The window origin t0 is the throttle's own first recorded start (with several streams it can be later than the "
    "earliest in-flight start; the upper bound is then stronger, the no-excess-delay direction is relative to t0)."
)
TRUSTED = [
    "virtual clock harness: asyncio.sleep / aioftp.common._now replaced while a case runs; Throttle.wait wrapped only to "
    "record the evaluation instant (the original coroutine function runs)",
    "asyncio semantics assumed by the model: the wait tasks of one stream.wait() evaluate atomically w.r.t. other "
    "coroutines; asyncio.wait(tasks) resumes when the last sleep ends",
]
ASSUMPTIONS = [
    "modelled, not verified: asyncio.sleep accuracy; float arithmetic of production runs (exact on dyadic inputs, exercised)",
    "reset_rate >= 0 and limit fixed during an epoch for the rate theorems (limit setter starts a new epoch)",
]

KNOWN_KEY = "c15-rounding-slack"
KNOWN_ID = "F15-throttle-reset-rounding"

# ---------------------------------------------------------------------------------------------
# virtual time

ACTOR = contextvars.ContextVar("c15_actor", default=None)
IN_WAIT = contextvars.ContextVar("c15_in_wait", default=None)
RUN = None  # the Recorder of the case being run


class VClock:
    def __init__(self, now):
        self.now = now
        self.heap = []
        self.seq = 0

    def park(self, delay, fut):
        heapq.heappush(self.heap, (self.now + delay, self.seq, fut))
        self.seq += 1

    def advance(self):
        while self.heap and self.heap[0][2].cancelled():
            heapq.heappop(self.heap)
        if not self.heap:
            return False
        when = self.heap[0][0]
        if when > self.now:
            self.now = when
        while self.heap and self.heap[0][0] == when:
            _, _, fut = heapq.heappop(self.heap)
            if not fut.cancelled():
                fut.set_result(None)
        return True


class VLoop(asyncio.SelectorEventLoop):
    def __init__(self, vc):
        super().__init__()
        self.vc = vc

    def _run_once(self):
        if not self._ready and not self._stopping:
            if not self.vc.advance() and not self._scheduled:
                raise RuntimeError("virtual clock: nothing ready and nothing parked (deadlock)")
        super()._run_once()


async def vsleep(delay, result=None):
    loop = asyncio.get_running_loop()
    vc = loop.vc
    th = IN_WAIT.get()
    if th is not None and RUN is not None:
        RUN.on_throttle_sleep(ACTOR.get(), th, vc.now + delay)
    fut = loop.create_future()
    vc.park(delay, fut)
    await fut
    return result


def vnow():
    vc = asyncio.get_running_loop().vc
    if IN_WAIT.get() is None and RUN is not None and ACTOR.get() is not None:
        RUN.on_start(ACTOR.get(), vc.now)
    return vc.now


_orig_wait = None


async def _wait_shim(self):
    if RUN is not None and ACTOR.get() is not None:
        RUN.on_eval(ACTOR.get(), asyncio.get_running_loop().vc.now)
    tok = IN_WAIT.set(self)
    try:
        await _orig_wait(self)
    finally:
        IN_WAIT.reset(tok)


class Patched:
    """patch points are module attributes looked up at call time; restored on exit"""

    def __enter__(self):
        global _orig_wait
        self.sleep = asyncio.sleep
        self.now = common._now
        self.wait = common.Throttle.wait
        _orig_wait = self.wait
        asyncio.sleep = vsleep
        common._now = vnow
        common.Throttle.wait = _wait_shim
        return self

    def __exit__(self, *a):
        global RUN
        asyncio.sleep = self.sleep
        common._now = self.now
        common.Throttle.wait = self.wait
        RUN = None


class FakeReader:
    def __init__(self):
        self.next = (0, 0)

    async def read(self, count=-1):
        dur, n = self.next
        await vsleep(dur)
        return b"x" * n

    async def readline(self):
        dur, n = self.next
        await vsleep(dur)
        return b"x" * (n - 1) + b"\n" if n > 0 else b""


class FakeWriter:
    def __init__(self):
        self.next = (0, 0)
        self.written = 0

    def write(self, data):
        self.written += len(data)

    async def drain(self):
        await vsleep(self.next[0])

    def close(self):
        pass


# ---------------------------------------------------------------------------------------------
# a case: store of throttles, dicts, actors with scripts; Fractions are serialised as "n/d"


def fq(x):
    return None if x is None else str(F(x))


def pq(s):
    return None if s is None else F(s)


def qsx(x):
    x = F(x)
    return [x.numerator, x.denominator]


def oqsx(x):
    return [] if x is None else [qsx(x)]


class Recorder:
    def __init__(self, objs, actor_ids):
        self.objs = objs
        self.actor_ids = actor_ids  # actor -> list of store ids of its direction
        self.events = []  # dicts: kind, actor, t, n, wake (filled later), state snapshot
        self.cur_eval = {}  # actor -> index of the Eval event of the operation in progress
        self.sleeps = {}  # actor -> list of wake instants requested by its wait tasks

    def snap(self):
        return [(t._limit, t.reset_rate, t._start, t._sum) for t in self.objs]

    def begin_op(self, a):
        self.cur_eval.pop(a, None)
        self.sleeps[a] = []

    def on_eval(self, a, now):
        if a not in self.cur_eval:
            self.cur_eval[a] = len(self.events)
            self.events.append({"k": "eval", "a": a, "t": now, "snap": self.snap()})

    def on_throttle_sleep(self, a, th, until):
        self.sleeps.setdefault(a, []).append(until)

    def on_start(self, a, now):
        if a not in self.cur_eval:  # no wait task was created: nothing limited in this direction
            self.on_eval(a, now)
        ev = self.events[self.cur_eval[a]]
        ev["wake"] = max([ev["t"]] + self.sleeps.get(a, []))
        self.events.append({"k": "start", "a": a, "t": now, "snap": self.snap()})

    def on_done(self, a, now, n):
        self.events.append({"k": "done", "a": a, "t": now, "n": n, "snap": self.snap()})

    def on_setlimit(self, k, v):
        self.events.append({"k": "setlimit", "id": k, "v": v, "snap": self.snap()})

    def on_cloneall(self):
        self.events.append({"k": "cloneall", "snap": self.snap()})


def conv(x, flt):
    if x is None:
        return None
    return float(x) if flt else F(x)


def build(case, flt=False):
    """real objects of a case: Throttle per store id, one dict object per dict, one stream per actor"""
    objs = []
    for lim, rr in case["store"]:
        lim, rr = pq(lim), pq(rr)
        objs.append(aioftp.Throttle(limit=conv(lim, flt), reset_rate=conv(rr, flt)))
    dicts = []
    for pairs in case["dicts"]:
        d = {}
        for i, (r, w) in enumerate(pairs):
            d[f"k{i}"] = aioftp.StreamThrottle(read=objs[r], write=objs[w])
        dicts.append(d)
    streams = []
    for ac in case["actors"]:
        st = aioftp.ThrottleStreamIO(FakeReader(), FakeWriter(), throttles=dicts[ac["dict"]])
        streams.append(st)
    return objs, dicts, streams


def rebuild_dicts(case, objs, dicts):
    for d, pairs in zip(dicts, case["dicts"]):
        d.clear()
        for i, (r, w) in enumerate(pairs):
            d[f"k{i}"] = aioftp.StreamThrottle(read=objs[r], write=objs[w])


def actor_ids(case):
    out = []
    for ac in case["actors"]:
        pairs = case["dicts"][ac["dict"]]
        out.append([(w if ac["op"] == "write" else r) for r, w in pairs])
    return out


async def actor_main(a, ac, script, stream, rec, objs, flt):
    ACTOR.set(a)
    vc = asyncio.get_running_loop().vc
    name = "write" if ac["op"] == "write" else "read"
    for item in script:
        kind = item[0]
        if kind == "gap":
            await vsleep(conv(pq(item[1]), flt))
        elif kind == "set":
            k, v = item[1], conv(pq(item[2]), flt)
            objs[k].limit = v
            rec.on_setlimit(k, v)
        elif kind == "io":
            dur, n = conv(pq(item[1]), flt), item[2]
            rec.begin_op(a)
            if ac["mode"] == "A":
                if ac["op"] == "write":
                    stream.writer.next = (dur, n)
                    await stream.write(b"y" * n)
                    got = n
                else:
                    stream.reader.next = (dur, n)
                    data = await (stream.readline() if ac["op"] == "readline" else stream.read(max(n, 1)))
                    got = len(data)
            else:  # mode B: only the awaiting shell is replicated
                extra = conv(pq(item[3]), flt)
                await stream.wait(name)
                if extra:
                    await vsleep(extra)
                start = vc.now
                rec.on_start(a, start)
                await vsleep(dur)
                stream.append(name, b"z" * n, start)
                got = n
            rec.on_done(a, vc.now, got)


def run_impl(case, flt=False):
    """run the real code on a case; returns (events, objs)"""
    global RUN
    objs, dicts, streams = build(case, flt)
    rec = Recorder(objs, actor_ids(case))
    vc = VClock(conv(pq(case["clock0"]), flt))
    with Patched():
        RUN = rec
        for ph, phase in enumerate(case["phases"]):
            for adm in phase.get("admin", []):
                if adm[0] == "set":
                    objs[adm[1]].limit = conv(pq(adm[2]), flt)
                    rec.on_setlimit(adm[1], objs[adm[1]]._limit)
                elif adm[0] == "cloneall":
                    new = [t.clone() for t in objs]
                    objs[:] = new
                    rebuild_dicts(case, objs, dicts)
                    rec.on_cloneall()
                elif adm[0] == "gap":
                    vc.now = vc.now + conv(pq(adm[1]), flt)
            loop = VLoop(vc)
            try:

                async def main():
                    tasks = [
                        asyncio.create_task(actor_main(a, ac, phase["scripts"][a], streams[a], rec, objs, flt))
                        for a, ac in enumerate(case["actors"])
                    ]
                    await asyncio.gather(*tasks)

                loop.run_until_complete(main())
            finally:
                loop.close()
    return rec.events, objs


# ---------------------------------------------------------------------------------------------
# model side


def model_input(case, events):
    store = [[oqsx(pq(l)), qsx(pq(r)), [], 0] for l, r in case["store"]]
    actors = [[[[r, w] for r, w in case["dicts"][ac["dict"]]], ac["op"] == "write"] for ac in case["actors"]]
    evs = []
    for e in events:
        if e["k"] == "eval":
            evs.append([0, e["a"], qsx(e["t"])])
        elif e["k"] == "start":
            evs.append([1, e["a"], qsx(e["t"])])
        elif e["k"] == "done":
            evs.append([2, e["a"], qsx(e["t"]), e["n"]])
        elif e["k"] == "setlimit":
            evs.append([3, e["id"], oqsx(e["v"])])
        else:
            evs.append([4])
    return [store, actors, qsx(pq(case["clock0"])), evs]


def canon_snap(snap):
    return [[oqsx(l), qsx(r), oqsx(s), int(m)] for l, r, s, m in snap]


def dec_oq(x):
    return [] if not x else [list(x[0])]


def canon_model_store(ms):
    return [[dec_oq(t[0]), list(t[1]), dec_oq(t[2]), t[3]] for t in ms]


def compare(ctx, stream, case, events, log):
    """model log vs real events; returns True when they agree everywhere"""
    ok = True
    if len(log) != len(events):
        ctx.disagree(stream, {"case": case, "at": len(log) - 1}, "model refused event / log length %d" % len(log), "%d events" % len(events))
        return False
    for i, (e, m) in enumerate(zip(events, log)):
        if m[0] != 1:
            ctx.disagree(stream, {"case": case, "at": i}, "model refuses event", _ev_json(e))
            return False
        ms = canon_model_store(m[2])
        rs = canon_snap(e["snap"])
        if ms != rs:
            ctx.disagree(stream, {"case": case, "at": i, "event": _ev_json(e)}, ms, rs)
            ok = False
            break
        if e["k"] == "eval":
            st = m[1][e["a"]]
            mw = list(st[1]) if st[0] == 1 else None
            if mw != qsx(e.get("wake", e["t"])):
                ctx.disagree(stream, {"case": case, "at": i, "event": _ev_json(e)}, {"wake": mw}, {"wake": qsx(e.get("wake", e["t"]))})
                ok = False
                break
    return ok


def _ev_json(e):
    d = {k: v for k, v in e.items() if k != "snap"}
    for k in ("t", "wake", "v"):
        if k in d and d[k] is not None:
            d[k] = str(F(d[k]))
    return d


# ---------------------------------------------------------------------------------------------
# property oracle on the REAL trace (does not use the model)


def oracle(ctx, case, events, ids, report=True, tag="trace"):
    """returns list of (key, what, detail); calls ctx.violation for each when report"""
    K = len(case["store"])
    L = [pq(l) for l, _ in case["store"]]
    R = [pq(r) for _, r in case["store"]]
    T = [0] * K
    t0 = [None] * K
    last_start = [None] * K
    r = [0] * K
    epoch = [0] * K
    nact = len(ids)
    status = ["idle"] * nact
    snapT = [dict() for _ in range(nact)]  # actor -> {k: (T, epoch)}
    last = [dict() for _ in range(nact)]  # actor -> {k: size of last completed block in this epoch}
    out = []
    slack_hits = 0

    def pos(k):
        return L[k] is not None and L[k] > 0

    def viol(key, what, detail):
        out.append((key, what, detail))
        if report:
            ctx.violation(what, {"key": key, "case": case, "stream": tag, "detail": detail})

    def new_epoch(k, newlimit):
        L[k] = newlimit
        T[k] = 0
        t0[k] = None
        last_start[k] = None
        r[k] = 0
        epoch[k] += 1
        for a in range(nact):
            last[a].pop(k, None)

    for idx, e in enumerate(events):
        kind = e["k"]
        if kind == "setlimit":
            new_epoch(e["id"], None if e["v"] is None else F(e["v"]))
            continue
        if kind == "cloneall":
            for k in range(K):
                new_epoch(k, L[k])
            continue
        a, t = e["a"], F(e["t"])
        if kind == "eval":
            w = F(e.get("wake", e["t"]))
            status[a] = "evaluated"
            snapT[a] = {k: (T[k], epoch[k]) for k in ids[a] if pos(k)}
            if w < t:
                viol("c15-wake-before-now", "wait() ended before it was called", {"at": idx, "wake": str(w), "now": str(t)})
            if w > t:
                limited = [k for k in ids[a] if pos(k)]
                if not limited:
                    viol("c15-delay-when-off", "a stream with no positive limit in this direction was delayed",
                         {"at": idx, "actor": a, "delay": str(w - t)})
                else:
                    # no_excess_delay: some throttle of the dict requires this wake time (within the r/2 slack)
                    need = [k for k in limited if t0[k] is not None and R[k] >= 0 and L[k] * (w - t0[k]) - F(r[k], 2) <= T[k]]
                    if not need and all(R[k] >= 0 for k in limited):
                        viol("c15-excess-delay", "a stream was delayed beyond what any of its limits requires",
                             {"at": idx, "actor": a, "wake": str(w), "now": str(t),
                              "limits": {k: [str(L[k]), str(t0[k]), T[k], r[k]] for k in limited}})
        elif kind == "start":
            status[a] = "started"
            for k, (tk, ep) in snapT[a].items():
                if ep != epoch[k] or not pos(k) or t0[k] is None or R[k] < 0:
                    continue
                bound = L[k] * (t - t0[k])
                if tk > bound + F(r[k], 2):
                    viol("c15-rate-exceeded", "an I/O started although the bytes already accounted exceed limit*(t - t0) + r/2",
                         {"at": idx, "actor": a, "throttle": k, "T_eval": tk, "L": str(L[k]), "t": str(t), "t0": str(t0[k]), "resets": r[k]})
                elif tk > bound:
                    slack_hits += 1
                    if report:
                        ctx.violation(
                            "bytes accounted exceed the literal limit*(t - t0) (within the r/2 rounding slack of the reset folding)",
                            {"key": KNOWN_KEY, "case": case, "stream": tag,
                             "detail": {"at": idx, "throttle": k, "T_eval": tk, "bound": str(bound), "resets": r[k]}},
                        )
        elif kind == "done":
            status[a] = "idle"
            n = e["n"]
            snap = e["snap"]
            for k in ids[a]:
                if not pos(k):
                    continue
                T[k] += n
                last[a][k] = n
                s_obs = snap[k][2]
                if s_obs is not None:
                    s_obs = F(s_obs)
                    if t0[k] is None:
                        t0[k] = s_obs
                    elif s_obs != last_start[k]:
                        r[k] += 1
                    last_start[k] = s_obs
                if t0[k] is None or R[k] < 0:
                    continue
                users = [b for b in range(nact) if k in ids[b]]
                inflight = sum(last[b].get(k, 0) for b in users if status[b] != "started")
                if T[k] > L[k] * (t - t0[k]) + F(r[k], 2) + inflight:
                    viol("c15-shared-bound", "bytes completed exceed limit*(t - t0) + r/2 + one block per stream",
                         {"at": idx, "throttle": k, "T": T[k], "L": str(L[k]), "t": str(t), "t0": str(t0[k]), "resets": r[k], "blocks": inflight})
                if R[k] > 0 and r[k] * R[k] > t - t0[k]:
                    viol("c15-reset-count", "more resets than elapsed time / reset_rate", {"at": idx, "throttle": k})
    return out, slack_hits


# ---------------------------------------------------------------------------------------------
# generators

DUR = ["0", "0", "1/4", "1/3", "1/2", "1", "3/2", "2", "7/3", "5"]
BLK = [0, 0, 1, 1, 2, 3, 5, 8, 13, 64, 100, 1000]
LIMS = ["1", "2", "3/2", "4", "5/2", "7/3", "10", "1/2", "64", "100/3", "8/5", "1000"]
RRS = ["10", "1", "1/2", "5/2", "3", "0", "2"]
DY_DUR = ["0", "1/4", "1/2", "1", "3/2", "2", "5", "1/8"]
DY_LIMS = ["1", "2", "4", "1/2", "64", "8", "1024", "1/4"]
DY_RRS = ["10", "1", "1/2", "2", "0", "4"]


def gen_limit(rng, dyadic):
    x = rng.random()
    if x < 0.2:
        return None
    if x < 0.3:
        return "0"
    if x < 0.33:
        return "-1"
    return rng.choice(DY_LIMS if dyadic else LIMS)


def gen_gap(rng, rrs, dyadic):
    x = rng.random()
    if x < 0.25:
        return "0"
    if x < 0.6:
        rr = F(rng.choice(rrs))
        eps = F(rng.choice(["1/4", "1/2", "1"] if dyadic else ["1/4", "1/3", "1/2", "1"]))
        g = rr + rng.choice([-1, 0, 1]) * eps
        return str(max(g, F(0)))
    return rng.choice(DY_DUR if dyadic else DUR)


def gen_case(rng, dyadic=False, server_like=None):
    if server_like is None:
        server_like = rng.random() < 0.4
    nact = rng.choice([1, 1, 2, 2, 3, 4])
    store = []
    if server_like:
        # ids: 0/1 server_global r/w; per connection c: 2+2c, 3+2c; users: after
        ncon = rng.choice([1, 2, 2, 3])
        nuser = rng.choice([1, 2])
        rr = rng.choice(DY_RRS if dyadic else RRS)
        for _ in range(2 + 2 * ncon + 2 * nuser + 2 * ncon):
            store.append([gen_limit(rng, dyadic), rr if rng.random() < 0.7 else rng.choice(DY_RRS if dyadic else RRS)])
        # per-connection clones share limits
        for c in range(1, ncon):
            store[2 + 2 * c][0] = store[2][0]
            store[3 + 2 * c][0] = store[3][0]
        dicts = []
        for c in range(ncon):
            u = rng.randrange(nuser)
            ub = 2 + 2 * ncon + 2 * u
            pb = 2 + 2 * ncon + 2 * nuser + 2 * c
            pairs = [[0, 1], [2 + 2 * c, 3 + 2 * c]]
            if rng.random() < 0.7:
                pairs += [[ub, ub + 1], [pb, pb + 1]]
            dicts.append(pairs)
    else:
        K = rng.randint(2, 8)
        for _ in range(K):
            store.append([gen_limit(rng, dyadic), rng.choice(DY_RRS if dyadic else RRS)])
        if rng.random() < 0.05:
            store[rng.randrange(K)][1] = "-1"
        dicts = []
        for _ in range(rng.choice([1, 1, 2, 3])):
            nk = rng.randint(1, min(4, K // 2))
            ids = rng.sample(range(K), 2 * nk)
            dicts.append([[ids[2 * i], ids[2 * i + 1]] for i in range(nk)])
    # make sure something is limited most of the time
    if all(l is None or F(l) <= 0 for l, _ in store) and rng.random() < 0.8:
        store[rng.randrange(len(store))][0] = rng.choice(DY_LIMS if dyadic else LIMS)
    actors = []
    for a in range(nact):
        op = rng.choice(["read", "readline", "write", "write", "read"])
        mode = "A" if rng.random() < 0.6 else "B"
        if mode == "B" and op == "readline":
            op = "read"
        actors.append({"dict": rng.randrange(len(dicts)), "op": op, "mode": mode})
    if rng.random() < 0.5 and nact >= 2:  # force sharing: same dict, same direction
        actors[1]["dict"] = actors[0]["dict"]
        actors[1]["op"] = "write" if actors[0]["op"] == "write" else rng.choice(["read", "readline"])
        if actors[1]["mode"] == "B" and actors[1]["op"] == "readline":
            actors[1]["op"] = "read"
    rrs = [r for _, r in store if F(r) >= 0] or ["1"]
    nphase = rng.choice([1, 1, 1, 2, 3])
    phases = []
    cur_store = [list(s) for s in store]
    for ph in range(nphase):
        admin = []
        if ph > 0:
            admin.append(["gap", gen_gap(rng, rrs, dyadic)])
            for _ in range(rng.randint(0, 2)):
                k = rng.randrange(len(store))
                v = gen_limit(rng, dyadic)
                admin.append(["set", k, v])
                cur_store[k][0] = v
            if rng.random() < 0.4:
                admin.append(["cloneall"])
        scripts = []
        for a in range(nact):
            sc = []
            for _ in range(rng.randint(2, 8)):
                x = rng.random()
                if x < 0.3:
                    sc.append(["gap", gen_gap(rng, rrs, dyadic)])
                elif x < 0.36:
                    # in-trace limit change that keeps truthiness (positive -> positive, falsy -> falsy)
                    k = rng.randrange(len(store))
                    cur = cur_store[k][0]
                    if cur is not None and F(cur) > 0:
                        v = rng.choice(DY_LIMS if dyadic else LIMS)
                    elif cur is None or F(cur) == 0:
                        v = rng.choice([None, "0"])
                    else:
                        continue
                    sc.append(["set", k, v])
                    cur_store[k][0] = v
                else:
                    n = rng.choice(BLK)
                    dur = rng.choice(DY_DUR if dyadic else DUR)
                    if actors[a]["op"] == "readline" and n == 0 and rng.random() < 0.5:
                        n = 1
                    item = ["io", dur, n]
                    if actors[a]["mode"] == "B":
                        item.append(rng.choice(["0", "0", "1/4", "1", "1/2"]))
                    sc.append(item)
            scripts.append(sc)
        phases.append({"admin": admin, "scripts": scripts})
    return {"store": store, "dicts": dicts, "actors": actors, "clock0": rng.choice(["0", "100", "5/2"]), "phases": phases}


def wired(case):
    for pairs in case["dicts"]:
        rs = [r for r, _ in pairs]
        ws = [w for _, w in pairs]
        if len(set(rs)) != len(rs) or len(set(ws)) != len(ws):
            return False
    return True


# ---------------------------------------------------------------------------------------------
# streams


def stream_traces(ctx, n, dyadic, flt, tag, xcheck):
    rng = ctx.rng
    batch = []
    for _ in range(n):
        case = gen_case(rng, dyadic=dyadic)
        ctx.traces_impl += 1
        events, objs = run_impl(case, flt=flt)
        batch.append((case, events))
    logs = ctx.model([(1, model_input(c, ev)) for c, ev in batch])
    nres = 0
    for (case, events), log in zip(batch, logs):
        key = json.dumps(case, sort_keys=True)
        ids = actor_ids(case)
        ctx.case((tag, key), nontrivial=any(e["k"] == "done" and e["n"] > 0 for e in events))
        ctx.count(f"{tag}_events", len(events))
        ctx.count(f"{tag}_actors_{len(case['actors'])}")
        sleeps = sum(1 for e in events if e["k"] == "eval" and F(e.get("wake", e["t"])) > F(e["t"]))
        ctx.count(f"{tag}_sleeping_waits", sleeps)
        agree = compare(ctx, tag, case, events, log)
        viol, slack = oracle(ctx, case, events, ids, tag=tag)
        nres += slack
        resets = 0
        prev = {}
        for e in events:
            if e["k"] == "done":
                for k, s in enumerate(e["snap"]):
                    if s[2] is not None and prev.get(k) is not None and prev[k] != s[2]:
                        resets += 1
                    prev[k] = s[2]
            elif e["k"] in ("setlimit", "cloneall"):
                prev = {}
        ctx.count(f"{tag}_resets", resets)
        if agree and len(xcheck) < 25 and len(events) <= 40:
            xcheck.append((1, model_input(case, events), log))
        if len(ctx.samples) < 3:
            ctx.sample({"stream": tag, "actors": case["actors"], "dicts": case["dicts"], "store": case["store"],
                        "events": [_ev_json(e) for e in events[:12]]})
    ctx.count(f"{tag}_literal_bound_exceeded_within_slack", nres)


def stream_units(ctx, n, xcheck):
    """round / wake / append / clone / limit setter on arbitrary states (also states no trace reaches)"""
    rng = ctx.rng
    # round_half_even: exhaustive over small fractions + random
    qs = [F(a, b) for b in range(1, 13) for a in range(-3 * b - 1, 3 * b + 2)]
    qs += [F(rng.randint(-10**6, 10**6), rng.randint(1, 5040)) for _ in range(n)]
    res = ctx.model([(0, qsx(q)) for q in qs])
    for q, m in zip(qs, res):
        ctx.case(("round", q))
        if m != round(q):
            ctx.disagree("round_half_even", str(q), m, round(q))
        if abs(round(q) - q) > F(1, 2):
            ctx.violation("round() further than 1/2", {"key": "c15-round", "q": str(q)})
    ctx.count("round_cases", len(qs))
    xcheck.extend((0, qsx(q), m) for q, m in list(zip(qs, res))[:15])

    def rq(pool):
        return rng.choice(pool)

    cases = []
    for _ in range(n):
        lim = gen_limit(rng, False)
        rr = rng.choice(RRS + ["-1"])
        st = None if rng.random() < 0.3 else str(F(rng.randint(0, 400), rng.choice([1, 2, 3, 4, 12])))
        sm = rng.choice([0, 1, 5, -3, 100, -250, 7, 64])
        now = str(F(rng.randint(0, 800), rng.choice([1, 2, 3, 4, 12])))
        nb = rng.choice(BLK)
        cases.append((lim, rr, st, sm, now, nb, gen_limit(rng, False)))
    jobs = []
    for lim, rr, st, sm, now, nb, newlim in cases:
        th = [oqsx(pq(lim)), qsx(pq(rr)), oqsx(pq(st)), sm]
        jobs += [(2, [th, qsx(pq(now))]), (3, [th, nb, qsx(pq(now))]), (4, [th]), (5, [th, oqsx(pq(newlim))])]
    res = ctx.model(jobs)
    with Patched():
        for i, (lim, rr, st, sm, now, nb, newlim) in enumerate(cases):
            ctx.case(("unit", lim, rr, st, sm, now, nb, newlim))

            def mk():
                t = aioftp.Throttle(limit=pq(lim), reset_rate=pq(rr))
                t._start = pq(st)
                t._sum = sm
                return t

            def state(t):
                return [oqsx(t._limit), qsx(t.reset_rate), oqsx(t._start), int(t._sum)]

            # wake: run the real wait() on a loop whose sleep is the recorder
            vc = VClock(pq(now))
            loop = VLoop(vc)
            try:
                t = mk()
                loop.run_until_complete(t.wait())
                woke = vc.now
            finally:
                loop.close()
            m_wake, m_app, m_clone, m_set = res[4 * i : 4 * i + 4]
            if list(m_wake) != qsx(woke):
                ctx.disagree("unit_wake", [lim, rr, st, sm, now], list(m_wake), qsx(woke))
            t = mk()
            t.append(b"a" * nb, pq(now))
            if canon_model_store([m_app])[0] != state(t):
                ctx.disagree("unit_append", [lim, rr, st, sm, now, nb], m_app, state(t))
            c = mk().clone()
            if canon_model_store([m_clone])[0] != state(c):
                ctx.disagree("unit_clone", [lim, rr, st, sm], m_clone, state(c))
            if c._start is not None or c._sum != 0 or c._limit != pq(lim):
                ctx.violation("clone() keeps memory or changes the limit", {"key": "c15-clone-memory", "case": [lim, rr, st, sm]})
            t = mk()
            t.limit = pq(newlim)
            if canon_model_store([m_set])[0] != state(t):
                ctx.disagree("unit_set_limit", [lim, rr, st, sm, newlim], m_set, state(t))
            # off is free, on ANY memory
            if (pq(lim) is None or pq(lim) <= 0) and woke != pq(now):
                ctx.violation("wait() sleeps although the limit is off", {"key": "c15-delay-when-off", "case": [lim, rr, st, sm, now]})
            if i < 10:
                th = [oqsx(pq(lim)), qsx(pq(rr)), oqsx(pq(st)), sm]
                xcheck.append((2, [th, qsx(pq(now))], m_wake))
                xcheck.append((3, [th, nb, qsx(pq(now))], m_app))
    # StreamThrottle.clone / from_limits
    stt = aioftp.StreamThrottle.from_limits(F(3), None)
    stt.read.append(b"abc", F(1))
    cl = stt.clone()
    if cl.read is stt.read or cl.write is stt.write or cl.read._start is not None or cl.read._limit != F(3) or cl.write._limit is not None:
        ctx.violation("StreamThrottle.clone() does not give fresh memoryless throttles", {"key": "c15-clone-memory", "case": "StreamThrottle"})
    ctx.count("unit_cases", len(cases))


# ---------------------------------------------------------------------------------------------
# wiring: Gen facts vs object identities in a live loopback session


def wiring_expectations():
    """the facts of Gen/Wiring.v (recomputed with the same translator code) as identity expectations"""
    from tools.py2v import gen_wiring

    from ..core import SRC

    sites, timeouts, inits, flags, ops = [], [], [], {}, []
    gen_wiring.scan_module(SRC / "aioftp" / "server.py", sites, timeouts, inits, flags)
    gen_wiring.scan_module(SRC / "aioftp" / "client.py", sites, timeouts, inits, flags)
    gen_wiring.scan_common(SRC / "aioftp" / "common.py", timeouts, flags, ops)
    exp = {}
    for name, (tag, expr), ents in sites:
        exp[name] = {"dict": tag, "expr": expr, "entries": {k: t for k, (t, _) in ents}}
    return exp, flags


async def _shutdown(clients, server):
    """QUIT every session first so that server.close() has no dispatcher task left to cancel"""
    for c in clients:
        try:
            await asyncio.wait_for(c.quit(), 5)
        except Exception:
            try:
                c.close()
            except Exception:
                pass
    for _ in range(100):
        if not server.connections:
            break
        await asyncio.sleep(0.01)
    await server.close()


async def live_wiring():
    """three sessions (two of user a, one of user b) on 127.0.0.1; returns observed identity relations"""
    users = [
        aioftp.User("a", "pw", base_path="/", read_speed_limit_per_connection=None),
        aioftp.User("b", "pw", base_path="/"),
    ]
    server = aioftp.Server(users, path_io_factory=aioftp.MemoryPathIO)
    await server.start("127.0.0.1", 0)
    port = server.server_port
    clients = []
    obs = {}
    try:
        for u in ("a", "a", "b"):
            c = aioftp.Client(path_io_factory=aioftp.MemoryPathIO)
            await c.connect("127.0.0.1", port)
            await c.login(u, "pw")
            clients.append(c)
        for _ in range(100):
            if len(server.connections) == 3 and all("user_global" in s.throttles for s in server.connections):
                break
            await asyncio.sleep(0.01)
        conns = list(server.connections.values())
        by_user = {}
        for cn in conns:
            by_user.setdefault(cn.user.login, []).append(cn)
        ctrl = [cn.command_connection for cn in conns]
        d = [s.throttles for s in ctrl]
        obs["keys"] = sorted(d[0].keys())
        obs["server_global_same_object_everywhere"] = all(x["server_global"] is server.throttle for x in d)
        obs["server_per_connection_distinct"] = len({id(x["server_per_connection"]) for x in d}) == 3 and all(
            x["server_per_connection"] is not server.throttle_per_connection for x in d
        )
        obs["server_per_connection_parts_distinct"] = (
            len({id(x["server_per_connection"].read) for x in d}) == 3
            and len({id(x["server_per_connection"].write) for x in d}) == 3
            and all(x["server_per_connection"].read is not server.throttle_per_connection.read for x in d)
        )
        a1, a2 = by_user["a"]
        (b1,) = by_user["b"]
        ta1, ta2, tb1 = (x.command_connection.throttles for x in (a1, a2, b1))
        obs["user_global_shared_by_user_sessions"] = ta1["user_global"] is ta2["user_global"]
        obs["user_global_distinct_between_users"] = ta1["user_global"] is not tb1["user_global"]
        obs["user_per_connection_distinct"] = len({id(x["user_per_connection"]) for x in (ta1, ta2, tb1)}) == 3
        objs = [ta1[k] for k in ("server_global", "server_per_connection", "user_global", "user_per_connection")]
        obs["session_objects_distinct"] = len({id(o) for o in objs}) == 4 and len({id(o.read) for o in objs}) == 4
        # data streams: open a passive connection per client, wait until the server has attached it
        same = []
        for c, cmds in zip(clients, (("epsv",), ("pasv",), None)):  # both handlers are exercised
            reader, writer = await c.get_passive_connection("I", commands=cmds)
            c._c15 = writer
        for _ in range(200):
            if all(cn.future.data_connection.done() for cn in conns):
                break
            await asyncio.sleep(0.01)
        for cn in conns:
            if cn.future.data_connection.done():
                ds = cn.data_connection
                same.append(ds.throttles is cn.command_connection.throttles)
            else:
                same.append(None)
        obs["data_dict_is_control_dict"] = same
        # re-login as another user on session a2: the dict object is kept, user entries replaced
        before = a2.command_connection.throttles
        c2 = clients[1]
        await c2.command("USER b", ("230", "33x"))
        await c2.command("PASS pw", "230")
        obs["relogin_keeps_dict_object"] = a2.command_connection.throttles is before
        obs["relogin_switches_user_global"] = before["user_global"] is tb1["user_global"]
        # client side
        cl = clients[0]
        obs["client_control_uses_client_throttle"] = cl.stream.throttles.get("_") is cl.throttle and len(cl.stream.throttles) == 1
        for c in clients:
            c._c15.close()
        stream = await cl.upload_stream("f.bin")
        obs["client_data_uses_client_throttle"] = stream.throttles.get("_") is cl.throttle and len(stream.throttles) == 1
        await stream.write(b"hello")
        await stream.finish()
    finally:
        await _shutdown(clients, server)
    return obs


def _close_loop(loop):
    """cancel what the sessions left behind (aioftp does not cancel the wait tasks of a cancelled stream.wait())"""
    try:
        pending = [t for t in asyncio.all_tasks(loop) if not t.done()]
        for t in pending:
            t.cancel()
        if pending:
            loop.run_until_complete(asyncio.gather(*pending, return_exceptions=True))
    finally:
        loop.close()


def check_wiring_live(ctx):
    try:
        exp, flags = wiring_expectations()
    except Exception as e:  # translator failed closed: the oracle below must still run on the live objects
        exp, flags = None, {}
        ctx.obligation_broken("wiring-translator", repr(e)[:400])
    loop = asyncio.new_event_loop()
    try:
        obs = loop.run_until_complete(asyncio.wait_for(live_wiring(), 30))
    finally:
        _close_loop(loop)
    ctx.traces_impl += 1
    ctx.extra["wiring_live"] = obs
    ctx.sample({"stream": "wiring", "observed": obs})

    if exp is not None:
        _wiring_tie(ctx, exp, flags, obs)
    _wiring_oracle(ctx, obs)


def _wiring_tie(ctx, exp, flags, obs):
    # (1) tie: what the translator says vs what the objects are
    def tag_of(site, key):
        return exp.get(site, {}).get("entries", {}).get(key)

    tie = {
        "server_global_same_object_everywhere": tag_of("Server.dispatcher", "server_global") == 0,
        "server_per_connection_distinct": tag_of("Server.dispatcher", "server_per_connection") in (1, 3),
        "user_global_shared_by_user_sessions": tag_of("Server.user", "user_global") == 2 and flags.get("per_user_guarded", False),
        "user_per_connection_distinct": tag_of("Server.user", "user_per_connection") in (1, 3),
        "relogin_keeps_dict_object": exp.get("Server.user", {}).get("dict") == 2,
        "client_control_uses_client_throttle": tag_of("BaseClient.connect", "_") == 0,
        "client_data_uses_client_throttle": tag_of("Client.get_stream", "_") == 0,
    }
    for k, expected in tie.items():
        ctx.case(("wiring-tie", k))
        if obs.get(k) != expected:
            ctx.disagree("wiring", k, {"translator_expects": expected}, {"observed": obs.get(k)})
    data_same = all(exp.get(s, {}).get("dict") == 1 for s in ("Server.pasv.handler", "Server.epsv.handler")) and flags.get("byref", False)
    ctx.case(("wiring-tie", "data"))
    if all(x is True for x in obs["data_dict_is_control_dict"]) != data_same:
        ctx.disagree("wiring", "data_dict_is_control_dict", {"translator_expects": data_same}, {"observed": obs["data_dict_is_control_dict"]})


def _wiring_oracle(ctx, obs):
    # (2) oracle: what the property needs
    need = {
        "server_global_same_object_everywhere": "the server-wide limit is not one object shared by all sessions (it would not bound their sum)",
        "server_per_connection_distinct": "per-connection limit objects are shared between sessions (not independent)",
        "server_per_connection_parts_distinct": "per-connection read/write Throttle objects are shared between sessions (not independent)",
        "user_global_shared_by_user_sessions": "the per-user limit is not shared by that user's sessions (it would not bound their sum)",
        "user_global_distinct_between_users": "different users share one per-user limit object",
        "user_per_connection_distinct": "per-user-connection limit objects are shared between sessions",
        "session_objects_distinct": "two keys of one session's dict hold the same object (bytes would be counted twice)",
        "relogin_keeps_dict_object": "re-login replaces the dict object (data streams would keep the old limits)",
        "client_control_uses_client_throttle": "client control stream does not use client.throttle",
        "client_data_uses_client_throttle": "client data stream does not use client.throttle",
    }
    for k, what in need.items():
        ctx.case(("wiring-oracle", k))
        if obs.get(k) is not True:
            ctx.violation(what, {"key": "c15-wiring-" + k, "observed": obs})
    if not all(x is True for x in obs["data_dict_is_control_dict"]):
        ctx.violation("a data stream does not share the control stream's throttles dict (limits set at login would not apply to transfers)",
                      {"key": "c15-wiring-data-dict", "observed": obs})
    ctx.count("wiring_live_sessions", 3)


# ---------------------------------------------------------------------------------------------
# thorough: end-to-end loopback transfers in real time


async def e2e_one(level, direction, nconn, size, limit):
    kw = {}
    ukw = {}
    side = "write" if direction == "download" else "read"  # server side direction
    if level == "server":
        kw[f"{side}_speed_limit"] = limit
    elif level == "server_per_connection":
        kw[f"{side}_speed_limit_per_connection"] = limit
    elif level == "user":
        ukw[f"{side}_speed_limit"] = limit
    elif level == "user_per_connection":
        ukw[f"{side}_speed_limit_per_connection"] = limit
    users = [aioftp.User("a", "pw", base_path="/", **ukw)]
    server = aioftp.Server(users, path_io_factory=aioftp.MemoryPathIO, block_size=1024, **kw)
    await server.start("127.0.0.1", 0)
    ckw = {}
    if level == "client":
        ckw["read_speed_limit" if direction == "download" else "write_speed_limit"] = limit
    clients = []
    payload = b"-" * size
    try:
        for i in range(nconn):
            c = aioftp.Client(path_io_factory=aioftp.MemoryPathIO, **ckw)
            await c.connect("127.0.0.1", server.server_port)
            await c.login("a", "pw")
            clients.append(c)
        if direction == "download":
            # seed through the opposite (unlimited) direction
            for i, c in enumerate(clients):
                async with c.upload_stream(f"file{i}") as st:
                    await st.write(payload)

        async def xfer(c, i):
            name = f"file{i}"
            if direction == "download":
                n = 0
                async with c.download_stream(name) as st:
                    async for block in st.iter_by_block(1024):
                        n += len(block)
                return n
            async with c.upload_stream(name) as st:
                for off in range(0, size, 1024):
                    await st.write(payload[off : off + 1024])
            return size

        t_begin = time.monotonic()
        res = await asyncio.gather(*[xfer(c, i) for i, c in enumerate(clients)])
        dur = time.monotonic() - t_begin
        return dur, res
    finally:
        await _shutdown(clients, server)


def stream_e2e(ctx):
    """duration of real transfers against the bound: moving S bytes through a limit L shared by m
    connections cannot take less than (m*S - blocks in flight)/L - slack; and without a limit in the
    relevant direction it must not be slowed down"""
    rng = ctx.rng
    size = 6 * 1024
    limit = 4096
    combos = []
    for level in ("client", "server", "server_per_connection", "user", "user_per_connection"):
        for direction in ("download", "upload"):
            combos.append((level, direction, rng.choice([1, 2])))
    for level, direction, nconn in combos:
        loop = asyncio.new_event_loop()
        try:
            try:
                dur, res = loop.run_until_complete(asyncio.wait_for(e2e_one(level, direction, nconn, size, limit), 60))
            except RuntimeError as e:
                ctx.notes.append(f"e2e {level}/{direction} skipped: {e}")
                continue
        finally:
            _close_loop(loop)
        ctx.traces_impl += 1
        ctx.case(("e2e", level, direction, nconn))
        shared = nconn if level in ("server", "user") else 1
        if level == "client":
            shared = 1
        total = shared * size
        # control-connection bytes also pass the same throttles (replies/commands): they only add delay
        lower = (total - shared * 2 * 1024) / limit - 0.25
        ctx.count("e2e_transfers")
        ctx.extra.setdefault("e2e", []).append({"level": level, "direction": direction, "connections": nconn, "seconds": round(dur, 3), "lower_bound": round(lower, 3)})
        if dur < lower:
            ctx.violation("an end-to-end transfer finished faster than the configured limit allows",
                          {"key": "c15-e2e-duration", "level": level, "direction": direction, "connections": nconn, "seconds": dur, "lower_bound": lower})
        # no excess delay / independence: per-connection limits must not add up across connections
        if dur > total / limit + 1.2:
            ctx.violation("an end-to-end transfer was slower than the limit requires (limits not independent, or excess delay)",
                          {"key": "c15-e2e-slow", "level": level, "direction": direction, "connections": nconn, "seconds": dur})


# ---------------------------------------------------------------------------------------------
# the recorded finding: the witness of C15_literal_bound_refuted on the real classes

WITNESS = {
    "store": [["1", "10"], [None, "10"]],
    "dicts": [[[1, 0]]],
    "actors": [{"dict": 0, "op": "write", "mode": "A"}],
    "clock0": "0",
    "phases": [{"admin": [], "scripts": [[["io", "0", 0], ["gap", "23/2"], ["io", "1/4", 12], ["io", "0", 1]]]}],
}


def known(ctx):
    events, objs = run_impl(WITNESS)
    starts = [e for e in events if e["k"] == "start"]
    last = starts[-1]
    # 12 bytes accounted, third I/O starts at 47/4: 12 > 1 * (47/4 - 0)
    done12 = [e for e in events if e["k"] == "done" and e["n"] == 12]
    if done12 and F(last["t"]) == F(47, 4) and 12 > 1 * (F(last["t"]) - 0):
        ctx.known_reproduced(KNOWN_ID, "witness of C15_literal_bound_refuted replayed on the real Throttle: 12 bytes accounted at t - t0 = 47/4 s with limit 1 B/s")
    else:
        ctx.notes.append("F15 witness no longer reproduces on the real code (fixed?) - the _refuted theorem should be revisited")
        ctx.extra["known_witness_events"] = [_ev_json(e) for e in events]


# ---------------------------------------------------------------------------------------------


def correspondence(ctx, budget=None):
    thorough = ctx.tier == "thorough"
    n = budget or (12000 if thorough else 2500)
    ctx.extra["rule"] = (
        "streams: (a) virtual-time traces of the real ThrottleStreamIO/Throttle with exact Fraction clock: 1-4 actors "
        "(read/readline/write; mode A = real read()/readline()/write(), mode B = real wait()/append() with an extra delay "
        "before the start), 2-8+ throttle objects (limit None/0/negative/positive rationals, reset periods incl. 0), random "
        "dicts and server-shaped dicts (global shared, per-connection, per-user, per-user-connection), unequal blocks incl. 0, "
        "durations, gaps at reset_rate -eps/0/+eps, in-trace limit changes, multi-phase with limit re-assignment and clone of "
        "every object; every wake time and the (limit, reset_rate, start, sum) of every object after every event compared "
        "with the model; (b) the same generator on dyadic inputs run with float clock and limits; (c) unit cases of round / "
        "wait / append / clone / limit setter on arbitrary states; (d) wiring facts vs object identities in a live loopback "
        "session; thorough: (e) end-to-end loopback transfers. Oracle on the real trace: scheduled-within-rate at every start, "
        "shared bound at every completion, no excess delay and no delay when off at every wait. A trace is non-trivial when "
        "it moves at least one byte (distinct by hash of the case)."
    )
    xcheck = []
    stream_traces(ctx, n, dyadic=False, flt=False, tag="fraction", xcheck=xcheck)
    stream_traces(ctx, n // 3, dyadic=True, flt=True, tag="float_dyadic", xcheck=xcheck)
    stream_units(ctx, n // 2, xcheck)
    if budget is None:
        try:
            check_wiring_live(ctx)
        except (OSError, asyncio.TimeoutError) as e:
            ctx.obligation_broken("wiring-live-session", repr(e))
        if thorough:
            stream_e2e(ctx)
    from ..core import vm_crosscheck

    ok, out = vm_crosscheck(EXTRACT, xcheck[:60])
    ctx.extra["vm_compute_crosscheck"] = {"cases": len(xcheck[:60]), "agree": ok}
    if not ok:
        ctx.obligation_broken("extraction-crosscheck", out)


def search(ctx):
    if ctx.violations or ctx.tier == "thorough" or ctx.exe is None:
        return
    try:
        correspondence(ctx, budget=5000)
    except Exception as e:
        ctx.notes.append(f"search aborted: {e!r}")


def replay(ctx, data):
    """re-run a recorded case on the real code and re-evaluate the oracle; True when the property holds"""
    r = data.get("replay", {})
    key = r.get("key", "")
    if key.startswith("c15-wiring"):
        loop = asyncio.new_event_loop()
        try:
            obs = loop.run_until_complete(asyncio.wait_for(live_wiring(), 30))
        finally:
            loop.close()
        print("observed:", json.dumps(obs, indent=1))
        flat = [v for k, v in obs.items() if k != "keys" and not isinstance(v, list)] + list(obs["data_dict_is_control_dict"])
        return all(x is True for x in flat)
    if "case" in r and isinstance(r["case"], dict):
        flt = r.get("stream") == "float_dyadic"
        events, objs = run_impl(r["case"], flt=flt)

        class Quiet:
            def violation(self, *a):
                pass

        viol, slack = oracle(Quiet(), r["case"], events, actor_ids(r["case"]), report=False)
        for e in events:
            print(_ev_json(e))
        print("oracle:", viol, "literal-bound excess within slack:", slack)
        if key == KNOWN_KEY:
            return slack == 0
        return not viol
    print("replay payload:", data)
    return False
