"""C16 — configured timeouts bound how long a stalled peer can hold a session.

The REAL aioftp.Server runs on harness/simnet.py (in-memory network, virtual clock: a 30 s timeout costs
no wall time and fires at an exact virtual instant).  For every script of a small corpus x every prefix
length k (the peer performs the first k steps and then stalls for good: stops sending on the control
channel / never connects the data channel / connects and never reads / stops sending) x timeout
combinations (idle, socket, wait_future each in {None, 0, 2, 5, 30}; 0 = zero seconds: the session is over at
its start) the harness measures the virtual
instants at which the server closes the control connection, closes the data connection and sends 425,
and compares them EXACTLY with the extracted Coq model (coq/Model/Timeouts.v, `run`).  Independently of
the model, the property oracle (`oracle`) states C16 itself on the implementation's observations:
released no earlier than the bound, no later than bound + epsilon (epsilon = 0 without throttle),
425 exactly at command + wait_future_timeout with the session continuing, and after every release the
C12-style ledger (no open server-side transport, no passive listener, server.connections empty, no
leftover task).

Smoke test (what a run looks like):
    >>> obs = run_case(SCRIPTS["retr_noconn"], 4, (5, None, 2))
    >>> obs["r425"], obs["eof"]
    ([Fraction(5, 1)], Fraction(9, 1))         # RETR at 3 -> 425 at 5; PWD at 4 -> idle drop at 9
"""
import asyncio
import itertools
import logging
import pathlib
import re
from fractions import Fraction as F

import aioftp
import aioftp.common

from .. import simnet

ID = "C16"
EXTRACT = "ExC16"
TECHNIQUE = (
    "Coq proof about a timed transition system over Q (one session: greeting write at the start, control readline armed at "
    "each command, data-connection wait, per-operation data-stream deadlines, blocked control write), parametric in the wiring "
    "'which timeout governs which await, combined how' which tools/py2v/gen_timeouts.py regenerates from the AST of "
    "common.py/server.py on every run (including whether StreamIO.__init__ falls back with `X or timeout` or with "
    "`timeout if X is None else X`); tied to behaviour by running the real server on a virtual-clock in-memory network and "
    "comparing the exact virtual instants of every release / 425 with the extracted model, for every script x stall point x "
    "timeout combination"
)
LEVEL_TEXT = (
    "Proved (Closed under the global context) for every configuration (each timeout None or any rational: positive, zero, "
    "negative), every live state and every continuation of the timed model: C16_effective_timeouts (every await is governed by "
    "exactly the configured value: None is None, 0 is 0), C16_never_before_bound, C16_idle_drop_exact(_event), "
    "C16_idle_release_bound (every value 0 <= i, zero included) and C16_idle_release_due, C16_next_line_rearms, "
    "C16_active_never_idle_dropped, C16_idle_drop_during_transfer, C16_data_wait_425(_stall), C16_data_connect_in_time, "
    "C16_at_most_one_425_per_transfer, C16_data_stall_bound, C16_data_stall_release_bound, C16_data_progress_rearms and "
    "C16_data_pause_not_counted (a data read/write is timed from the instant it starts, after the stream's throttle wait, however "
    "long that wait is; control-channel counterpart: C16_next_line_rearms), "
    "C16_ctrl_write_stall_bound, C16_stall_ends_at_deadline, C16_dropped_at_deadline, C16_unset_* (None, and only None, means "
    "unbounded) and zero-is-zero-seconds everywhere: C16_idle_zero_drops_at_once / C16_idle_zero_release (control reads), "
    "C16_zero_socket_ends_at_greeting / C16_zero_socket_ctrl_immediate (control writes), C16_zero_socket_data_immediate (data "
    "reads/writes), C16_zero_wait_immediate_425 (data-connection wait); C16_abort_ends_session / "
    "_after_deadline / _released_by (a failure of the reader task -- undecodable command line, peer closing -- ends the session at "
    "that instant unless a deadline did before). The wiring the theorems speak about is re-derived from "
    "the regenerated source facts (C16_wiring_pasv/epsv and 10 structural obligations, among them C16_parse_command_total: parse_command returns a tuple or raises; the pre-repair `X or timeout` shape is "
    "translated to a different wiring, C16_or_shape_differs_at_zero, so a revert breaks the obligation). The tie to behaviour is "
    "sampled: exact agreement of model and real server in VIRTUAL time on the enumerated corpus. Wall-clock promptness "
    "(event-loop latency, OS timers, TCP) is runtime behaviour the model cannot exhibit; the property is therefore PARTIAL: "
    "proof about the timed model + sampled agreement in virtual time."
)
LEVEL_NOTE = (
    "Trusted: Coq kernel; extraction (ExtrOcamlBasic only) cross-checked with vm_compute; py2v; simnet (virtual clock, "
    "64 KiB flow-control window). Modelled, not verified: asyncio.wait_for/timeout semantics (deadline = start + T, "
    "T <= 0 immediate, the awaited coroutine never starts; sampled by a dedicated stream), task scheduling order at equal "
    "instants (ties are excluded from the corpus or tolerated, see docs/notes/C16.md), file back-end taking zero virtual time, "
    "real-time promptness; throttle waits are fed to the model as observed (arming instants of the control readline, start "
    "instants of the timed data reads), not predicted (C15 is about their length). F16 (0 treated as 'unset' by "
    "StreamIO.__init__) is repaired, its recorded replay is an ordinary corpus case. F21 (a Throttle.wait helper task outlived a session released during a "
    "throttle pause) is repaired too; the throttled groups that found it are ordinary corpus cases."
)
TRUSTED = [
    "asyncio.wait_for(aw, T) raises TimeoutError at exactly start + T on the loop clock (T <= 0: at once, T None: never); "
    "sampled against the real asyncio on the virtual loop each run, not proved",
    "simnet: virtual clock jumps to the next timer only at quiescence; drain() blocks above 64 KiB unread",
]
ASSUMPTIONS = [
    "one transfer at a time, no pipelining of commands, sequential peer (as in the property's quantifier)",
    "events that coincide with a deadline to the instant are races in asyncio; the corpus avoids command/deadline "
    "coincidences and the comparison ignores a 425 emitted at the very instant the session ends",
    "wall-clock promptness is not modelled: every statement is about virtual time",
]

logging.getLogger("aioftp.server").setLevel(logging.CRITICAL)
logging.getLogger("asyncio").setLevel(logging.CRITICAL)

BIG = 300000  # > 64 KiB window: the server's writes block when the peer does not read
HORIZON = 100  # virtual seconds of silence after the last step (all timeouts <= 30)
VALUES = [None, 0, 2, 5, 30]

# ------------------------------------------------------------------ scripts
H = F(1, 2)
USER = ("cmd", "USER anonymous")
PWD = ("cmd", "PWD")
PASV = ("cmd", "PASV")
EPSV = ("cmd", "EPSV")
RETR = ("cmd", "RETR big")
STOR = ("cmd", "STOR up")
LIST = ("cmd", "LIST")
MLSD = ("cmd", "MLSD")
DCONN = ("dconn", False)
DCONN_HOLD = ("dconn", True)  # the peer connects the data channel and never reads from it
DCONN_HOLD_NR = ("dconn", "noread")  # same, and when released it reads only what fits its receive buffer
RELEASE = ("release", None)  # ... starts reading after all
CHOLD = ("chold", None)  # the peer stops reading the control channel ...
FLOOD = ("flood", 80)  # ... and sends 80 unknown 1000-byte verbs: > 64 KiB of 502 replies, the reply writer blocks
CRELEASE = ("crelease", None)  # ... and reads again
DSEND = ("dsend", 1000)
DEOF = ("deof", None)
# a command line that is not valid in the server encoding (a latin-1 client): written as latin-1, undecodable as utf-8;
# parse_command raises UnicodeDecodeError into the dispatcher: the session ends at that instant, by no timeout
RAW = ("raw", "CWD caf\u00e9")
CCLOSE = ("cclose", None)  # the peer closes its control connection (parse_command raises ConnectionResetError)

# (gap before the step, step).  Command times are integers or n+1/2 with consecutive command gaps never in
# {2, 5, 30}; data-channel steps sit on half-integers: no step coincides with a deadline it could race with.
SCRIPTS = {
    "login": [(1, USER)],
    "login_pwd": [(1, USER), (1, PWD), (3, PWD), (1, PWD)],
    "login_slow": [(1, USER), (4, PWD), (F(13, 2), PWD)],
    "retr_ok": [(1, USER), (1, PASV), (H, DCONN), (H, RETR), (1, PWD), (3, PWD)],
    "retr_hold": [(1, USER), (1, PASV), (H, DCONN_HOLD), (H, RETR), (1, PWD), (3, PWD)],
    "retr_hold_release": [(1, USER), (1, PASV), (H, DCONN_HOLD), (H, RETR), (F(3, 2), RELEASE), (F(3, 2), PWD)],
    "retr_hold_partial": [(1, USER), (1, PASV), (H, DCONN_HOLD_NR), (H, RETR), (F(3, 2), RELEASE), (F(3, 2), PWD)],
    "retr_lateconn": [(1, USER), (1, PASV), (1, RETR), (H, DCONN), (H, PWD)],
    "retr_noconn": [(1, USER), (1, PASV), (1, RETR), (1, PWD), (F(3, 2), DCONN), (1, PWD), (3, PWD)],
    "retr_lateconn_hold": [(1, USER), (1, PASV), (1, RETR), (H, DCONN_HOLD), (H, PWD), (3, PWD)],
    "stor": [(1, USER), (1, PASV), (H, DCONN), (H, STOR), (H, DSEND), (1, DSEND), (F(5, 2), DSEND), (1, DEOF), (1, PWD)],
    "list_noconn": [(1, USER), (1, PASV), (1, LIST), (1, PWD), (H, DCONN), (H, PWD)],
    "list_ok": [(1, USER), (1, PASV), (H, DCONN), (H, LIST), (1, PWD)],
    "mlsd_noconn": [(1, USER), (1, PASV), (1, MLSD), (4, PWD)],
    "epsv_retr_hold": [(1, USER), (1, EPSV), (H, DCONN_HOLD), (H, RETR)],
    "epsv_stor": [(1, USER), (1, EPSV), (H, DCONN), (H, STOR), (H, DSEND)],
    "ctrl_not_reading": [(1, USER), (1, CHOLD), (H, FLOOD), (F(3, 2), PWD)],
    "ctrl_not_reading_release": [(1, USER), (1, CHOLD), (H, FLOOD), (F(3, 2), CRELEASE), (1, PWD)],
    "retr_noconn_then_ok": [(1, USER), (1, PASV), (1, RETR), (F(7, 2), DCONN), (H, RETR), (1, PWD)],
    # a peer that never stalls: a command every second / an upload sent in one go with its EOF / a small download read at once
    "chatty": [(1, USER), (1, PWD), (1, PWD), (1, PWD), (1, PWD), (1, PWD)],
    "stor_burst": [(1, USER), (1, PASV), (H, DCONN), (H, STOR), (H, DSEND), (H, DSEND), (H, DEOF), (1, PWD)],
    "retr_small": [(1, USER), (1, PASV), (H, DCONN), (H, ("cmd", "RETR a.txt")), (1, PWD), (3, PWD)],
    # the reader task fails (undecodable line / peer gone), then silence: no reader-less, timer-less session may survive
    "badline": [(1, USER), (1, PWD), (1, RAW), (1, PWD), (3, PWD)],
    "badline_first": [(1, RAW), (1, USER)],
    "badline_xfer": [(1, USER), (1, PASV), (H, DCONN_HOLD), (H, RETR), (1, RAW), (1, PWD)],
    "badline_wait": [(1, USER), (1, PASV), (1, RETR), (H, RAW), (F(3, 2), PWD)],
    "peer_leaves": [(1, USER), (1, PWD), (1, CCLOSE)],
    "peer_leaves_xfer": [(1, USER), (1, PASV), (H, DCONN_HOLD), (H, RETR), (1, CCLOSE)],
}
QUICK_ALL_COMBOS = ("login", "login_pwd", "retr_noconn", "retr_hold", "stor", "ctrl_not_reading")


def check_script(name, sc, extra=()):
    t, last = F(0), None
    for gap, (kind, _) in sc:
        t += gap
        if kind in ("cmd", "flood", "raw"):
            if last is not None and (t - last) in (2, 5, 30) + tuple(extra):
                raise AssertionError(f"script {name}: command gap {t - last} coincides with a timeout value")
            last = t


for _n, _sc in SCRIPTS.items():
    check_script(_n, _sc, extra=(F(3, 4),))


def xfer_dir(line):
    v = line.split()[0].upper()
    if v in ("RETR", "LIST", "MLSD"):
        return 2  # Down
    if v in ("STOR", "APPE"):
        return 1  # Up
    return 0


# ------------------------------------------------------------------ implementation side
class Peer:
    """control-channel peer that records the exact virtual instant of every reply line and of EOF"""

    def __init__(self, net, reader, writer):
        self.net, self.reader, self.writer = net, reader, writer
        self.log = []  # (time, line) ; (time, None) = EOF
        self.buf = b""
        self.task = asyncio.ensure_future(self._run())

    async def _run(self):
        while True:
            try:
                d = await self.reader.read(65536)
            except (ConnectionError, OSError):
                d = b""
            t = F(self.net.loop.time())
            if not d:
                self.log.append((t, None))
                return
            self.buf += d
            *ls, self.buf = self.buf.split(b"\r\n")
            for l in ls:
                self.log.append((t, l.decode("utf-8", "replace")))

    @property
    def eof(self):
        for t, l in self.log:
            if l is None:
                return t
        return None


def pyval(v):
    """what is handed to aioftp.Server: ints stay ints, other rationals become (exact, dyadic) floats"""
    if v is None or isinstance(v, int):
        return v
    assert F(float(v)) == F(v), v
    return float(v)


def ser_script(sc):
    return [[str(F(g)), kind, arg] for g, (kind, arg) in sc]


def deser_script(l):
    return [(F(g), (kind, arg)) for g, kind, arg in l]


def random_script(rng):
    """thorough tier: a random session from the same step vocabulary (one PASV/EPSV listener; at most one transfer in
    flight; consecutive command gaps never equal to a timeout value; data steps on half-integers)"""
    while True:
        sc = [(1, USER), (rng.choice([1, 3]), rng.choice([PASV, EPSV]))]
        open_end = False
        for b in range(rng.randint(1, 3)):
            if open_end or rng.random() < 0.35:
                sc.append((rng.choice([1, 3, 4, F(13, 2)]), PWD))
                continue
            kind = rng.choice(["retr", "retr_hold", "retr_partial", "stor", "list", "mlsd"])
            conn = rng.choice(["before", "before", "soon", "late", "never"])
            cmd = {"retr": RETR, "retr_hold": RETR, "retr_partial": RETR, "stor": STOR, "list": LIST, "mlsd": MLSD}[kind]
            dc = {"retr_hold": DCONN_HOLD, "retr_partial": DCONN_HOLD_NR}.get(kind, DCONN)
            if conn == "before":
                sc += [(H, dc), (H, cmd)]
            elif conn == "soon":
                sc += [(1, cmd), (H, dc)]
            elif conn == "late":
                sc += [(1, cmd), (F(7, 2), dc)]
            else:
                sc += [(1, cmd)]
            done = conn == "before" and kind in ("retr", "list", "mlsd")
            if conn != "never":
                if kind == "stor":
                    sc.append((H, DSEND))
                    for _ in range(rng.randint(0, 2)):
                        sc.append((rng.choice([1, F(5, 2)]), DSEND))
                    if rng.random() < 0.5:
                        sc.append((1, DEOF))
                elif kind == "retr_hold" and rng.random() < 0.5:
                    sc.append((F(3, 2), RELEASE))
                elif kind == "retr_partial":
                    sc.append((F(3, 2), RELEASE))
            if not done:
                open_end = True  # whether this transfer is over depends on the configuration: only PWDs may follow
        try:
            check_script("random", sc, extra=(F(3, 4),))
        except AssertionError:
            continue
        return sc


def run_case(script, k, cfg, throttle=None, horizon=HORIZON):
    """the peer performs script[:k] and then stalls; returns the observations (Fractions of virtual seconds)"""
    idle, sock, wf = cfg
    obs = {}

    async def main(net):
        loop = net.loop
        loop.set_exception_handler(lambda l, c: None)
        kw = {}
        if throttle:
            kw.update(throttle)
        srv = aioftp.Server(
            [aioftp.User(base_path="/", home_path="/")],
            path_io_factory=aioftp.MemoryPathIO,
            idle_timeout=pyval(idle),
            socket_timeout=pyval(sock),
            wait_future_timeout=pyval(wf),
            **kw,
        )
        await srv.start("127.0.0.1", 2121)
        pio = srv.path_io_factory(timeout=None, connection=None)
        async with pio.open(pathlib.PurePosixPath("/big"), "wb") as f:
            await f.write(b"x" * BIG)
        for n in ("a.txt", "b.txt"):
            async with pio.open(pathlib.PurePosixPath("/" + n), "wb") as f:
                await f.write(b"hello")
        closed_at = {}
        net._transport_closed = lambda t: closed_at.setdefault(t, F(loop.time()))
        armed = []
        orig_readline = aioftp.common.StreamIO.readline

        def spy(self):
            armed.append((F(loop.time()), id(self)))
            return orig_readline(self)

        aioftp.common.StreamIO.readline = spy
        data_reads = []
        orig_read = aioftp.common.StreamIO.read

        def spy_read(self, count=-1):
            data_reads.append((F(loop.time()), id(self)))
            return orig_read(self, count)

        aioftp.common.StreamIO.read = spy_read
        peer = None
        drains = []
        try:
            t0 = F(loop.time())
            r, w = await net.open_connection("127.0.0.1", 2121)
            peer = Peer(net, r, w)
            ctrl_st = w.transport.peer
            await net.settle()
            data = []  # (client writer, server transport)

            nread = [0]

            async def drain(rd):
                try:
                    while True:
                        d_ = await rd.read(65536)
                        if not d_:
                            break
                        nread[0] += len(d_)
                except (ConnectionError, OSError):
                    pass

            events = []  # what the peer did, with times: feeds the model and the oracle
            port = None
            for gap, (kind, arg) in script[:k]:
                await asyncio.sleep(float(gap))
                now = F(loop.time())
                if kind == "cmd":
                    w.write(arg.encode() + b"\r\n")
                    events.append(("cmd", now, arg))
                    await net.settle()
                elif kind == "dconn":
                    # the port of the latest 227/229 the peer has received by now (a write throttle delays replies)
                    for t, l in reversed(peer.log):
                        if l and l.startswith("227"):
                            m = re.search(r"\((\d+),(\d+),(\d+),(\d+),(\d+),(\d+)\)", l)
                            port = int(m.group(5)) * 256 + int(m.group(6))
                            break
                        if l and l.startswith("229"):
                            port = int(re.search(r"\|\|\|(\d+)\|", l).group(1))
                            break
                    try:
                        dr, dw = await net.open_connection("127.0.0.1", port)
                    except (ConnectionError, TypeError):
                        events.append(("dconn_refused", now, None))
                        continue
                    st = dw.transport.peer
                    if arg:
                        st.out.hold = True
                    if arg != "noread":
                        drains.append(asyncio.ensure_future(drain(dr)))
                    data.append((dw, st))
                    events.append(("dconn", now, arg))
                    await net.settle()
                elif kind == "release":
                    if data:
                        data[-1][1].out.release()
                    events.append(("release", now, None))
                    await net.settle()
                elif kind == "chold":
                    ctrl_st.out.hold = True
                    events.append(("chold", now, None))
                elif kind == "crelease":
                    ctrl_st.out.release()
                    events.append(("crelease", now, None))
                    await net.settle()
                elif kind == "flood":
                    for _ in range(arg):
                        w.write(b"X" * 1000 + b"\r\n")
                    events.append(("flood", now, arg))
                    await net.settle()
                    obs["write_paused"] = ctrl_st.write_paused
                elif kind == "dsend":
                    if data:
                        data[-1][0].write(b"d" * arg)
                    events.append(("dsend", now, arg))
                    await net.settle()
                elif kind == "deof":
                    if data:
                        data[-1][0].close()
                    events.append(("deof", now, None))
                    await net.settle()
                elif kind == "raw":
                    raw = arg.encode("latin-1")
                    try:
                        raw.decode("utf-8")
                        raise AssertionError("raw step must not be valid utf-8")
                    except UnicodeDecodeError:
                        pass
                    w.write(raw + b"\r\n")
                    events.append(("raw", now, arg))
                    await net.settle()
                elif kind == "cclose":
                    w.close()
                    events.append(("cclose", now, None))
                    await net.settle()
            t_stall = F(loop.time())
            await asyncio.sleep(horizon)
            await net.settle()
            ctrl_id = None
            key = next(iter(srv.connections), None)
            obs["t0"] = t0
            obs["t_stall"] = t_stall
            obs["t_end"] = F(loop.time())  # end of the observation
            obs["events"] = events
            obs["replies"] = [(t, l) for t, l in peer.log if l is not None]
            # the release instant is the server-side close of the control transport; a peer that reads its control
            # channel sees the EOF at that very instant (checked in compare), one that does not read cannot
            obs["eof"] = closed_at.get(ctrl_st)
            obs["peer_eof"] = peer.eof
            obs["r425"] = [t for t, l in peer.log if l and l.startswith("425")]
            obs["ctrl_closed"] = closed_at.get(ctrl_st)
            obs["data_closed"] = [closed_at.get(st) for _, st in data]
            obs["data_conn_times"] = [t for kind_, t, _ in events if kind_ == "dconn"]
            obs["data_read"] = nread[0]  # bytes the peer drained from its data connections
            # armed log of the control stream only = the stream object used by the first readline
            if armed:
                cid = armed[0][1]
                obs["armed"] = [t for t, i in armed if i == cid]
            else:
                obs["armed"] = []
            obs["data_reads"] = list(data_reads)  # start instants of the timed reads of the data streams
            me = asyncio.current_task()
            obs["ledger"] = {
                "open_server_transports": [t.label for t in net.open_transports("server")],
                "listeners": sorted(l.port for l in net.open_listeners()),
                "connections": len(srv.connections),
                "tasks": sorted(
                    (t.get_coro().__qualname__ if hasattr(t.get_coro(), "__qualname__") else repr(t.get_coro()))
                    for t in asyncio.all_tasks()
                    if t is not me and t is not peer.task and t not in drains and not t.done()
                ),
            }
        finally:
            aioftp.common.StreamIO.readline = orig_readline
            aioftp.common.StreamIO.read = orig_read
            try:
                await srv.close()
            except BaseException:
                pass
            if peer is not None:
                peer.task.cancel()
            for d_ in drains:
                d_.cancel()

    simnet.run(main, wall_timeout=60)
    return obs


# ------------------------------------------------------------------ model side
def q(x):
    x = F(x)
    return [x.numerator, x.denominator]


def oq(x):
    return None if x is None else q(x)


NO_NEXT_OP = F(10**6)  # "the next data operation never started": a throttle wait with no observed end


def paced_upload(obs):
    """a read-throttled session whose only transfer is ONE upload over a data connection made before the command
    (scripts stor, stor_burst, epsv_stor): returns the index of the upload command, else None"""
    cmds = [(i, a) for i, (kind, _, a) in enumerate(obs["events"]) if kind == "cmd" and xfer_dir(a)]
    dconns = [i for i, (kind, _, _) in enumerate(obs["events"]) if kind == "dconn"]
    if len(cmds) == 1 and xfer_dir(cmds[0][1]) == 1 and len(dconns) == 1 and dconns[0] < cmds[0][0]:
        return cmds[0][0]
    return None


def paced_upload_events(obs, start, block=8192):
    """the server's side of a throttled upload as model events, from the peer's sends and the OBSERVED instants at
    which the timed data reads started (spy on StreamIO.read; the waits between them are the throttle's):
    read j starts at r_j and completes at c_j = r_j when bytes (or the EOF) are already there, else at their arrival;
    with data:  DataProgress c_j (r_{j+1} - c_j)   -- the next timed read starts after the throttle wait;
    with EOF:   DataDone c_j.
    The transfer starts at `start` (consumption of the command) and its first timed read at r_0:
    DataProgress start (r_0 - start)."""
    reads = [t for t, _ in obs["data_reads"]]
    if not reads:
        return []
    E = obs["eof"]
    arrivals = [(t, a if kind == "dsend" else None) for kind, t, a in obs["events"] if kind in ("dsend", "deof")]
    out = [(start, [2, q(start), q(reads[0] - start), 0])]
    i = 0
    for j, r in enumerate(reads):
        if i >= len(arrivals):
            break  # nothing more comes: this read never completes
        if arrivals[i][0] <= r:
            c = r
            if arrivals[i][1] is not None:
                n = 0
                while i < len(arrivals) and arrivals[i][0] <= r and arrivals[i][1] is not None and n + arrivals[i][1] <= block:
                    n += arrivals[i][1]
                    i += 1
                eof = False
            else:
                i += 1
                eof = True
        else:
            c, eof = arrivals[i][0], arrivals[i][1] is None
            i += 1
        if E is not None and c >= E:
            break  # the session was gone before
        if eof:
            out.append((c, [3, q(c), q(0), 0]))
            break
        nxt = reads[j + 1] - c if j + 1 < len(reads) else NO_NEXT_OP
        out.append((c, [2, q(c), q(nxt), 0]))
    return out


def model_events(obs, throttled=False):
    """the peer's steps as events of Model/Timeouts.v.
    cmd -> Line t d k (d = 0 unthrottled; with a read throttle t and d are taken from the observed arming
    instants of the control readline: consumption = max(arrival, armed), next arming = the following entry);
    dconn -> DataConnects [+ DataDone when the peer reads: a Down transfer completes at the same virtual instant];
    release -> DataDone; dsend -> DataProgress; deof -> DataDone.  DataDone/DataProgress are no-ops in the model
    unless a transfer is moving, so they can be emitted unconditionally.
    A read-throttled upload (paced_upload) is described from the server's side instead, see paced_upload_events."""
    evs = []  # (time, event)
    armed = obs["armed"]
    ncmd = 0
    held = False
    noread = False
    have_data = False
    pending_dir = 0
    paced = paced_upload(obs) if throttled and obs.get("data_reads") is not None else None
    for idx, (kind, t, arg) in enumerate(obs["events"]):
        if kind == "cmd":
            d = F(0)
            tt = t
            if throttled and ncmd + 1 < len(armed):
                tt = max(t, armed[ncmd])
                d = armed[ncmd + 1] - tt
            ncmd += 1
            k = xfer_dir(arg)
            if k:
                pending_dir = k
            evs.append((tt, [0, q(tt), q(d), k]))
            if k == 2 and have_data and not held:
                evs.append((tt, [3, q(tt), q(0), 0]))
            if idx == paced:
                evs += paced_upload_events(obs, tt)
        elif kind == "dconn":
            held = bool(arg)
            noread = arg == "noread"
            have_data = True
            evs.append((t, [1, q(t), q(0), 0]))
            if not held and pending_dir == 2:
                evs.append((t, [3, q(t), q(0), 0]))  # a waiting Down transfer completes at once (no-op if none is waiting)
        elif kind == "release":
            held = False
            # a peer that drains completes the transfer at once; one that reads only a buffer-full makes progress and stalls again
            evs.append((t, [2 if noread else 3, q(t), q(0), 0]))
        elif kind == "flood":
            evs.append((t, [0, q(t), q(0), 0]))  # the lines are consumed at t ...
            evs.append((t, [4, q(t), q(0), 0]))  # ... and the reply writer blocks at t (peer not reading)
        elif kind == "crelease":
            evs.append((t, [5, q(t), q(0), 0]))
        elif kind in ("raw", "cclose"):
            break  # the reader task fails here: run_abort (kill_time)
        elif kind == "dsend" and paced is None:
            evs.append((t, [2, q(t), q(0), 0]))
        elif kind == "deof" and paced is None:
            evs.append((t, [3, q(t), q(0), 0]))
    if throttled:
        evs.sort(key=lambda x: x[0])  # stable: consumption instants lag behind the peer's sends
    return [e for _, e in evs]


def kill_time(obs):
    """instant of the first peer step that makes the reader task fail (undecodable line / peer closes), or None"""
    for kind, t, _ in obs["events"]:
        if kind in ("raw", "cclose"):
            return t
    return None


def dec_q(x):
    return F(x[0], x[1])


def dec_state(m):
    ended = None if not m[0] else (dec_q(m[0][0]), m[0][1])
    return {"ended": ended, "r425": [dec_q(x) for x in m[1]], "xfer": m[2][0], "armed": dec_q(m[3])}


# ------------------------------------------------------------------ the property oracle (independent of the model)
def transfers_of(obs, wf):
    """which transfer commands got a data connection in time, from the peer's steps alone:
    (command time, start of the data phase, index of the data connection, command line) -- a connection made before the
    command is taken at the command; one made after it counts only strictly before command + wait_future_timeout;
    a connection that comes too late stays parked and can serve the next transfer command"""
    dconns = [(t, i) for i, (t, _) in enumerate([(t, a) for kind, t, a in obs["events"] if kind == "dconn"])]
    free = list(dconns)
    started, refused = [], []
    for kind, t, a in obs["events"]:
        if kind != "cmd" or not xfer_dir(a):
            continue
        before = [x for x in free if x[0] <= t]
        if before:
            free.remove(before[0])
            started.append((t, t, before[0][1], a))
            continue
        after = [x for x in free if x[0] > t and (wf is None or x[0] < t + max(wf, 0))]
        if after:
            free.remove(after[0])
            started.append((t, after[0][0], after[0][1], a))
        else:
            refused.append(t)
    return started, refused


def data_stall(obs, tr, sock):
    """when does the PEER let the data connection of a started transfer rest, judged from its steps alone (upload: no
    data sent and no EOF; download: not reading)?  Returns (first, final):
      first = the earliest instant from which socket_timeout may legitimately give the connection up: the first instant
              at which the peer has let it rest for socket_timeout; None = this peer never stalls on this connection for
              that long (it sends everything and its EOF / reads everything): socket_timeout then never applies, however
              long the server's own throttle pauses are;
      final = the instant from which the peer lets it rest for good (None if it does not)."""
    c, st, i, line = tr
    s = max(sock, 0)
    # the steps that concern data connection i: between its dconn and the next one
    seen, mine, arg = -1, [], None
    for kind, t, a in obs["events"]:
        if kind == "dconn":
            seen += 1
            if seen == i:
                arg = a
        elif seen == i and kind in ("dsend", "deof", "release"):
            mine.append((kind, t))
    if xfer_dir(line) == 1:  # upload: the server reads
        moves = [st] + [t for kind, t in mine if kind in ("dsend", "deof") and t >= st]
        final = None if any(kind == "deof" for kind, _ in mine) else moves[-1]
        for x, y in zip(moves, moves[1:]):
            if y - x >= s:
                return x + s, final
        return (None if final is None else final + s), final
    # download: the server writes; a peer that reads never stalls; a held one stalls once the windows are full,
    # which only a file larger than them does
    if not arg or line != RETR[1]:
        return None, None
    rel = [t for kind, t in mine if kind == "release" and t >= st]
    if not rel:
        return st + s, st
    final = rel[0] if arg == "noread" else None
    if rel[0] - st >= s:
        return st + s, final
    return (None if final is None else final + s), final


def oracle(obs, cfg, eps=F(0)):
    """C16 stated on the implementation's observations.  Returns a list of (key, message).
    Literal reading of the quantifier: a timeout is None or a VALUE; the value 0 is a bound of zero seconds.
    eps = allowance for throttle sleeps (0 without throttle)."""
    idle, sock, wf = cfg
    bad = []
    E = obs["eof"]
    cmds = [(t, a) for kind, t, a in obs["events"] if kind in ("cmd", "flood", "raw")]
    raws = {t for kind, t, _ in obs["events"] if kind == "raw"}
    gone = [t for kind, t, _ in obs["events"] if kind == "cclose"]
    tk = kill_time(obs)
    started, refused = transfers_of(obs, wf)
    # intervals during which the peer does not read its control channel
    blind, h0 = [], None
    for kind, t, _ in obs["events"]:
        if kind == "chold":
            h0 = t
        elif kind == "crelease" and h0 is not None:
            blind.append((h0, t))
            h0 = None
    if h0 is not None:
        blind.append((h0, F(10**9)))
    # ---- bounds that can legitimately end the session
    bounds = []
    idle_lower = idle_upper = None
    if idle is not None:
        prev = obs["t0"]
        for t, _ in cmds:
            if idle_lower is None and t - prev >= idle:
                idle_lower = prev + idle  # the session MAY be dropped from here on
            if idle_upper is None and t - prev > idle + eps:
                idle_upper = prev + idle + eps  # ... and MUST be gone by then
            prev = t
        if idle_lower is None:
            idle_lower = prev + idle
        if idle_upper is None:
            idle_upper = prev + idle + eps
        bounds.append(idle_lower)
    if sock is not None:
        for tr in started:
            b, _ = data_stall(obs, tr, sock)
            if b is not None:
                bounds.append(b)
    # a reply write that blocks because the peer does not read (flood while blind) is bounded by socket_timeout
    cw_upper = None
    for kind, t, _ in obs["events"]:
        if kind == "flood" and sock is not None and any(a <= t < b for a, b in blind):
            bounds.append(t + sock)
            rel = [b for a, b in blind if a <= t < b][0]
            if sock > 0 and rel >= t + sock:
                cw_upper = t + sock + eps
    # every reply write is under socket_timeout; a value <= 0 gives the first one -- the greeting, entered at the
    # session's start -- zero seconds (None, and only None, disables the timeout)
    if sock is not None and sock <= 0:
        bounds.append(obs["t0"])
        if E is None or E > obs["t0"] + eps:
            bad.append(("c16-ctrl-write-zero-not-abandoned", f"socket_timeout={sock}: the greeting write is allowed zero seconds, session not closed by {obs['t0'] + eps} (closed at {E})"))
    if cw_upper is not None and (E is None or E > cw_upper):
        bad.append(("c16-ctrl-write-not-abandoned", f"socket_timeout={sock}: reply write blocked by a peer that does not read, session not closed by {cw_upper} (closed at {E})"))
    # an undecodable command line / the peer closing the control connection may end the session at that instant (a
    # failure of the reader, not a timeout); if the session goes on instead, every bound goes on applying to it, the
    # idle bound counted from that line
    if tk is not None:
        bounds.append(tk)
    # ---- no release earlier than the earliest applicable bound; none at all without a bound
    if E is not None:
        if not bounds:
            bad.append(("c16-dropped-without-bound", f"control connection closed at {E} although no configured timeout applies"))
        elif E < min(bounds):
            bad.append(("c16-released-early", f"control connection closed at {E}, earlier than the earliest bound {min(bounds)}"))
    # ---- idle: dropped once idle_timeout has passed
    if idle_upper is not None and (E is None or E > idle_upper):
        key = "c16-idle-zero-never-dropped" if idle == 0 else "c16-idle-not-dropped"
        bad.append((key, f"idle_timeout={idle}: silent control channel, session not closed by {idle_upper} (closed at {E})"))
    # ---- 425 at command + wait_future_timeout, exactly one, and the session continues
    r425 = list(obs["r425"])
    if wf is not None:
        for c in refused:
            dl = c + max(wf, 0)
            hits = [x for x in r425 if dl <= x <= dl + eps]
            if E is not None and E <= dl + eps:
                # the session legitimately ended first (or at that very instant: a race), or inside the allowance:
                # the 425 may or may not have been sent
                for x in hits[:1]:
                    r425.remove(x)
                continue
            if len(hits) != 1:
                bad.append(("c16-425-missing", f"transfer command at {c}, no data connection by {dl}: expected exactly one 425 in [{dl}, {dl + eps}], got {[str(x) for x in r425]}"))
            for x in hits:
                r425.remove(x)
    for x in r425:
        if E is not None and x == E:
            continue
        bad.append(("c16-425-unexpected", f"425 at {x} does not answer a transfer command whose data connection was missing at command + wait_future_timeout"))
    for t, a in cmds:
        if E is not None and E <= t + eps:
            continue
        if any(x <= t < y for x, y in blind) or isinstance(a, int) or (gone and t >= gone[0]):
            continue  # the peer is not reading: replies are not observable
        if t in raws:
            continue  # no reply is owed to a line that ends the session
        if t + eps >= obs["t_end"]:
            continue  # the allowance reaches beyond the end of the observation
        if not any(t <= rt <= t + eps for rt, _ in obs["replies"]):
            bad.append(("c16-command-unanswered", f"{a} at {t} got no reply although the session was up (closed at {E})"))
    # ---- a data connection that stops moving is given up after socket_timeout (one whose peer keeps it moving is
    # under no bound: the server's throttle pauses are not the peer's)
    if sock is not None:
        for tr in started:
            c, st, i, _line = tr
            first, final = data_stall(obs, tr, sock)
            dc = obs["data_closed"][i]
            # without throttle the first rest of socket_timeout ends it; with throttle pauses the server may sleep
            # through a rest in the middle of the transfer, only the final one is certain to be noticed
            due_by = first if eps == 0 else (None if final is None else final + max(sock, 0) + eps)
            if due_by is None:
                continue
            if dc is None:
                bad.append(("c16-data-not-abandoned", f"socket_timeout={sock}: data connection of the transfer at {c} at rest, due to be given up by {due_by}, still open at the horizon"))
            elif dc > due_by:
                bad.append(("c16-data-abandoned-late", f"socket_timeout={sock}: data connection of the transfer at {c} due to be given up by {due_by} closed only at {dc}"))
    # ---- clean-up after the release
    if E is not None:
        led = obs["ledger"]
        if led["open_server_transports"] or led["listeners"] != [2121] or led["connections"] or led["tasks"]:
            only_pacers = not (led["open_server_transports"] or led["listeners"] != [2121] or led["connections"]) and all(
                t == "Throttle.wait" for t in led["tasks"]
            )
            key = "c16-throttle-wait-task-outlives-session" if only_pacers else "c16-leak-after-release"
            bad.append((key, f"after the release at {E}: {led}"))
    return bad


# ------------------------------------------------------------------ correspondence
def combos(rng, name, thorough):
    vals = VALUES + [F(3, 4)] if thorough else VALUES
    allc = list(itertools.product(vals, vals, vals))
    if name == "random":
        return rng.sample(allc, 14)
    if thorough or name in QUICK_ALL_COMBOS:
        return allc
    # every value of every timeout at least once + a random sample
    base = [(a, b, c) for a in VALUES for b in (None, 2) for c in (None, 2)] + [(2, b, c) for b in VALUES for c in VALUES]
    extra = rng.sample(allc, 20)
    out = []
    for c in base + extra:
        if c not in out:
            out.append(c)
    return out


def compare(ctx, name, k, cfg, obs, pred, throttled=False, steps=()):
    """exact comparison of the model's prediction with the observation"""
    E = obs["eof"]
    pe = pred["ended"][0] if pred["ended"] else None
    o425 = [x for x in obs["r425"] if x != E]
    m425 = [x for x in pred["r425"] if x != pe]
    blind = any(kind in ("chold", "cclose") for kind, _, _ in obs["events"])  # the peer cannot see the EOF
    if pe != E or o425 != m425 or (not blind and obs["peer_eof"] != E):
        ctx.disagree(
            "session-timing",
            {"script": name, "k": k, "cfg": [str(x) for x in cfg], "throttled": throttled, "steps": ser_script(steps)},
            {"ended": str(pe), "cause": pred["ended"][1] if pred["ended"] else None, "r425": [str(x) for x in m425]},
            {"closed": str(E), "peer_eof": str(obs["peer_eof"]), "r425": [str(x) for x in o425]},
        )
        return False
    return True


def unmodelled(obs, throttle):
    """throttled cases that are checked by the property oracle only: a write throttle delays the instants at which
    the peer sees replies (425) and data; of the read-throttled uploads only the shape of paced_upload is described
    to the model"""
    if not throttle:
        return False
    if throttle.get("write_speed_limit"):
        return any(kind == "cmd" and xfer_dir(a) for kind, _, a in obs["events"])
    return any(kind == "dsend" for kind, _, _ in obs["events"]) and paced_upload(obs) is None


def run_matrix(ctx, cases, throttle=None, eps_of=None, stream="matrix"):
    """cases: list of (script name, k, cfg) or (script name, k, cfg, steps).
    Without an extracted model (ctx.exe is None: the model did not build) every case is still run against the real
    server and judged by the property oracle alone."""
    obs_all = []
    model_in = []
    cases = [c if len(c) == 4 else (c[0], c[1], c[2], SCRIPTS[c[0]]) for c in cases]
    ran, failed = [], 0
    for name, k, cfg, steps in cases:
        try:
            obs = run_case(steps, k, cfg, throttle=throttle)
        except BaseException as e:  # an exception or a hang (simnet's wall-clock guard) of the implementation is an observation
            if isinstance(e, KeyboardInterrupt):
                raise
            ctx.disagree("run-terminates", {"script": name, "k": k, "cfg": [str(x) for x in cfg], "throttle": throttle,
                                            "steps": ser_script(steps)}, "the scripted session runs to its horizon", repr(e)[:300])
            failed += 1
            if failed >= 3:
                ctx.notes.append(f"stream {stream}: three sessions did not run to their horizon, rest of the stream skipped")
                break  # keep the run within its budget (each hang costs the wall-clock guard)
            continue
        ran.append((name, k, cfg, steps))
        ctx.traces_impl += 1
        obs_all.append(obs)
        mcfg, mev, tk = [oq(cfg[0]), oq(cfg[1]), oq(cfg[2])], model_events(obs, throttled=bool(throttle)), kill_time(obs)
        model_in.append((0, [mcfg, q(obs["t0"]), mev]) if tk is None else (4, [mcfg, q(obs["t0"]), mev, q(tk)]))
    cases = ran
    have_model = ctx.exe is not None
    out = ctx.model(model_in) if have_model else [None] * len(model_in)
    xs = []
    for (name, k, cfg, steps), obs, mi, mo in zip(cases, obs_all, model_in, out):
        pred = dec_state(mo) if have_model else {"ended": None, "r425": [], "xfer": 0, "armed": F(0)}
        ctx.case((stream, name, k, cfg, str(steps) if name == "random" else ""))
        ctx.count(f"script:{name}")
        ctx.count("outcome:" + ("never-released" if obs["eof"] is None else "released"))
        if obs["r425"]:
            ctx.count("outcome:425")
        if pred["ended"]:
            ctx.count("cause:" + ["idle", "data-io", "ctrl-write", "wait-fail", "reader-failed"][pred["ended"][1]])
        if not have_model:
            ctx.count("oracle_only_no_model")
        elif unmodelled(obs, throttle):
            ctx.count("throttled_oracle_only")
        else:
            compare(ctx, name, k, cfg, obs, pred, throttled=bool(throttle), steps=steps)
        eps = eps_of(obs) if eps_of else (throttle_eps(obs, throttle) if throttle else F(0))
        for key, msg in oracle(obs, cfg, eps):
            ctx.violation(msg, {"key": key, "script": name, "k": k, "cfg": [None if c is None else str(c) for c in cfg],
                                "throttle": throttle, "steps": ser_script(steps), "what": msg})
        if have_model and len(xs) < 12 and k >= 3:
            xs.append((0, mi[1], mo))
        if (obs["r425"] or (pred["ended"] and pred["ended"][1] == 1) or throttle) and k >= 4 and (len(ctx.samples) < 2 or cfg[0] in (5, 30)):
          ctx.sample(
            {"script": name, "k": k, "cfg": [str(c) for c in cfg], "eof": str(obs["eof"]), "r425": [str(x) for x in obs["r425"]],
             "model_ended": str(pred["ended"][0]) if pred["ended"] else None,
             "events": [(kind, str(t), a) for kind, t, a in obs["events"]], "throttle": throttle},
          )
    return xs


def former_witnesses():
    """witnesses of repaired findings: ordinary corpus cases now, which must satisfy the oracle and agree with the model.
    F16 (`read_timeout or timeout` turned 0 into None): its recorded replay docs/notes/C16-F15-replay.json
    (idle_timeout=0, one command, then silence) and the same root cause on the write side (socket_timeout=0 with a
    peer that does not read its control channel)."""
    import json

    f = pathlib.Path(__file__).resolve().parents[2] / "docs" / "notes" / "C16-F15-replay.json"
    r = json.loads(f.read_text())["replay"]
    val = lambda x: None if x is None else (int(F(x)) if F(x).denominator == 1 else F(x))
    cases = [("F16-replay", r["k"], tuple(val(x) for x in r["cfg"]), deser_script(r["steps"]))]
    for k in range(0, len(SCRIPTS["ctrl_not_reading"]) + 1):
        cases.append(("ctrl_not_reading", k, (None, 0, 1), SCRIPTS["ctrl_not_reading"]))
    for name in ("login_pwd", "retr_noconn", "stor"):
        for k in range(0, len(SCRIPTS[name]) + 1):
            cases.append((name, k, (0, None, 1), SCRIPTS[name]))
            cases.append((name, k, (0.0, 30, 1), SCRIPTS[name]))
    return cases


def effective_timeouts_stream(ctx):
    """StreamIO.__init__'s `timeout if X is None else X` on the real class vs the model's eval of the wiring"""
    vals = [None, 0, 2, 5, 30, F(1, 2), 0.0]
    cases = [(i, s) for i in vals for s in vals]
    out = ctx.model([(2, [[oq(F(i) if i is not None else None), oq(F(s) if s is not None else None), None]]) for i, s in cases])
    xs = []
    for (i, s), mo in zip(cases, out):
        ctx.case(("eff", str(i), str(s)))
        ctrl = aioftp.StreamIO(None, None, read_timeout=i, write_timeout=s)
        data = aioftp.StreamIO(None, None, timeout=s)
        impl = [ctrl.read_timeout, ctrl.write_timeout, data.read_timeout, data.write_timeout]
        impl = [None if x is None else F(x) for x in impl]
        model = [None if not x else dec_q(x) for x in mo[:4]]
        if impl != model:
            ctx.disagree("effective-timeouts", [str(i), str(s)], [str(x) for x in model], [str(x) for x in impl])
        if len(xs) < 10:
            xs.append((2, [[oq(F(i) if i is not None else None), oq(F(s) if s is not None else None), None]], mo))
    ctx.count("effective_timeout_pairs", len(cases))
    return xs


def wait_for_stream(ctx):
    """asyncio.wait_for on the virtual loop vs the model's `deadline`"""
    cases = [(st, T) for st in (F(0), F(5, 4)) for T in (None, 0, -1, F(1, 2), 2, 30)]
    out = ctx.model([(3, [q(st), oq(T)]) for st, T in cases])
    res = []

    async def main(net):
        loop = net.loop
        for st, T in cases:
            await asyncio.sleep(float(st))
            start = F(loop.time())
            fut = loop.create_future()

            async def never():
                await fut

            got = None
            try:
                # same shape as with_timeout: a coroutine handed to wait_for
                outer = asyncio.ensure_future(asyncio.wait_for(never(), None if T is None else float(T)))
                done, _ = await asyncio.wait([outer], timeout=200)
                if done:
                    try:
                        outer.result()
                    except asyncio.TimeoutError:
                        got = F(loop.time()) - start
                else:
                    outer.cancel()
            finally:
                if not fut.done():
                    fut.cancel()
            res.append(got)

    simnet.run(main)
    for (st, T), mo, got in zip(cases, out, res):
        ctx.case(("wait_for", str(st), str(T)))
        model = None if not mo else dec_q(mo) - st
        if model != got:
            ctx.disagree("wait_for", [str(st), str(T)], str(model), str(got))
    ctx.count("wait_for_cases", len(cases))


# Throttled configurations.  A speed limit makes the server pause BEFORE a read/write (bytes so far / limit); the pause is
# the server's own pacing, not peer silence, and is not under any timeout.  Each group has pauses LONGER than the
# timeouts it is combined with, on the control channel and on the data channel, with a peer that never stalls.
#   read64 : 64 B/s on everything the server reads.  Commands cost n/64 s (USER anonymous = 1/4 s); a 1000-byte block of
#            an upload costs 15.6 s (> socket_timeout 2 and 5).
#   read4  : 4 B/s.  USER anonymous = 16 bytes = 4 s (> idle_timeout 2), PWD = 5 bytes = 1.25 s (> 3/4): the commands of a
#            chatty peer queue up behind the pauses and the session must not be dropped for idleness.
#   write16: 16 B/s on everything the server writes: every reply costs 0.5 - 3 s (> socket_timeout 3/4 and 2) before the
#            next reply or data block may be written, to a peer that reads everything at once.
# All delays are exact binary fractions (limits are powers of two, times are multiples of 1/2).
THROTTLES = {
    "read64": (
        {"read_speed_limit": 64},
        ("login", "login_pwd", "login_slow", "retr_noconn", "retr_hold", "stor", "stor_burst"),
        [(2, None, 2), (5, 5, 2), (30, 2, 5), (None, 2, 2), (5, None, None), (0, 5, 2), (5, 0, 2), (None, 5, None)],
    ),
    "read4": (
        {"read_speed_limit": 4},
        ("chatty", "login_pwd", "login_slow"),
        [(2, None, 2), (2, 5, None), (5, 2, 2), (F(3, 4), None, None), (None, 2, 2)],
    ),
    "write16": (
        {"write_speed_limit": 16},
        ("chatty", "login_pwd", "retr_small", "list_ok", "retr_noconn"),
        [(None, F(3, 4), 2), (5, F(3, 4), 2), (30, 2, 5), (None, 2, None), (5, None, 2)],
    ),
}
THROTTLE = THROTTLES["read64"][0]


def throttle_eps(obs, throttle=None):
    """allowance for a throttled configuration: the throttle waits that precede the server's reads (so the arming of
    the control readline) and writes (so the instants at which the peer sees replies) are not under any timeout; they
    add up to at most (bytes read so far) / read limit + (bytes written so far) / write limit"""
    throttle = THROTTLE if throttle is None else throttle
    eps = F(0)
    rl, wl = throttle.get("read_speed_limit"), throttle.get("write_speed_limit")
    if rl:
        nbytes = sum(len(a) + 2 for kind, _, a in obs["events"] if kind == "cmd")
        nbytes += sum(a for kind, _, a in obs["events"] if kind == "dsend")
        eps += F(nbytes, rl)
    if wl:
        nbytes = sum(len(l.encode()) + 2 for _, l in obs["replies"]) + obs.get("data_read", 0)
        eps += F(nbytes, wl)
    return eps


def throttled_cases(thorough=False):
    for tag, (thr, names, cfgs) in THROTTLES.items():
        if thorough:  # every combination of the values that are shorter / longer than the group's pauses
            cfgs = cfgs + [c for c in itertools.product((None, F(3, 4), 2, 5), (None, F(3, 4), 2, 5), (None, 2)) if c not in cfgs]
        cases = [(name, k, cfg) for name in names for cfg in cfgs for k in range(1, len(SCRIPTS[name]) + 1)]
        yield tag, thr, cases


def correspondence(ctx, thorough=None):
    rng = ctx.rng
    thorough = (ctx.tier == "thorough") if thorough is None else thorough
    have_model = ctx.exe is not None
    ctx.extra["rule"] = (
        "cases = script (19 scripted sessions: login, PWD, PASV/EPSV + RETR/STOR/LIST/MLSD with the data channel connected "
        "early / late / never / held) x prefix length k (the peer stalls after k steps: every event index) x (idle, socket, "
        "wait_future) in {None,0,2,5,30}^3 (all 125 for 6 scripts, a covering sample for the others in the quick tier; all in "
        "thorough) + the witnesses of the repaired finding F16 (idle_timeout=0 / socket_timeout=0) as ordinary cases + three "
        "throttled groups (read 64 B/s, read 4 B/s, write 16 B/s: throttle pauses longer than the timeouts on the control and "
        "the data channel, peers that never stall) + StreamIO effective-timeout pairs + wait_for cases. A case is non-trivial when its "
        "(script, k, configuration) triple is new; every case runs the real server once on the virtual clock."
    )
    xs = []
    if have_model:
        xs += effective_timeouts_stream(ctx)
        wait_for_stream(ctx)
    # first, so that a return of the repaired defect is reported with its recorded replay
    fw = former_witnesses()
    ctx.count("former_witness_cases", len(fw))
    run_matrix(ctx, fw, stream="former-witness")
    cases = []
    for name, sc in SCRIPTS.items():
        for cfg in combos(rng, name, thorough):
            for k in range(0, len(sc) + 1):
                if k == 0 and name != "login":
                    continue  # the empty prefix is the same session for every script
                cases.append((name, k, cfg))
    if thorough:
        for _ in range(160):
            sc = random_script(rng)
            for cfg in combos(rng, "random", True):
                for k in range(3, len(sc) + 1):
                    cases.append(("random", k, cfg, sc))
        ctx.count("random_scripts", 160)
    # idle_timeout = 0 together with socket_timeout = 0: two deadlines at the very start of the session, whose order
    # is a race in asyncio; run those last, so that the first failing input reported is preferably a deterministic one
    cases.sort(key=lambda c: c[2][0] == 0 and c[2][1] == 0)
    ctx.count("matrix_cases", len(cases))
    xs += run_matrix(ctx, cases)
    # throttled configurations: speed limit x timeout, throttle pauses longer than the timeouts, peers that never stall
    for tag, thr, tcases in throttled_cases(thorough):
        ctx.count(f"throttled_cases:{tag}", len(tcases))
        xs += run_matrix(ctx, tcases, throttle=thr, stream="throttled-" + tag)
    if not have_model:
        return
    from .. import core

    ok, out = core.vm_crosscheck(EXTRACT, xs[:40])
    ctx.extra["vm_compute_crosscheck"] = {"cases": len(xs[:40]), "agree": ok}
    if not ok:
        ctx.obligation_broken("extraction-crosscheck", out)
    ctx.extra["level_text"] = LEVEL_TEXT
    ctx.extra["partial_because"] = (
        "wall-clock promptness ('promptly after') depends on event-loop latency, OS timers and TCP, which the timed model "
        "cannot exhibit: the theorems and the agreement with the real server are about virtual time"
    )
    ctx.extra["epsilon"] = (
        "0 in virtual time without throttle (exact equality is checked). Throttled configurations (read 64 B/s, read 4 B/s, "
        "write 16 B/s): the throttle sleep precedes the timed read/write and is not under the timeout, so a release may come up to "
        "(bytes read so far)/read limit + (bytes written so far)/write limit later than the bound and never earlier; the model is "
        "given the observed start instants of the timed reads and must still predict the release exactly (write-throttled "
        "transfers: property oracle only)."
    )


def search(ctx):
    """failing-input search when an obligation or the correspondence is broken: the thorough corpus, judged by the
    property oracle (and by the model when there is one)"""
    if ctx.violations or (ctx.tier == "thorough" and ctx.exe is not None and ctx.traces_impl):
        return
    try:
        correspondence(ctx, thorough=True)
    except Exception as e:
        ctx.notes.append(f"search aborted: {e!r}")


def replay(ctx, data):
    r = data.get("replay", {})
    if "script" not in r:
        print("replay payload:", data)
        return False
    def val(x):
        if x is None:
            return None
        x = F(x)
        return int(x) if x.denominator == 1 else x

    cfg = tuple(val(x) for x in r["cfg"])
    thr = r.get("throttle")
    steps = deser_script(r["steps"]) if "steps" in r else SCRIPTS[r["script"]]
    obs = run_case(steps, r["k"], cfg, throttle=thr)
    print("events:", [(k, str(t), a) for k, t, a in obs["events"]])
    print("replies:", [(str(t), l) for t, l in obs["replies"]])
    print("eof:", obs["eof"], "data_closed:", obs["data_closed"], "ledger:", obs["ledger"])
    bad = oracle(obs, cfg, throttle_eps(obs, thr) if thr else F(0))
    for key, msg in bad:
        print("ORACLE:", key, msg)
    return not any(key == r.get("key") for key, _ in bad) and not bad
