"""C18 — the shipped storage backends are interchangeable.

Correspondence
 (a) coq/Model/MemFS.v against the REAL MemoryPathIO and coq/Model/PosixFS.v against the REAL
     PathIO in a temporary directory (real kernel), on bounded-exhaustive and random operation
     sequences: result-or-failure (+ inner exception class) and the tree after every operation;
 (b) REAL PathIO against REAL AsyncPathIO on the same sequences (the API half of the property);
 (c) REAL aioftp.Server on MemoryPathIO / PathIO / AsyncPathIO over loopback, raw protocol client:
     reply classes, transferred bytes and trees compared three-way after every command (the
     property oracle), and against coq/Model/BackendSrv.v over MemFS / PosixFS (the tie of the
     server-level theorems);
 (a3) REAL MemoryPathIO against REAL PathIO on every operation that the model places inside the proved
     API agreement domain `api_ok` (the statement of C18_api_mem_posix_agree_partial on the real code), and
     the five excluded-cell witnesses re-run on the real backends."""
import asyncio
import itertools
import os
import shutil
import tempfile

from .. import core, sx
from .. import c18_drive as D

ID = "C18"
EXTRACT = "ExC18"
TECHNIQUE = (
    "Coq proof (per-operation agreement of two executable file-system models under the server's guard "
    "preconditions, composed over all command sequences; the API-level agreement domain with vm_compute witnesses for "
    "its excluded cells) + py2v-regenerated method table of PathIO/AsyncPathIO/MemoryPathIO with closed obligations; "
    "models tied to the real MemoryPathIO, to real PathIO on the real kernel and to three real FTP servers by "
    "differential correspondence"
)
LEVEL_TEXT = (
    "Proved (Closed under the global context): C18_backends_agree - for every tree, every pending rename_from and every "
    "command sequence without a mutation aimed at the root itself (the property's own exclusion), the server model over "
    "MemFS and over PosixFS gives identical replies, payloads and trees after every command, and a failing command "
    "changes nothing; C18_three_backends_agree adds any backend with PathIO's outcomes (AsyncPathIO); per-operation "
    "agreement lemmas for mkd/rmd/dele/rnto/stor/appe/retr/list/cwd under exactly the handler's PathConditions (RNTO and "
    "STOR/APPE without further conditions since MemoryPathIO's r+b open and rename were repaired: F06, F07a, F07b, F17 "
    "are `fixed`; their four witnesses are kept as computed cases C18_former_*_agrees and as corpus sessions); "
    "C18_rename_inside_is_componentwise / C18_rename_sibling_extension_not_inside / C18_rename_sibling_extension_agree - "
    "rename's 'destination inside source' test is on path components: a sibling whose name extends the source's (d -> d2, "
    "report -> report.bak), at every depth, is outside, and the in-memory rename to it succeeds and moves the entry as on disk; "
    "C18_fs_backends_equal from the closed obligation same_calls Gen.PathIOTable.table = true; "
    "C18_api_mem_posix_agree_partial / C18_open_matrix_agree - on the decidable domain api_ok (every query, mkdir with "
    "every flag, rmdir/unlink, rename onto a missing destination, open in every mode with every seek/read/write script "
    "inside the matrix) MemFS and PosixFS agree after every operation of every sequence, with a *_cell_refuted witness "
    "for every excluded cell (none reachable through the server); C18_retr_blocks_payload (the block loop of RETR "
    "delivers what one read(-1) returns, for every block size). The file-system models are hand-written: MemFS is tied "
    "to the real MemoryPathIO, PosixFS to the real kernel through PathIO, the server model to three real servers, by "
    "bounded-exhaustive + random differential runs; so: proof about the models + sampled agreement with the code."
)
LEVEL_NOTE = (
    "Trusted: Coq kernel, extraction cross-checked by vm_compute, harness, py2v. Modelled not verified: the kernel "
    "file system and pathlib (validated on the real kernel), io.BytesIO, permissions/umask, symlinks, name validity "
    "limits (NUL, NAME_MAX), times; transfers are sequentialised; write()'s return value is ignored."
)
TRUSTED = [
    "PosixFS.v is a model of Linux + pathlib 3.12 (path resolution, mkdir/rmdir/unlink/rename/open semantics); it is "
    "validated against the real kernel via real PathIO in a temporary directory on every run, not proved",
    "run_in_executor / wait_for(coro, None) return the wrapped callable's result or exception unchanged (modelled as "
    "the identity; exercised by the PathIO-vs-AsyncPathIO two-way run)",
]
ASSUMPTIONS = [
    "modelled, not verified: kernel file system, pathlib, io.BytesIO, asyncio executor",
    "outside the model: permissions/umask (the check runs as the file owner), symlinks, names a real file system rejects "
    "(NUL, longer than NAME_MAX), ctime/mtime, concurrent sessions (C17), mutations aimed at the virtual root itself",
]

MODE_IDX = {"rb": 0, "wb": 1, "ab": 2, "r+b": 3, "bad": 4}
ERRNO_BY_CLASS = {
    "FileNotFoundError": 2, "NotADirectoryError": 20, "FileExistsError": 17, "IsADirectoryError": 21,
    "ValueError": 100, "AttributeError": 101, "UnsupportedOperation": 102,
}


# ---------------------------------------------------------------------------------------------
# encodings
def P(s):
    """'d/e' -> ['d', 'e'];  '' -> []"""
    return [x for x in s.split("/") if x]


def enc_node(c):
    if isinstance(c, bytes):
        return [0, c]
    return [1, [[n, enc_node(x)] for n, x in c]]


def dec_node(m):
    if m[0] == 0:
        return bytes(m[1])
    return [[sx.txt(e[0]), dec_node(e[1])] for e in m[1]]


def enc_op(op):
    t = op[0]
    if t in ("exists", "is_dir", "is_file"):
        return [{"exists": 0, "is_dir": 1, "is_file": 2}[t], op[1]]
    if t == "mkdir":
        return [3, op[1], bool(op[2]), bool(op[3])]
    if t in ("rmdir", "unlink", "list", "stat"):
        return [{"rmdir": 4, "unlink": 5, "list": 6, "stat": 7}[t], op[1]]
    if t == "rename":
        return [8, op[1], op[2]]
    if t == "open":
        hs = []
        for h in op[3]:
            hs.append([{"seek": 0, "read": 1, "write": 2}[h[0]], h[1]])
        return [9, op[1], MODE_IDX[op[2]], hs]
    raise AssertionError(op)


def err_code(cls, errno, backend):
    if cls == "UnsupportedOperation":
        return 102
    if errno is not None:
        return errno
    if cls == "OSError" and backend == "memory":
        return 39  # MemoryPathIO.rmdir: OSError("Directory not empty")
    return ERRNO_BY_CLASS.get(cls, -1)


def canon_impl_result(r, backend, op):
    """result of c18_drive.api_op -> comparable value (same shape as canon_model_result)"""
    if r[0] == "err":
        return ("err", err_code(r[1], r[2], backend))
    if r[0] == "exc":
        return ("exc", r[1])
    v = r[1]
    t = op[0]
    if t in ("exists", "is_dir", "is_file"):
        return ("ok", bool(v))
    if t in ("mkdir", "rmdir", "unlink", "rename"):
        return ("ok", None)
    if t == "stat":
        return ("ok", tuple(v))
    if t == "list":
        return ("ok", ("names", tuple(v)))
    out = []
    for h, hop in zip(v, op[3]):  # open script
        if h[0] == "err":
            out.append(("err", err_code(h[1], h[2], backend)))
        elif hop[0] == "read":
            out.append(("bytes", h[1]))
        elif hop[0] == "write":
            out.append(("unit",))   # None on MemoryPathIO, the byte count on files: not modelled
        else:
            out.append(("int", h[1]))
    return ("ok", ("open", tuple(out)))


def canon_model_result(m, script=None, sort_names=False):
    if m[0] == -1:
        return ("err", m[1])
    v = m[1]
    k = v[0]
    if k == 0:
        return ("ok", None)
    if k == 1:
        return ("ok", bool(v[1]))
    if k == 2:
        names = [sx.txt(n) for n in v[1]]
        return ("ok", ("names", tuple(sorted(names) if sort_names else names)))
    if k == 3:
        return ("ok", ("d",) if v[1] else ("f", v[2]))
    out = []
    for h in v[1]:
        if h[0] == -1:
            out.append(("err", h[1]))
        elif h[0] == 0:
            out.append(("int", h[1]))
        elif h[0] == 1:
            out.append(("bytes", bytes(h[1])))
        else:
            out.append(("unit",))
    return ("ok", ("open", tuple(out)))


def blank_canon(c):
    """canonical result with every error class erased (FsAgreeDom.blank) and listings sorted"""
    if c[0] != "ok":
        return ("err",)
    v = c[1]
    if isinstance(v, tuple) and v and v[0] == "open":
        return ("ok", ("open", tuple(("err",) if h[0] == "err" else h for h in v[1])))
    if isinstance(v, tuple) and v and v[0] == "names":
        return ("ok", ("names", tuple(sorted(v[1]))))
    return c


# the witnesses of Props/C18.v C18_*_cell_refuted / C18_rename_over_existing_refuted, on TREES[0] (g = b"xyz12");
# ('r+b' on a missing file, the former fourth cell, is inside the domain since the repair of F06: it is in the
#  exhaustive length-1 alphabet and must agree there)
CELL_WITNESSES = [
    ("rb+write", 0, ("open", ["g"], "rb", [("write", b"Q")])),
    ("wb+read", 0, ("open", ["g"], "wb", [("write", b"Q"), ("seek", 0), ("read", -1)])),
    ("ab+seek+write", 0, ("open", ["g"], "ab", [("seek", 0), ("write", b"Q")])),
    ("rename-over-existing", 0, ("rename", ["g"], ["d"])),
]


def cell_witnesses(ctx, mem_w, pio_w):
    """each excluded cell of the matrix really diverges between real MemoryPathIO and real PathIO"""
    out = {}
    for name, ti, op in CELL_WITNESSES:
        if name not in mem_w or name not in pio_w:
            continue
        mb = blank_canon(canon_impl_result(mem_w[name][0], "memory", op))
        pb = blank_canon(canon_impl_result(pio_w[name][0], "pathio", op))
        div = not (mb == pb and D.canon(mem_w[name][1]) == pio_w[name][1])
        out[name] = "diverges" if div else "agrees"
        if not div:
            ctx.notes.append(f"matrix cell witness {name} no longer diverges on the real backends (the domain could be widened)")
    return out


def api_class(c):
    """what the API shows: success + value, or failure (every failure is PathIOError)"""
    return c if c[0] == "ok" else ("err",)


# ---------------------------------------------------------------------------------------------
# API-level universe
TREES = [
    [["d", [["f", b"abc"], ["e", []]]], ["g", b"xyz12"], ["k", []]],
    [["g", []], ["d", b"q"], [".h", b""]],
]
PATHS = ["d", "d/f", "d/e", "g", "m", "m/n", "g/x", "d/e/h"]
SCRIPTS = [
    [],
    [("write", b"PQ")],
    [("seek", 2), ("write", b"PQ")],
    [("seek", 7), ("write", b"Z")],
    [("read", 2), ("write", b"Q")],
    [("read", -1)],
    [("seek", 1), ("read", 2)],
    [("seek", 9), ("read", 1)],
    [("write", b"AB"), ("seek", 0), ("read", 1)],
    [("seek", -1), ("write", b"N")],
]


def alphabet(full=True):
    ops = []
    for ps in PATHS + [""]:
        p = P(ps)
        ops += [("exists", p), ("is_dir", p), ("is_file", p), ("list", p), ("stat", p)]
    for ps in PATHS:
        p = P(ps)
        for par in (False, True):
            for eok in (False, True):
                ops.append(("mkdir", p, par, eok))
        ops += [("rmdir", p), ("unlink", p)]
        for m in ("rb", "wb", "ab", "r+b"):
            for s in SCRIPTS if full else SCRIPTS[:4]:
                ops.append(("open", p, m, s))
        ops.append(("open", p, "bad", []))
    for a in PATHS:
        for b in PATHS:
            ops.append(("rename", P(a), P(b)))
    ops += [("mkdir", [], False, True), ("mkdir", [], True, False), ("open", [], "rb", []), ("open", [], "wb", []), ("unlink", [])]
    return ops


def mutators():
    """reduced alphabet for the first positions of longer sequences: what changes the tree"""
    ops = []
    for ps in PATHS:
        p = P(ps)
        ops += [("mkdir", p, False, False), ("mkdir", p, True, True), ("rmdir", p), ("unlink", p)]
        ops += [("open", p, "wb", [("write", b"PQ")]), ("open", p, "ab", [("write", b"R")]),
                ("open", p, "r+b", [("seek", 4), ("write", b"S")])]
    for a in PATHS:
        for b in PATHS:
            ops.append(("rename", P(a), P(b)))
    return ops


# ---- names that are string prefixes / extensions of one another -------------------------------------------------
# "destination lies inside source" (rename), "is below the base path", "is an ancestor" are relations on path
# COMPONENTS; on the path STRINGS `d2`, `d.bak`, `dd` start with `d` without lying below it.  Every source gets
# destinations whose last name extends / truncates / doubles its own name (siblings), paths below such a sibling
# (missing and existing), and true descendants -- for files and directories, at depths 1-4.
EXT_SUFFIXES = ["2", ".bak", "_"]


def ext_dests(ps):
    """destinations related to the source path `ps` ('d/e') by the characters of its last name"""
    parts = P(ps)
    parent, n = parts[:-1], parts[-1]
    sib = [n + x for x in EXT_SUFFIXES] + [n + n]
    out = [parent + [x] for x in sib]                                   # siblings whose name extends the source's
    if len(n) > 1 and n[:-1] not in (".", ".."):
        out.append(parent + [n[:-1]])                                   # ... and one that truncates it
    out += [parent + [x, "x"] for x in sib[:2]]                         # below such a sibling (missing: ENOENT everywhere)
    out += [parts + ["x"], parts + [n], parts + [n + "2"], parts + ["e", "x"]]   # true descendants (refused everywhere)
    return out


def ext_rename_sequences(tree_index, sources):
    """API level: [(tree index, ops)] -- rename to every related destination; there and back; into an EXISTING sibling
    directory whose name extends the source's; the same one level deeper (entry created first)"""
    seqs = []
    for ps in sources:
        a = P(ps)
        parent, n = a[:-1], a[-1]
        for b in ext_dests(ps):
            seqs.append((tree_index, [("rename", a, b)]))
        for x in EXT_SUFFIXES[:2]:
            sib = parent + [n + x]
            seqs.append((tree_index, [("rename", a, sib), ("rename", sib, a)]))
            seqs.append((tree_index, [("rename", a, sib), ("rename", sib, sib + ["sub"])]))
            seqs.append((tree_index, [("mkdir", sib, False, False), ("rename", a, sib + [n])]))
            seqs.append((tree_index, [("mkdir", sib, False, False), ("rename", a, sib + ["x"]), ("list", sib)]))
    return seqs


def api_ext_sequences():
    seqs = ext_rename_sequences(0, ["d", "d/f", "d/e", "g", "k"]) + ext_rename_sequences(1, ["d", "g", ".h"])
    deep = [
        ([("mkdir", P("d/e/h"), False, False)], "d/e/h"),
        ([("open", P("d/e/h"), "wb", [("write", b"deep")])], "d/e/h"),
        ([("mkdir", P("d/e/h"), False, False), ("open", P("d/e/h/i"), "wb", [("write", b"i")])], "d/e/h/i"),
    ]
    for setup, ps in deep:
        for ti, ops in ext_rename_sequences(0, [ps]):
            seqs.append((ti, setup + ops))
    return seqs


def random_op(rng):
    names = ["d", "e", "f", "g", "k", "m", "x", ".h", "d2", "dd", "g.bak", "f2"]

    def rp():
        if rng.random() < 0.7:
            return P(rng.choice(PATHS))
        return [rng.choice(names) for _ in range(rng.randint(1, 3))]

    r = rng.random()
    if r < 0.12:
        return (rng.choice(["exists", "is_dir", "is_file", "list", "stat"]), rp() if rng.random() < 0.9 else [])
    if r < 0.32:
        return ("mkdir", rp(), rng.random() < 0.5, rng.random() < 0.5)
    if r < 0.42:
        return (rng.choice(["rmdir", "unlink"]), rp())
    if r < 0.67:
        return ("rename", rp(), rp())
    script = []
    for _ in range(rng.randint(0, 4)):
        k = rng.random()
        if k < 0.3:
            script.append(("seek", rng.choice([0, 1, 2, 3, 5, 9, -1])))
        elif k < 0.6:
            script.append(("read", rng.choice([-1, 0, 1, 2, 10])))
        else:
            script.append(("write", bytes(rng.choice(b"ABCDE") for _ in range(rng.randint(0, 4)))))
    return ("open", rp(), rng.choice(["rb", "wb", "ab", "r+b", "rb", "wb", "ab", "r+b", "bad"]), script)


def op_json(op):
    def j(x):
        if isinstance(x, bytes):
            return "hex:" + x.hex()
        if isinstance(x, (list, tuple)):
            return [j(y) for y in x]
        return x
    return j(op)


def op_from_json(o):
    def u(x):
        if isinstance(x, str) and x.startswith("hex:"):
            return bytes.fromhex(x[4:])
        if isinstance(x, list):
            return [u(y) for y in x]
        return x
    o = u(o)
    if o[0] == "open":
        return ("open", o[1], o[2], [tuple(h) for h in o[3]])
    return tuple(o)


def tree_from_json(t):
    return [[n, bytes.fromhex(c) if isinstance(c, str) else tree_from_json(c)] for n, c in t]


# ---------------------------------------------------------------------------------------------
def api_sequences(ctx, thorough):
    rng = ctx.rng
    full = alphabet(True)
    mut = mutators()
    seqs = []
    for ti in range(len(TREES)):
        for o in full:
            seqs.append((ti, [o]))
    ctx.count("api_len1_exhaustive", len(seqs))
    ext = api_ext_sequences()
    seqs += ext
    ctx.count("api_rename_names_extending_one_another(siblings/descendants, files/dirs, depth 1-4)", len(ext))
    n2 = 0
    if thorough:
        for o1 in mut:
            for o2 in full:
                seqs.append((0, [o1, o2]))
                n2 += 1
    else:
        for o1 in mut:
            for o2 in rng.sample(full, 45):
                seqs.append((0, [o1, o2]))
                n2 += 1
    ctx.count("api_len2", n2)
    n3 = 100000 if thorough else 6000
    mut_list = mut
    for _ in range(n3):
        seqs.append((rng.choice([0, 0, 0, 1]), [rng.choice(mut_list), rng.choice(mut_list), rng.choice(full)]))
    ctx.count("api_len3_sampled", n3)
    nr = 30000 if thorough else 3000
    for _ in range(nr):
        seqs.append((rng.randrange(len(TREES)), [random_op(rng) for _ in range(rng.randint(2, 8))]))
    ctx.count("api_random_long", nr)
    return seqs


def run_api_level(ctx, tmp, thorough):
    seqs = api_sequences(ctx, thorough)
    enc_trees = [enc_node(t) for t in TREES]
    m_out = ctx.model([(0, [enc_trees[ti], [enc_op(o) for o in ops]]) for ti, ops in seqs])
    p_out = ctx.model([(1, [enc_trees[ti], [enc_op(o) for o in ops]]) for ti, ops in seqs])
    # per operation: inside the agreement domain `api_ok` (Model/FsAgreeDom.v), on the tree MemFS has reached
    ok_out = ctx.model([(5, [enc_trees[ti], [enc_op(o) for o in ops]]) for ti, ops in seqs])
    mem = D.ApiBackend("memory")
    pio = D.ApiBackend("pathio", os.path.join(tmp, "api_p"))
    apio = D.ApiBackend("asyncpathio", os.path.join(tmp, "api_a"))
    async_every = 1 if thorough else 4
    xcheck = []
    stats = {"ok": 0, "err": 0, "inside": 0, "outside": 0, "outside_diverging": 0}

    async def go():
        for k, (ti, ops) in enumerate(seqs):
            tree = TREES[ti]
            key = (ti, repr(ops))
            # ---- (a1) MemFS model vs real MemoryPathIO (ordered trees, ordered listings, inner class)
            real = await mem.run(tree, ops, ordered=True)
            ctx.traces_impl += 1
            ctx.case(("api-mem",) + key)
            for i, (op, (r, t_after)) in enumerate(zip(ops, real)):
                ic = canon_impl_result(r, "memory", op)
                mc = canon_model_result(m_out[k][i][0])
                mt = dec_node(m_out[k][i][1])
                stats["ok" if ic[0] == "ok" else "err"] += 1
                if ic != mc or mt != t_after:
                    ctx.disagree("memfs-vs-MemoryPathIO", {"tree": D.tree_json(tree), "ops": op_json(ops), "step": i},
                                 [str(mc), D.tree_json(mt)], [str(ic), D.tree_json(t_after)])
                    break
            # ---- (a2) PosixFS model vs real PathIO on the real kernel (sorted)
            realp = await pio.run(tree, ops)
            ctx.traces_impl += 1
            ctx.case(("api-posix",) + key)
            for i, (op, (r, t_after)) in enumerate(zip(ops, realp)):
                ic = canon_impl_result(r, "pathio", op)
                mc = canon_model_result(p_out[k][i][0], sort_names=True)
                mt = D.canon(dec_node(p_out[k][i][1]))
                if ic != mc or mt != t_after:
                    ctx.disagree("posixfs-vs-PathIO", {"tree": D.tree_json(tree), "ops": op_json(ops), "step": i},
                                 [str(mc), D.tree_json(mt)], [str(ic), D.tree_json(t_after)])
                    break
            # ---- (a3) the statement of C18_api_mem_posix_agree_partial on the REAL backends: while the sequence stays
            # inside the domain the model computes, real MemoryPathIO and real PathIO give the same result-or-failure
            # (error class blanked, also per call of a handle script) and the same tree
            ctx.case(("api-matrix",) + key)
            for i, op in enumerate(ops):
                if i >= len(real) or i >= len(realp) or i >= len(ok_out[k]):
                    break
                mb = blank_canon(canon_impl_result(real[i][0], "memory", op))
                pb = blank_canon(canon_impl_result(realp[i][0], "pathio", op))
                same = mb == pb and D.canon(real[i][1]) == realp[i][1]
                if not ok_out[k][i]:
                    stats["outside"] += 1
                    stats["outside_diverging"] += 0 if same else 1
                    break      # outside the domain the trees may differ from here on
                stats["inside"] += 1
                if not same:
                    ctx.disagree("api-matrix:MemoryPathIO-vs-PathIO-inside-the-proved-domain",
                                 {"tree": D.tree_json(tree), "ops": op_json(ops), "step": i},
                                 [str(mb), D.tree_json(D.canon(real[i][1]))], [str(pb), D.tree_json(realp[i][1])])
                    break
            # ---- (b) real PathIO vs real AsyncPathIO: the API half of the property (exact values)
            if k % async_every == 0:
                reala = await apio.run(tree, ops)
                ctx.traces_impl += 1
                ctx.case(("api-two-way",) + key)
                for i, (op, x, y) in enumerate(zip(ops, realp, reala)):
                    if x != y:
                        ctx.violation(
                            f"PathIO and AsyncPathIO differ on {op[0]} (step {i})",
                            {"key": f"api-two-way:{op[0]}", "kind": "api", "tree": D.tree_json(tree), "ops": op_json(ops),
                             "step": i, "pathio": [D.obs_json(x[0]), D.tree_json(x[1])],
                             "asyncpathio": [D.obs_json(y[0]), D.tree_json(y[1])]},
                        )
                        break
            if len(xcheck) < 40 and k % 97 == 0:
                xcheck.append((0, [enc_trees[ti], [enc_op(o) for o in ops]], m_out[k]))
                xcheck.append((1, [enc_trees[ti], [enc_op(o) for o in ops]], p_out[k]))

    mem_w, pio_w = {}, {}

    async def witnesses():
        for name, ti, op in CELL_WITNESSES:
            mem_w[name] = (await mem.run(TREES[ti], [op], ordered=True))[0]
            pio_w[name] = (await pio.run(TREES[ti], [op]))[0]
            ctx.traces_impl += 2

    loop = asyncio.new_event_loop()
    try:
        loop.run_until_complete(go())
        loop.run_until_complete(witnesses())
    finally:
        loop.run_until_complete(loop.shutdown_default_executor())
        loop.close()
        pio.cleanup()
        apio.cleanup()
    ctx.count("api_matrix_ops_inside_domain", stats["inside"])
    ctx.count("api_matrix_ops_outside_domain", stats["outside"])
    ctx.count("api_matrix_ops_outside_domain_really_diverging", stats["outside_diverging"])
    ctx.extra["matrix_cell_witnesses_on_real_code"] = cell_witnesses(ctx, mem_w, pio_w)
    ctx.count("api_ops_ok", stats["ok"])
    ctx.count("api_ops_failed", stats["err"])
    ctx.sample({"stream": "api", "tree": D.tree_json(TREES[0]), "ops": op_json(seqs[len(seqs) // 2][1])})
    return xcheck


# ---------------------------------------------------------------------------------------------
# API level, primitive steps: several handles open at once, other operations while a handle is open.
# The property's API half ("the two file-system backends agree on every operation sequence") and the theorem
# C18_fs_backends_equal quantify over sequences of the 14 backend operations, where _open / seek / read / write /
# close are SEPARATE operations; the open...close blocks of run_api_level are only the sub-language in which nothing
# happens between open and close.  Oracle: two-way equality of REAL PathIO and REAL AsyncPathIO (observation of every
# step and the tree on disk after it) -- not a specification of what an unflushed write must look like.
STEP_TREE = [["d", [["f", b"0123456789"], ["e", []]]], ["g", b"xyz12"], ["k", []]]
STEP_PATHS = ["d/f", "g", "m", "d/n", "d", "k/x/y"]
STEP_DATA = [b"PQ", b"", b"Z" * 100, b"b" * 8192, b"c" * 10000]     # below / at / above io.DEFAULT_BUFFER_SIZE


def step_observers(p):
    """what can look at a file (or its directory) while a handle on it is open"""
    parent = p[:-1]
    return [
        [("stat", p)], [("exists", p)], [("is_file", p)], [("list", parent)],
        [("h_open", 1, p, "rb"), ("h_read", 1, -1), ("h_close", 1)],
        [("h_open", 1, p, "r+b"), ("h_read", 1, 3), ("h_write", 1, b"!!"), ("h_close", 1)],
        [("h_open", 1, p, "ab"), ("h_write", 1, b"tail"), ("h_close", 1)],
        [("h_open", 1, p, "wb"), ("h_close", 1)],
        [("open", p, "rb", [("read", -1)])],
        [("unlink", p)], [("rename", p, ["moved"])], [("rename", ["g"], p)], [("mkdir", p, False, True)],
    ]


def step_sequences(ctx, thorough):
    rng = ctx.rng
    seqs = []
    writers = [
        [("h_write", 0, b"PQRSTUVWXY")],
        [("h_seek", 0, 4), ("h_write", 0, b"XY")],
        [("h_write", 0, b"end")],
        [("h_read", 0, 3), ("h_write", 0, b"Q")],
        [("h_write", 0, b"b" * 8192), ("h_write", 0, b"t")],
        [],
    ]
    for ps in ("d/f", "m", "d/n"):
        p = P(ps)
        for mode in ("wb", "ab", "r+b", "rb"):
            for w in writers:
                for obs in step_observers(p):
                    seqs.append([("h_open", 0, p, mode)] + w + obs + [("h_close", 0), ("stat", p), ("open", p, "rb", [("read", -1)])])
    ctx.count("api_steps_structured(mode x writes x observer-before-close)", len(seqs))
    if not thorough:
        seqs = rng.sample(seqs, 420) + [s_ for s_ in seqs if s_[0][3] != "rb" and s_[1:2] == [("h_write", 0, b"PQRSTUVWXY")]]
    n0 = len(seqs)

    def rpath():
        return P(rng.choice(STEP_PATHS))

    def rstep():
        r = rng.random()
        slot = rng.randrange(2)
        if r < 0.22:
            return ("h_open", slot, rpath(), rng.choice(["rb", "wb", "ab", "r+b", "wb", "r+b"]))
        if r < 0.42:
            return ("h_write", slot, rng.choice(STEP_DATA + [b"PQ", b"abc", b"Z"]))
        if r < 0.50:
            return ("h_seek", slot, rng.choice([0, 1, 4, 10, 20, 8192]))
        if r < 0.60:
            return ("h_read", slot, rng.choice([-1, 0, 1, 4, 100]))
        if r < 0.70:
            return ("h_close", slot)
        if r < 0.85:
            return (rng.choice(["stat", "exists", "is_file", "list"]), rpath())
        if r < 0.90:
            return ("open", rpath(), "rb", [("read", -1)])
        if r < 0.94:
            return ("unlink", rpath())
        if r < 0.97:
            return ("rename", rpath(), rpath())
        return ("mkdir", rpath(), True, True)

    nr = 20000 if thorough else 1200
    for _ in range(nr):
        seqs.append([rstep() for _ in range(rng.randint(3, 10))])
    ctx.count("api_steps_random", nr)
    ctx.count("api_steps_structured_run", n0)
    return seqs


def compare_steps(x, y):
    """first step on which two runs differ, or None"""
    for i, (a, b) in enumerate(zip(x, y)):
        if a != b:
            return i
    return None if len(x) == len(y) else min(len(x), len(y))


def run_api_steps(ctx, tmp, thorough, seqs=None):
    seqs = seqs if seqs is not None else step_sequences(ctx, thorough)
    pio = D.ApiBackend("pathio", os.path.join(tmp, "steps_p"))
    apio = D.ApiBackend("asyncpathio", os.path.join(tmp, "steps_a"))
    stats = {"steps": 0, "while_open": 0}

    async def go():
        for steps in seqs:
            x = await pio.run_steps(STEP_TREE, steps)
            y = await apio.run_steps(STEP_TREE, steps)
            ctx.traces_impl += 2
            ctx.case(("api-steps", repr(steps)))
            stats["steps"] += len(x)
            open_now = set()
            for st in steps:
                if st[0] == "h_open":
                    open_now.add(st[1])
                elif st[0] == "h_close":
                    open_now.discard(st[1])
                elif open_now and not st[0].startswith("h_"):
                    stats["while_open"] += 1
            i = compare_steps(x, y)
            if i is not None:
                # prefer the first step whose RESULT differs (visible through the backend API itself: stat, a second
                # handle, ...) over the first step after which only the on-disk tree differs
                j = compare_steps([a[0] for a in x], [b[0] for b in y])
                tree_only = j is None
                i = i if tree_only else j
                st = steps[i] if i < len(steps) else ("h_close", "at-end")
                ctx.violation(
                    f"PathIO and AsyncPathIO differ on step {i} ({st[0]}) of a primitive-step sequence"
                    + (" (tree on disk only)" if tree_only else " (result of the operation)"),
                    {"key": f"api-two-way-steps:{'tree-after:' if tree_only else ''}{st[0]}", "kind": "api-steps",
                     "tree": D.tree_json(STEP_TREE), "steps": op_json(steps), "step": i,
                     "pathio": [D.obs_json(x[i][0]), D.tree_json(x[i][1])] if i < len(x) else None,
                     "asyncpathio": [D.obs_json(y[i][0]), D.tree_json(y[i][1])] if i < len(y) else None},
                )

    loop = asyncio.new_event_loop()
    try:
        loop.run_until_complete(go())
    finally:
        loop.run_until_complete(loop.shutdown_default_executor())
        loop.close()
        pio.cleanup()
        apio.cleanup()
    ctx.count("api_steps_total", stats["steps"])
    ctx.count("api_steps_other_operation_while_a_handle_is_open", stats["while_open"])
    if seqs:
        ctx.sample({"stream": "api-steps", "tree": D.tree_json(STEP_TREE), "steps": op_json(seqs[len(seqs) // 3])})


def step_from_json(o):
    o = op_from_json(o)
    if o[0] == "h_open":
        return ("h_open", o[1], list(o[2]), o[3])
    return o


# ---------------------------------------------------------------------------------------------
# FTP level
FTP_INIT = [["d", [["f", b"abc"], ["e", []]]], ["g", b"xyz12"], ["k", []], [".h", b"h"]]
FTP_PATHS = ["d", "d/f", "d/e", "g", "k", "m", "m/n", "g/x", "d/e/h", "k/d"]
CMD_IDX = {"MKD": 0, "RMD": 1, "DELE": 2, "RNFR": 3, "RNTO": 4, "STOR": 5, "APPE": 6, "RETR": 7, "LIST": 8, "MLSD": 9, "CWD": 10, "MLST": 11}


def ftp_cmds1():
    out = []
    for p in FTP_PATHS:
        for v in ("MKD", "RMD", "DELE", "CWD", "MLST", "RNFR"):
            out.append((v, "/" + p))
        for r in (None, 0, 2, 7):
            out.append(("STOR", "/" + p, b"PQ", r))
            out.append(("APPE", "/" + p, b"PQ", r))
        for r in (None, 2, 7):
            out.append(("RETR", "/" + p, r))
        out.append(("LIST", "/" + p, None))
        out.append(("MLSD", "/" + p, None))
    out += [("LIST", "/", None), ("MLSD", "/", None), ("CWD", "/"), ("MLST", "/"), ("MKD", "/"), ("PWD",), ("CDUP",)]
    return out


def ftp_mutators():
    out = []
    for p in FTP_PATHS:
        out += [("MKD", "/" + p), ("RMD", "/" + p), ("DELE", "/" + p), ("STOR", "/" + p, b"PQR", None),
                ("APPE", "/" + p, b"S", None), ("STOR", "/" + p, b"T", 1)]
    return out


def ftp_ext_sessions(rng, thorough):
    """sessions over names that are string prefixes / extensions of one another (see ext_dests): RNFR x RNTO for files and
    directories at depths 1-4, siblings and true descendants, there and back, into an existing sibling directory; and the
    other verbs on a tree that holds both a name and its extensions"""
    fp = lambda parts: "/" + "/".join(parts)
    sources = [
        ([], "d"), ([], "d/f"), ([], "d/e"), ([], "g"), ([], "k"), ([], ".h"),
        ([("MKD", "/d/e/h")], "d/e/h"),
        ([("STOR", "/d/e/h", b"deep", None)], "d/e/h"),
        ([("MKD", "/d/e/h"), ("STOR", "/d/e/h/report", b"12345", None)], "d/e/h/report"),
    ]
    seqs = []
    for setup, ps in sources:
        a = P(ps)
        parent, n = a[:-1], a[-1]
        for b in ext_dests(ps):
            seqs.append(setup + [("RNFR", fp(a)), ("RNTO", fp(b))])
        for x in EXT_SUFFIXES[:2]:
            sib = parent + [n + x]
            seqs.append(setup + [("RNFR", fp(a)), ("RNTO", fp(sib)), ("RNFR", fp(sib)), ("RNTO", fp(a))])
            seqs.append(setup + [("RNFR", fp(a)), ("RNTO", fp(sib)), ("RNFR", fp(sib)), ("RNTO", fp(sib + ["sub"]))])
            seqs.append(setup + [("MKD", fp(sib)), ("RNFR", fp(a)), ("RNTO", fp(sib + [n]))])
            seqs.append(setup + [("MKD", fp(sib)), ("RNFR", fp(a)), ("RNTO", fp(sib + ["x"])), ("LIST", fp(sib), None)])
    n_ren = len(seqs)
    # the other verbs where a name and its extensions live side by side
    both = [("MKD", "/d2"), ("STOR", "/g.bak", b"B", None), ("STOR", "/d/f2", b"F2", None)]
    for ps in ("d2", "g.bak", "d", "g", "d/f2", "d/f", "d2/f", "dd", "g.ba"):
        for c in (("MKD", "/" + ps), ("RMD", "/" + ps), ("DELE", "/" + ps), ("CWD", "/" + ps), ("MLST", "/" + ps),
                  ("LIST", "/" + ps, None), ("RETR", "/" + ps, None), ("STOR", "/" + ps, b"PQ", None),
                  ("APPE", "/" + ps, b"PQ", 1), ("STOR", "/" + ps, b"PQ", 1)):
            seqs.append(both + [c, ("LIST", "/", None)])
    n_verbs = len(seqs) - n_ren
    pool = ["d", "d2", "d.bak", "dd", "d/f", "d/f2", "d/ff", "d/e", "d/e2", "d/e/e", "d2/d", "g", "g2", "g.bak", "k", "kk", "k/k"]
    cmds = []
    for ps in pool:
        cmds += [("RNFR", "/" + ps), ("RNFR", "/" + ps), ("RNTO", "/" + ps), ("RNTO", "/" + ps), ("MKD", "/" + ps),
                 ("RMD", "/" + ps), ("DELE", "/" + ps), ("STOR", "/" + ps, b"PQR", None), ("APPE", "/" + ps, b"S", 1)]
    nr = 1500 if thorough else 60
    for _ in range(nr):
        seqs.append([rng.choice(cmds) for _ in range(rng.randint(3, 8))])
    return seqs, n_ren, n_verbs, nr


def enc_cmd(c):
    v = c[0]
    if v in ("STOR", "APPE"):
        return [CMD_IDX[v], P(c[1]), c[3] or 0, [c[2]] if c[2] else []]
    if v == "RETR":
        return [CMD_IDX[v], P(c[1]), c[2] or 0]
    return [CMD_IDX[v], P(c[1])]


def modelable(c):
    return c[0] in CMD_IDX


def model_obs(m, c):
    """decoded model reply -> the shape of c18_drive.ftp_step's observation (REST reply dropped)"""
    codes, pay = m[0], m[1]
    obs = [str(x) for x in codes]
    v = c[0]
    if v in ("RETR", "LIST", "MLSD") and len(codes) == 2:
        if pay[0] == 1:
            obs.append(bytes(pay[1]))
        elif pay[0] == 2:
            obs.append(sorted([sx.txt(e[0]), "d"] if e[1] else [sx.txt(e[0]), "f", e[2]] for e in pay[1]))
        else:
            obs.append(None)
    if v == "MLST" and pay[0] == 2:
        e = pay[1][0]
        obs.append(["d"] if e[1] else ["f", e[2]])
    return obs


def impl_obs_for_model(obs, c):
    o = list(obs)
    v = c[0]
    if v in ("STOR", "APPE", "RETR", "LIST", "MLSD") and c[-1] is not None and o:
        o = o[1:]  # the REST reply
    if v == "MLST" and len(o) == 2:
        o[1] = o[1][1:]  # the model does not carry the name
    return o


def lookup_tree(tree, parts):
    cur = tree
    for x in parts:
        if isinstance(cur, bytes):
            return None
        nxt = [c for n, c in cur if n == x]
        if not nxt:
            return None
        cur = nxt[0]
    return cur


def classify(cmds, i, pre_tree, rename_from, obs3, trees3):
    """name the shape of a three-way divergence at step i from the history and the observed facts
    (independent of the Coq model).  Keys listed in known_findings.json are genuine recorded defects."""
    c = cmds[i]
    v = c[0]
    mem, pa, apa = obs3
    fs_agree = pa == apa and trees3[1] == trees3[2]
    if not fs_agree:
        return f"ftp:fs-backends-differ:{v.lower()}"
    if v in ("STOR", "APPE") and c[3]:
        parts = P(c[1])
        if parts and isinstance(lookup_tree(pre_tree, parts[:-1]), list) and lookup_tree(pre_tree, parts) is None:
            if mem[-1].startswith("2") and pa[-1].startswith("4") and trees3[1] == pre_tree:
                return f"ftp:rest+{v.lower()}:missing-file-created-by-memory"
    if v == "RNTO" and rename_from is not None:
        a, b = P(rename_from), P(c[1])
        src = lookup_tree(pre_tree, a)
        dparent = lookup_tree(pre_tree, b[:-1]) if b else None
        disk_inert = trees3[1] == pre_tree and pa[0].startswith("4")
        if a and b and src is not None and isinstance(dparent, bytes) and disk_inert and mem[0].startswith("4") \
                and trees3[0] != pre_tree:
            return "ftp:rnto:parent-is-file-memory-removes-source"
        if a and b and isinstance(src, list) and isinstance(dparent, list) and b[: len(a)] == a and len(b) > len(a) \
                and disk_inert and mem[0].startswith("2"):
            return "ftp:rnto:into-own-subtree-memory-loses-subtree"
        if a and b and src is not None and b[: len(a)] != a and "/".join(b).startswith("/".join(a)) \
                and mem[0].startswith("4") and pa[0].startswith("2"):
            # shape: the destination is outside the source by components, its path string starts with the source's
            return "ftp:rnto:destination-string-extends-source-refused-by-memory"
        if a and a == b and src is None and disk_inert and mem[0].startswith("2") and trees3[0] == pre_tree:
            return "ftp:rnto:same-path-source-gone-memory-says-ok"
    return f"ftp:three-way:{v.lower()}"


def ftp_sequences(ctx, thorough):
    rng = ctx.rng
    c1 = ftp_cmds1()
    mut = ftp_mutators()
    seqs = [list(x) for x in FORMER_WITNESSES.values()] + [[c] for c in c1]
    ctx.count("ftp_former_finding_witnesses", len(FORMER_WITNESSES))
    ctx.count("ftp_len1_exhaustive", len(c1))
    n = len(seqs)
    for a in FTP_PATHS:
        for b in FTP_PATHS:
            seqs.append([("RNFR", "/" + a), ("RNTO", "/" + b)])
    ctx.count("ftp_rename_pairs_exhaustive", len(seqs) - n)
    n = len(seqs)
    mids = [("DELE",), ("RMD",), ("MKD",)]
    triples = []
    for a in FTP_PATHS:
        for mid in ftp_mutators():
            for b in FTP_PATHS:
                triples.append([("RNFR", "/" + a), mid, ("RNTO", "/" + b)])
    pairs = [[m, c] for m in mut for c in c1]
    if thorough:
        seqs += triples + pairs
    else:
        seqs += rng.sample(triples, 250) + rng.sample(pairs, 250)
        # the same-path shape needs the middle command to remove exactly the source
        seqs += [[("RNFR", "/d/f"), ("DELE", "/d/f"), ("RNTO", "/d/f")], [("RNFR", "/k"), ("RMD", "/k"), ("RNTO", "/k")]]
    ctx.count("ftp_len2_len3_structured", len(seqs) - n)
    ext, n_ren, n_verbs, n_rand = ftp_ext_sessions(rng, thorough)
    seqs += ext
    ctx.count("ftp_rename_names_extending_one_another(siblings/descendants, files/dirs, depth 1-4)", n_ren)
    ctx.count("ftp_verbs_on_names_extending_one_another", n_verbs)
    ctx.count("ftp_random_names_extending_one_another", n_rand)
    nr = 6000 if thorough else 250
    allc = c1 + mut + [("RNTO", "/" + p) for p in FTP_PATHS]
    for _ in range(nr):
        seqs.append([rng.choice(allc) for _ in range(rng.randint(3, 7))])
    ctx.count("ftp_random_long", nr)
    return seqs


def run_ftp_level(ctx, tmp, thorough, seqs=None):
    seqs = seqs if seqs is not None else ftp_sequences(ctx, thorough)
    enc_init = enc_node(FTP_INIT)
    model_in_m, model_in_p, midx = [], [], []
    for k, s in enumerate(seqs):
        if all(modelable(c) for c in s):
            midx.append(k)
            model_in_m.append((2, [enc_init, [enc_cmd(c) for c in s]]))
            model_in_p.append((3, [enc_init, [enc_cmd(c) for c in s]]))
    mm = dict(zip(midx, ctx.model(model_in_m))) if midx else {}
    mp = dict(zip(midx, ctx.model(model_in_p))) if midx else {}
    xcheck = []
    for k in midx[:: max(1, len(midx) // 20)][:20]:
        xcheck.append((2, [enc_init, [enc_cmd(c) for c in seqs[k]]], mm[k]))
        xcheck.append((3, [enc_init, [enc_cmd(c) for c in seqs[k]]], mp[k]))
    verbs = {}

    async def go():
        bs = [D.FtpBackend("memory"), D.FtpBackend("pathio", os.path.join(tmp, "ftp_p")),
              D.FtpBackend("asyncpathio", os.path.join(tmp, "ftp_a"))]
        for b in bs:
            await b.start()
        try:
            for k, s in enumerate(seqs):
                rs = await asyncio.gather(*[b.run(FTP_INIT, s) for b in bs])
                ctx.traces_impl += 3
                if real_time_outcome(rs, len(s)) and retries["left"] > 0:
                    # loopback sockets on the REAL clock: a step that ran out of wall time, lost its connection or ended a
                    # session early may be the machine's load, not the backend.  Repeat the session once, one backend at
                    # a time, with generous limits, and judge that run (at most a few times per check: a mutant that
                    # really hangs is still reported, inside the budget).
                    retries["left"] -= 1
                    retries["used"] += 1
                    old = D.STEP_TIMEOUT
                    D.STEP_TIMEOUT = 30.0
                    try:
                        rs = [await b.run(FTP_INIT, s) for b in bs]
                    finally:
                        D.STEP_TIMEOUT = old
                    ctx.traces_impl += 3
                ctx.case(("ftp", repr(s)))
                pre = D.canon(FTP_INIT)
                rename_from = None
                for i, c in enumerate(s):
                    verbs[c[0]] = verbs.get(c[0], 0) + 1
                    if any(i >= len(r) for r in rs):
                        ctx.violation("a session ended early on one backend",
                                      {"key": "ftp:session-ended", "kind": "ftp", "cmds": op_json(s), "step": i})
                        break
                    obs3 = [D.reply_class(r[i][0]) for r in rs]
                    trees3 = [r[i][1] for r in rs]
                    # ---- tie of the server-level models (memory / pathio)
                    if k in mm:
                        for which, mod, bi in (("srv-model(MemFS)-vs-server(MemoryPathIO)", mm, 0),
                                               ("srv-model(PosixFS)-vs-server(PathIO)", mp, 1)):
                            mo = model_obs(mod[k][i][0], c)
                            mt = D.canon(dec_node(mod[k][i][1]))
                            io_ = impl_obs_for_model(rs[bi][i][0], c)
                            if mo != io_ or mt != trees3[bi]:
                                ctx.disagree(which, {"cmds": op_json(s), "step": i}, [D.obs_json(mo), D.tree_json(mt)],
                                             [D.obs_json(io_), D.tree_json(trees3[bi])])
                    # ---- the property oracle: three-way equality; a failing command changes nothing
                    diverged = not (obs3[0] == obs3[1] == obs3[2] and trees3[0] == trees3[1] == trees3[2])
                    failing_mutates = [
                        b.kind for b, o, t in zip(bs, obs3, trees3)
                        if any(isinstance(x, str) and len(x) == 1 and x in "45" for x in o) and t != pre_b(rs, bs, b, i)
                    ]
                    if diverged or failing_mutates:
                        key = classify(s, i, pre, rename_from, obs3, trees3)
                        if not diverged:
                            key = f"ftp:failing-command-mutates:{c[0].lower()}"
                        ctx.violation(
                            f"backends differ on {c[0]} (step {i}): memory={obs3[0]} pathio={obs3[1]} asyncpathio={obs3[2]}"
                            + ("; a failing command changed the tree on " + ",".join(failing_mutates) if failing_mutates else ""),
                            {"key": key, "kind": "ftp", "cmds": op_json(s), "step": i,
                             "observed": {b.kind: [D.obs_json(r[i][0]), D.tree_json(r[i][1])] for b, r in zip(bs, rs)}},
                        )
                        break
                    # bookkeeping for classify (mirrors what the client saw, not the model)
                    code = rs[0][i][0][0] if rs[0][i][0] else ""
                    if c[0] == "RNFR" and code == "350":
                        rename_from = c[1]
                    elif c[0] == "RNTO" and code not in ("550", "503"):
                        rename_from = None
                    pre = trees3[0]
        finally:
            for b in bs:
                await b.close()

    retries = {"left": 3, "used": 0}

    def real_time_outcome(rs, n):
        for r in rs:
            if len(r) < n:
                return True
            for obs, _ in r:
                if any(isinstance(x, str) and (x in ("TIMEOUT", "EOF") or x.startswith(("CONN", "pasv:"))) for x in obs):
                    return True
        return False

    def pre_b(rs, bs, b, i):
        bi = bs.index(b)
        return rs[bi][i - 1][1] if i > 0 else D.canon(FTP_INIT)

    loop = asyncio.new_event_loop()
    try:
        loop.run_until_complete(go())
    finally:
        loop.run_until_complete(loop.shutdown_default_executor())
        loop.close()
    for v, n in sorted(verbs.items()):
        ctx.count("ftp_verb_" + v, n)
    if retries["used"]:
        ctx.count("ftp_sessions_repeated_with_generous_limits(real-time outcome)", retries["used"])
    ctx.sample({"stream": "ftp", "tree": D.tree_json(FTP_INIT), "cmds": op_json(seqs[-1])})
    return xcheck


# ---------------------------------------------------------------------------------------------
def make_tmp():
    base = core.VERIF / "build" / "tmp"
    base.mkdir(parents=True, exist_ok=True)
    return tempfile.mkdtemp(prefix="c18-", dir=str(base))


def correspondence(ctx):
    thorough = ctx.tier == "thorough"
    ctx.extra["rule"] = (
        "API level: every operation of the alphabet {exists,is_dir,is_file,list,stat,mkdir x parents x exist_ok,rmdir,unlink,"
        "rename (all ordered pairs), open rb/wb/ab/r+b/bad x 10 seek/read/write scripts} over an 8-path universe (files, "
        "directories, missing, missing parent, through a file, dot-file) from 2 initial trees as length-1 sequences; length 2 = "
        "tree-changing op x any op (exhaustive in thorough, 45 sampled second ops per first op in quick); length 3 sampled from "
        "mutator x mutator x any; random sequences of length 2-8 with random scripts. Each sequence runs on the MemFS model vs "
        "REAL MemoryPathIO (ordered tree, inner exception class), on the PosixFS model vs REAL PathIO on the real kernel, and "
        "REAL PathIO vs REAL AsyncPathIO (every 4th in quick). FTP level: every command of {MKD,RMD,DELE,CWD,MLST,RNFR,STOR/"
        "APPE x REST none/0/2/7,RETR x REST,LIST,MLSD} over a 10-path universe as a 1-command session, all RNFR x RNTO pairs, "
        "RNFR/mutation/RNTO triples and mutation+command pairs (sampled in quick), random sessions of 3-7 commands; each session "
        "replayed over loopback on three real servers (MemoryPathIO, PathIO, AsyncPathIO). API steps: sequences of PRIMITIVE "
        "operations (h_open/h_seek/h_read/h_write/h_close on two handle slots + every path operation in between: stat/exists/"
        "list/second rb, r+b, ab, wb handle/unlink/rename/mkdir while the first handle is still open; writes below, at and above "
        "the 8 KiB buffer), structured (mode x write script x observer-before-close) + random, REAL PathIO vs REAL AsyncPathIO, "
        "observation and on-disk tree after every step. Names that are string prefixes / extensions of one another (d, d2, d.bak, "
        "d_, dd; report, report.bak, repor): every existing file and directory at depths 1-4 renamed to the siblings whose name "
        "extends / truncates / doubles its own, below such a sibling (missing and existing) and to its true descendants, there "
        "and back, at API and FTP level; the other verbs on a tree that holds a name next to its extensions; random sessions "
        "over a pool of mutually extending names. A loopback session with a real-time outcome (timeout, lost connection, early "
        "end) is repeated once with generous limits before it is judged. Non-trivial = distinct (tree, sequence)."
    )
    tmp = make_tmp()
    try:
        x1 = run_api_level(ctx, tmp, thorough)
        run_api_steps(ctx, tmp, thorough)
        x2 = run_ftp_level(ctx, tmp, thorough)
    finally:
        shutil.rmtree(tmp, ignore_errors=True)
    xs = (x1 + x2)[:90]
    ok, out = core.vm_crosscheck(EXTRACT, xs)
    ctx.extra["vm_compute_crosscheck"] = {"cases": len(xs), "agree": ok}
    if not ok:
        ctx.obligation_broken("extraction-crosscheck", out)


# The sessions that showed the four defects of MemoryPathIO repaired in /repo (F06, F07a, F07b, F17; see
# known_findings.json `fixed`).  They are ordinary corpus cases now (first entries of ftp_sequences in both tiers):
# the three-way oracle must hold on them, so a regression is reported again as an unlisted VIOLATION whose replay
# key (computed by classify) is the old, specific one.
FORMER_WITNESSES = {
    "ftp:rest+stor:missing-file-created-by-memory": [("STOR", "/m", b"PQ", 2)],
    "ftp:rest+appe:missing-file-created-by-memory": [("APPE", "/m", b"PQ", 2)],
    "ftp:rnto:into-own-subtree-memory-loses-subtree": [("RNFR", "/d"), ("RNTO", "/d/e/h")],
    "ftp:rnto:parent-is-file-memory-removes-source": [("RNFR", "/d"), ("RNTO", "/g/x")],
    "ftp:rnto:same-path-source-gone-memory-says-ok": [("RNFR", "/d/f"), ("DELE", "/d/f"), ("RNTO", "/d/f")],
}
# findings of this property that are still open, each as the FTP session that shows it (none at present)
KNOWN_REPLAYS = {}


def known(ctx):
    """replay every recorded (unrepaired) finding on the real servers; report the ones that still reproduce"""
    todo = []
    for f in ctx.kf:
        for key in f.get("keys", []):
            if key in KNOWN_REPLAYS:
                todo.append((f["id"], key, KNOWN_REPLAYS[key]))
    if not todo:
        return
    tmp = make_tmp()
    try:
        sub = core.Ctx(ctx.pid, ctx.tier, ctx.seed)
        sub.exe = ctx.exe
        sub.kf = []
        run_ftp_level(sub, tmp, False, seqs=[s for _, _, s in todo])
        got = {v["replay"]["key"] for v in sub.violations}
        for fid, key, s in todo:
            if key in got:
                ctx.known_reproduced(fid, key)
            else:
                ctx.notes.append(f"recorded finding {fid} key {key} did not reproduce on this tree")
    finally:
        shutil.rmtree(tmp, ignore_errors=True)


def search(ctx):
    """failing-input search when an obligation / the tie broke: the oracles (three-way equality at the wire,
    two-way equality at the API) already ran on every implementation output; widen once."""
    if ctx.violations or ctx.tier == "thorough" or ctx.exe is None:
        return
    tmp = make_tmp()
    try:
        sub_seqs = ftp_sequences(ctx, False)
        run_ftp_level(ctx, tmp, False, seqs=sub_seqs)
    except Exception as e:
        ctx.notes.append(f"search aborted: {e!r}")
    finally:
        shutil.rmtree(tmp, ignore_errors=True)


def replay(ctx, data):
    r = data.get("replay", {})
    tmp = make_tmp()
    try:
        if r.get("kind") == "ftp":
            cmds = [tuple(op_from_json(c)) for c in r["cmds"]]
            sub = core.Ctx(ctx.pid, ctx.tier, ctx.seed)
            sub.exe = ctx.exe
            sub.kf = []
            run_ftp_level(sub, tmp, False, seqs=[cmds])
            for v in sub.violations:
                print("reproduced:", v["what"], "key:", v["replay"]["key"])
            return not sub.violations
        if r.get("kind") == "api":
            ops = [op_from_json(o) for o in r["ops"]]
            tree = tree_from_json(r["tree"])
            pio = D.ApiBackend("pathio", os.path.join(tmp, "p"))
            apio = D.ApiBackend("asyncpathio", os.path.join(tmp, "a"))
            loop = asyncio.new_event_loop()
            x = loop.run_until_complete(pio.run(tree, ops))
            y = loop.run_until_complete(apio.run(tree, ops))
            loop.run_until_complete(loop.shutdown_default_executor())
            loop.close()
            for i, (a, b) in enumerate(zip(x, y)):
                if a != b:
                    print("step", i, "pathio:", a, "asyncpathio:", b)
            return x == y
        if r.get("kind") == "api-steps":
            steps = [step_from_json(o) for o in r["steps"]]
            tree = tree_from_json(r["tree"])
            pio = D.ApiBackend("pathio", os.path.join(tmp, "p"))
            apio = D.ApiBackend("asyncpathio", os.path.join(tmp, "a"))
            loop = asyncio.new_event_loop()
            x = loop.run_until_complete(pio.run_steps(tree, steps))
            y = loop.run_until_complete(apio.run_steps(tree, steps))
            loop.run_until_complete(loop.shutdown_default_executor())
            loop.close()
            i = compare_steps(x, y)
            if i is not None:
                print("reproduced: step", i, "pathio:", x[i] if i < len(x) else None, "asyncpathio:", y[i] if i < len(y) else None)
            return i is None
        print("replay payload:", data)
        return False
    finally:
        shutil.rmtree(tmp, ignore_errors=True)
