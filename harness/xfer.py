"""xfer: one scripted FTP session (with transfers) against the REAL aioftp.Server on harness/simnet.py,
with a gated, handle-counting backend and a resource ledger.  Shared by harness/props/c12.py (a session
that ends releases everything) and harness/props/c14.py (ABOR at any moment).

A *case* is a JSON-serialisable dict:
  steps   list of steps (see `Run.do_step`): ["cmd", line] ["pipe", [lines]] ["dconn"] ["dconn_noread"] ["dsend", n]
          ["deof"] ["dread"] ["release", op] ["sleep", t] ["ticks", n] ["cut", how] ["snap", label]
  gates   list of [op, n]: the n-th call (1-based) of backend operation `op`
          (open / seek / read / write / close / list / stat / exists) suspends until ["release", op]
  bind_gate  None | 1 | 2 : listener start-up suspends at its 1st (before bind) / 2nd (after bind) suspension point
  pool    bool: Server(data_ports=[...]) configured
  files   {name: size}; payload bytes are `pattern(n)`
  block   block_size of the server
  cut_at_event / cut_how   optional: at the k-th delivery on any link of the network the peer vanishes
          ("rst": all its sockets reset, "eof": all closed) or the server is shut down ("close": Server.close())
  sessions  number of additional idle logged-in sessions (their resources must stay untouched)

Everything observable is returned as plain data (reply codes per step, data bytes, EOF flags, backend
content, ledgers).  No wall time: the virtual clock of simnet."""
import asyncio
import concurrent.futures
import functools
import gc
import inspect
import logging
import os
import shutil
import tempfile
import threading
import time
import pathlib
import re

import aioftp
import aioftp.pathio

from . import simnet

logging.getLogger("aioftp.server").setLevel(logging.CRITICAL)
logging.getLogger("asyncio").setLevel(logging.CRITICAL)

MAIN_PORT = 2121
POOL_PORTS = [30001, 30002, 30003, 30004]
MAX_CONN = 5
USER_MAX = 4


def pattern(n, salt=0):
    return bytes((i * 7 + salt * 13 + (i >> 8)) % 251 for i in range(n))


class Ctl:
    """per-run controller of the gated spy backend"""

    def __init__(self, gates):
        self.gates = {}  # op -> set of call indices that block
        for op, n in gates or []:
            self.gates.setdefault(op, set()).add(n)
        self.calls = {}
        self.done = {}
        self.waiting = {}  # op -> list of Events
        self.handles = []  # one entry id(file) per open handle (MemoryPathIO hands out the same buffer object twice)
        self.opened = 0
        self.released_all = False
        self.twaiting = {}  # op -> threading.Events of executor threads blocked in a gate
        self.blocked = 0
        self.tlock = threading.Lock()
        self.active = False  # gates and call counts start after the file system has been set up

    async def gate(self, op):
        if not self.active:
            return
        n = self.calls[op] = self.calls.get(op, 0) + 1
        if not self.released_all and n in self.gates.get(op, ()):
            ev = asyncio.Event()
            self.waiting.setdefault(op, []).append(ev)
            try:
                await ev.wait()
            finally:
                if ev in self.waiting.get(op, []):
                    self.waiting[op].remove(ev)

    def release(self, op=None):
        ops = [op] if op else list(self.waiting)
        if op is None:
            self.released_all = True
        for o in ops:
            for ev in self.waiting.get(o, []):
                ev.set()
        woken = 0
        for o in [op] if op else list(self.twaiting):
            for ev in list(self.twaiting.get(o, [])):
                ev.set()
                woken += 1
        # the woken threads leave their gates before anybody counts blocked threads again
        t0 = time.time()
        while woken and time.time() - t0 < 2 and any(ev.is_set() for evs in self.twaiting.values() for ev in evs):
            time.sleep(0.0002)

    def gate_sync(self, op):
        """gate INSIDE an executor job (called from the worker thread by GatePath / GateFile): the n-th blocking
        call `op` of the run blocks its thread, so that what the event loop is waiting on - and what a cancellation
        hits - is aioftp's own run_in_executor wrapper"""
        if not self.active:
            return
        with self.tlock:
            n = self.calls["t:" + op] = self.calls.get("t:" + op, 0) + 1
            hold = not self.released_all and n in self.gates.get("t:" + op, ())
            if hold:
                ev = threading.Event()
                self.twaiting.setdefault("t:" + op, []).append(ev)
                self.blocked += 1
        if hold:
            ev.wait(60)
            with self.tlock:
                self.blocked -= 1
                self.twaiting["t:" + op].remove(ev)

    def is_waiting(self, op=None):
        if op is None:
            return any(self.waiting.values()) or any(self.twaiting.values())
        return bool(self.waiting.get(op))


CTL = None  # set by run_case for the duration of one run (one run at a time per process)


class SpyIO(aioftp.MemoryPathIO):
    """MemoryPathIO with (a) a count of open file handles, (b) gates that suspend chosen operations.
    A close() that has started completes even when its awaiter is cancelled (as a close running in an
    executor thread does); an open that is cancelled while suspended has not opened anything."""

    async def _open(self, path, mode="rb", *args, **kwargs):
        await CTL.gate("open")
        f = await super()._open(path, mode, *args, **kwargs)
        CTL.handles.append(id(f))
        CTL.opened += 1
        return f

    async def seek(self, file, *args, **kwargs):
        await CTL.gate("seek")
        return await super().seek(file, *args, **kwargs)

    async def read(self, file, *args, **kwargs):
        await CTL.gate("read")
        r = await super().read(file, *args, **kwargs)
        CTL.done["read"] = CTL.done.get("read", 0) + 1
        return r

    async def write(self, file, *args, **kwargs):
        await CTL.gate("write")
        r = await super().write(file, *args, **kwargs)
        CTL.done["write"] = CTL.done.get("write", 0) + 1
        return r

    async def close(self, file):
        try:
            await CTL.gate("close")
        finally:
            if id(file) in CTL.handles:
                CTL.handles.remove(id(file))
            await super().close(file)

    async def stat(self, path):
        await CTL.gate("stat")
        st = await super().stat(path)
        # fixed timestamps: listings are byte-identical from run to run
        return st._replace(st_ctime=1000000000, st_mtime=1000000000)

    async def is_dir(self, path):
        await CTL.gate("is_dir")
        return await super().is_dir(path)

    async def is_file(self, path):
        await CTL.gate("is_file")
        return await super().is_file(path)

    async def exists(self, path):
        await CTL.gate("exists")
        return await super().exists(path)

    def list(self, path):
        inner = super().list(path)

        class It:
            def __aiter__(self_):
                return self_

            async def __anext__(self_):
                await CTL.gate("list")
                return await inner.__anext__()

        return It()


class CountingExecutor(concurrent.futures.ThreadPoolExecutor):
    """executor handed to AsyncPathIO: knows how many jobs are really in flight (the event loop's own count drops
    when the awaiting task is cancelled although the thread is still running)"""

    def __init__(self):
        super().__init__(max_workers=16)
        self.inflight = 0
        self.lock = threading.Lock()

    def submit(self, fn, *a, **kw):
        with self.lock:
            self.inflight += 1

        def run():
            try:
                return fn(*a, **kw)
            finally:
                with self.lock:
                    self.inflight -= 1

        return super().submit(run)


class GateFile:
    """file object handed out by GatePath.open: every blocking call passes a thread-level gate; open handles are counted"""

    def __init__(self, f):
        self._f = f
        CTL.handles.append(id(self))

    def read(self, *a):
        CTL.gate_sync("read")
        return self._f.read(*a)

    def write(self, *a):
        CTL.gate_sync("write")
        return self._f.write(*a)

    def seek(self, *a):
        CTL.gate_sync("seek")
        return self._f.seek(*a)

    def close(self):
        try:
            CTL.gate_sync("close")
        finally:
            if id(self) in CTL.handles:
                CTL.handles.remove(id(self))
            self._f.close()

    def __del__(self):
        # a handle nobody refers to any more (an open that finished in its thread after the awaiting task had been
        # cancelled) is closed by the interpreter's reference counting, as a real file object is
        try:
            if id(self) in CTL.handles:
                CTL.handles.remove(id(self))
            self._f.close()
        except Exception:
            pass


class GatePath(pathlib.PosixPath):
    """base_path of the user on the AsyncPathIO back-end: the blocking pathlib calls aioftp runs in its executor pass a
    thread-level gate (derived paths keep this class)"""

    def open(self, *a, **kw):
        CTL.gate_sync("open")
        return GateFile(super().open(*a, **kw))

    def stat(self, *a, **kw):
        if threading.current_thread() is not threading.main_thread():
            CTL.gate_sync("stat")
        return super().stat(*a, **kw)


def codes(lines):
    return [int(c) for c in simnet.final_codes(lines)]


def tap(st):
    """log every byte the server writes to this (server-side) transport in st.wlog"""
    st.wlog = bytearray()
    orig_write = st.write

    def logged_write(data):
        st.wlog += bytes(data)
        orig_write(data)

    st.write = logged_write


class DataPeer:
    """client end of a data connection"""

    def __init__(self, net, reader, writer, read=True):
        self.net, self.reader, self.writer = net, reader, writer
        self.got = b""
        self.eof = False
        self.reset = False
        self.task = None
        self.server_t = st = writer.transport.peer
        self.sent = 0
        tap(st)
        if read:
            self.start_reading()

    def start_reading(self):
        if self.task is None:
            self.task = asyncio.ensure_future(self._run())

    async def _run(self):
        try:
            while True:
                d = await self.reader.read(65536)
                if not d:
                    self.eof = True
                    return
                self.got += d
        except (ConnectionError, OSError):
            self.eof = True
            self.reset = True

    @property
    def server_closed(self):
        return self.server_t.closed or self.server_t.closing


class Run:
    def __init__(self, net, case):
        self.net = net
        self.case = case
        self.srv = None
        self.raw = None
        self.data = []
        self.port = None
        self.log = []  # per step: {"step":…, "codes":[…], …}
        self.harness_tasks = set()
        self.dead = False  # the cut has happened: the peer does nothing any more
        self.cut_done = None
        self.snaps = {}
        self.payload_pos = 0
        self.others = []
        self.close_task = None
        self.at_close = None
        self.pre = None
        self.other_keys = set()
        self.bind_log_base = 0

    # ---- ledger
    def ledger(self):
        net, srv = self.net, self.srv
        if self.tmpdir is not None:
            gc.collect()
        # a transport whose close() has been called is released by its owner (connection_lost follows at once)
        st = [t for t in net.open_transports("server") if not t.closing]
        cur = asyncio.current_task()
        if cur is not None and getattr(cur.get_coro(), "__qualname__", "").startswith("Server."):
            cur = None  # called from inside the server (the spies): its own task counts
        me = {cur} | self.harness_tasks | {d.task for d in self.data + getattr(self, "actor_data", []) if d.task}
        tasks = []
        for t in asyncio.all_tasks():
            if t in me or t.done():
                continue
            co = t.get_coro()
            name = getattr(co, "__qualname__", repr(co))
            if name.startswith("run.<locals>.") or name.startswith("run_case.<locals>.") or name.startswith("Run."):
                continue  # simnet's / this module's own driver tasks
            tasks.append(name)
        pool = srv.available_data_ports
        umax = [u.maximum_connections for u in srv.user_manager.users]
        uval = [srv.user_manager.available_connections[u].value for u in srv.user_manager.users]
        return {
            "ctrl": sum(1 for t in st if t.listener_port == MAIN_PORT),
            "listeners": sorted(l.port for l in net.open_listeners() if l.port != MAIN_PORT),
            "main_listener": int(any(l.port == MAIN_PORT for l in net.open_listeners())),
            "ports_out": (len(POOL_PORTS) - pool.qsize()) if pool is not None else 0,
            "data": sum(1 for t in st if t.listener_port != MAIN_PORT),
            "files": len(CTL.handles),
            "tasks": sorted(tasks),
            "slot": MAX_CONN - srv.available_connections.value,
            "user": sum(m - v for m, v in zip(umax, uval)),
            "table": len(srv.connections),
        }

    def slim(self):
        """keep the observations (plain data), drop the event loop, server, transports and tasks of the finished run"""
        import types

        self.data = [types.SimpleNamespace(got=d.got, eof=d.eof, reset=d.reset, sent=d.sent, server_closed=d.server_closed,
                                           server_t=types.SimpleNamespace(closed=d.server_t.closed, closing=d.server_t.closing))
                     for d in self.data]
        self.raw = types.SimpleNamespace(eof=self.raw.eof) if self.raw is not None else None
        for name in ("net", "srv", "others", "harness_tasks", "close_task", "actor_data", "other_transports", "other_keys",
                     "ctrl_st", "executor", "bind_ev"):
            if hasattr(self, name):
                setattr(self, name, None)

    def observe(self):
        """ledger + abstract (model-level) state of the session under test, as plain data"""
        o = {"ledger": self.ledger(), "abs": None, "events": getattr(self, "events", 0)}
        a = abstract(self)
        if a is not None:
            conn = a.pop("conn")
            ws = []
            for t in a.pop("tasks"):
                kind, stage, chain = worker_abs(t, conn, self.case.get("file_idx", 0), None, self.case.get("block", 4))
                ws.append({"kind": kind, "stage": stage, "chain": chain})
            a["workers"] = ws
            o["abs"] = a
        # complete replies the server has produced so far on the control channel (written + queued)
        n = 0
        if getattr(self, "ctrl_st", None) is not None:
            n = len(codes(bytes(self.ctrl_st.wlog).decode("utf-8", "replace").split("\r\n")))
        if a is not None:
            for c in getattr(conn.response, "__closure__", None) or ():
                if isinstance(c.cell_contents, asyncio.Queue):
                    n += c.cell_contents.qsize()
        o["replies_so_far"] = n
        o["waiting"] = sorted(op for op, evs in CTL.waiting.items() if evs)
        o["done"] = dict(CTL.done)
        o["calls"] = dict(CTL.calls)
        o["wlog"] = [len(d.server_t.wlog) for d in self.data]
        o["lines"] = [bytes(d.server_t.wlog).count(b"\r\n") for d in self.data]
        return o

    # ---- the cut
    def do_cut(self, how):
        if self.dead:
            return
        self.dead = True
        self.cut_done = how
        self.pre = self.observe()
        if how in ("rst", "eof", "ctrl_eof"):
            for t in list(self.net.open_transports("client")):
                if t in self.other_transports:
                    continue
                if how == "ctrl_eof" and t.listener_port != MAIN_PORT:
                    continue  # only the control connection is lost; the peer's data socket stays as it is
                if how == "rst":
                    t.abort()
                else:
                    t.close()
        elif how == "close":
            async def closer():
                await self.srv.close()
                self.at_close = self.ledger()  # what is left at the very instant Server.close() returns

            self.close_task = asyncio.ensure_future(closer())
            self.harness_tasks.add(self.close_task)
        else:
            raise ValueError(how)

    # ---- steps
    async def do_step(self, step):
        net = self.net
        kind = step[0]
        arg = step[1] if len(step) > 1 else None
        rec = {"step": step}
        if kind == "cmd":
            lines = await self.raw.send(arg)
            rec["codes"] = codes(lines)
            rec["lines"] = lines
            self._learn_port(lines)
        elif kind == "cmdhex":
            lines = await self.raw.send(bytes.fromhex(arg))
            rec["codes"] = codes(lines)
            rec["lines"] = lines
        elif kind == "pipe":
            self.raw.writer.write("".join(l + "\r\n" for l in arg).encode())
            lines = await self.raw.drain_replies()
            rec["codes"] = codes(lines)
            rec["lines"] = lines
            self._learn_port(lines)
        elif kind == "ticksend":
            # write line a, let the event loop run exactly n iterations, write line b
            a, n, b = arg
            self.raw.writer.write((a + "\r\n").encode())
            for _ in range(n):
                await asyncio.sleep(0)
            self.raw.writer.write((b + "\r\n").encode())
            lines = await self.raw.drain_replies()
            rec["codes"] = codes(lines)
            rec["lines"] = lines
        elif kind in ("dconn", "dconn_noread"):
            try:
                r, w = await net.open_connection("127.0.0.1", self.port)
            except (ConnectionError, TypeError):
                rec["refused"] = True
            else:
                d = DataPeer(net, r, w, read=(kind == "dconn"))
                if kind == "dconn_noread":
                    d.server_t.out.hold = True
                self.data.append(d)
            await net.settle()
        elif kind == "dsend":
            if self.data:
                d = self.data[-1]
                d.writer.write(self.payload[d.sent : d.sent + arg])
                d.sent += arg
            await net.settle()
        elif kind == "deof":
            if self.data:
                self.data[-1].writer.close()
            await net.settle()
        elif kind == "dread":
            for d in (self.data if arg == "all" else self.data[-1:]):
                d.server_t.out.release()
                d.start_reading()
            await net.settle()
        elif kind == "release":
            CTL.release(arg)
            await net.settle()
        elif kind == "sleep":
            await asyncio.sleep(arg)
            await net.settle()
        elif kind == "ticks":
            for _ in range(arg):
                await asyncio.sleep(0)
        elif kind == "cut":
            self.do_cut(arg)
            await net.settle()
        elif kind == "mark":
            self.snaps["mark"] = self.observe()
        elif kind == "snap":
            self.snaps[arg] = self.observe()
            rec["waiting"] = sorted(op for op, evs in CTL.waiting.items() if evs)
        else:
            raise ValueError(step)
        if kind not in ("cmd", "cmdhex", "pipe", "ticksend"):
            lines = self.raw.take()
            rec["codes"] = codes(lines)
            rec["lines"] = lines
        rec["ctrl_eof"] = self.raw.eof
        self.log.append(rec)

    def _learn_port(self, lines):
        for l in lines:
            m = re.match(r"227 .*\((\d+),(\d+),(\d+),(\d+),(\d+),(\d+)\)", l)
            if m:
                self.port = int(m.group(5)) * 256 + int(m.group(6))
            m = re.match(r"229 .*\|\|\|(\d+)\|", l)
            if m:
                self.port = int(m.group(1))

    async def main(self):
        net, case = self.net, self.case
        net.loop.set_exception_handler(lambda l, c: None)
        self.tmpdir = None
        if case.get("backend") == "async":
            # the shipped AsyncPathIO on a real scratch directory; gates sit inside the executor jobs
            base = pathlib.Path(__file__).resolve().parent.parent / "build" / "tmp"
            base.mkdir(parents=True, exist_ok=True)
            self.tmpdir = tempfile.mkdtemp(dir=str(base), prefix="xfer-")
            user = aioftp.User(base_path=self.tmpdir, home_path="/", maximum_connections=USER_MAX)
            user.base_path = GatePath(self.tmpdir)  # User() normalises to a plain pathlib.Path
            self.executor = CountingExecutor()
            orig_settle = net.settle

            async def settle(rounds=3):
                """quiescence when the only outstanding executor jobs are threads blocked in a gate"""
                quiet = 0
                for _ in range(200000):
                    await asyncio.sleep(0)
                    if len(net.loop._ready) == 0 and self.executor.inflight <= CTL.blocked:
                        quiet += 1
                        if quiet >= rounds + 2:
                            return
                        time.sleep(0.0002)  # a finished job posts its result to the loop a moment after it is counted out
                    else:
                        quiet = 0
                        if self.executor.inflight > CTL.blocked:
                            time.sleep(0.0002)  # let the executor threads run
                raise RuntimeError("xfer.settle: no quiescence")

            net.settle = settle
        else:
            user = aioftp.User(base_path="/", home_path="/", maximum_connections=USER_MAX)
        self.srv = srv = aioftp.Server(
            [user],
            path_io_factory=functools.partial(aioftp.AsyncPathIO, executor=self.executor) if self.tmpdir is not None else SpyIO,
            block_size=case.get("block", 4),
            maximum_connections=MAX_CONN,
            data_ports=list(POOL_PORTS) if case.get("pool") else None,
            wait_future_timeout=case.get("wait_future_timeout", 1),
            socket_timeout=case.get("socket_timeout"),
            idle_timeout=case.get("idle_timeout"),
        )
        await srv.start("127.0.0.1", MAIN_PORT)
        pio = srv.path_io_factory(timeout=None, connection=None)
        for i, (name, size) in enumerate(sorted(case.get("files", {}).items())):
            if self.tmpdir is not None:
                q = pathlib.Path(self.tmpdir) / name.rstrip("/")
                if name.endswith("/"):
                    q.mkdir(parents=True, exist_ok=True)
                else:
                    q.parent.mkdir(parents=True, exist_ok=True)
                    q.write_bytes(pattern(size, i))
                continue
            if name.endswith("/"):
                await pio.mkdir(pathlib.PurePosixPath("/" + name.rstrip("/")), parents=True)
                continue
            p = pathlib.PurePosixPath("/" + name)
            if str(p.parent) != "/":
                if not await pio.exists(p.parent):
                    await pio.mkdir(p.parent, parents=True)
            f = await aioftp.MemoryPathIO._open(pio, p, "wb")
            f.write(pattern(size, i))
        if self.tmpdir is not None:
            for root, dirs, fs in os.walk(self.tmpdir):
                for n in dirs + fs:
                    os.utime(os.path.join(root, n), (1000000000, 1000000000))
            os.utime(self.tmpdir, (1000000000, 1000000000))
        CTL.handles.clear()
        self.payload = pattern(case.get("payload", 64), 5)
        self.other_transports = set()
        for _ in range(case.get("sessions", 0)):
            o = await simnet.Raw.connect(net, MAIN_PORT)
            await o.drain_replies()
            await o.send("USER anonymous")
            self.others.append(o)
            self.other_transports.add(o.writer.transport)
        # other ACTIVE sessions: each performs its own steps (a transfer held by the peer itself: no gates) and stays there
        self.actor_data = []
        for steps in case.get("actors", []):
            saved = (self.raw, self.data, self.port, self.log)
            self.raw = await simnet.Raw.connect(net, MAIN_PORT)
            await self.raw.drain_replies()
            self.data, self.port, self.log = [], None, []
            for st in steps:
                await self.do_step(st)
            self.others.append(self.raw)
            self.actor_data += self.data
            self.raw, self.data, self.port, self.log = saved
        self.other_transports = set(net.open_transports("client"))
        CTL.active = True  # gates and call counts concern the session under test only
        self.other_keys = set(srv.connections.keys())
        self.bind_log_base = len(net.bind_log)
        self.baseline = self.ledger()
        bg = case.get("bind_gate")
        if bg:
            self.bind_ev = asyncio.Event()

            def gate(port, stage):
                if port != MAIN_PORT and stage == bg and not self.bind_ev.is_set():
                    return self.bind_ev.wait()
                return None

            net.bind_gate = gate
        # network event counter for cut_at_event
        k_cut = case.get("cut_at_event")
        self.events = 0
        orig = simnet._orig_pump

        run = self

        def counting(link):
            orig(link)
            run.events += 1
            if k_cut is not None and run.events == k_cut and not run.dead:
                run.do_cut(case.get("cut_how", "rst"))

        simnet._orig_pump = counting
        # asyncio transport semantics simnet leaves out: close() with unsent bytes in the write buffer does NOT report
        # connection_lost (so StreamWriter.wait_closed() does not return) until the buffer has been flushed to the
        # peer; bytes up to `sockbuf` count as taken by the kernel.  Installed for the duration of the run.
        sockbuf = case.get("sockbuf", 0)
        orig_close = simnet.MemTransport.close

        def lingering_close(t):
            if t.closing:
                return
            t.closing = True
            t.out.push("eof")
            t.out.push("gone")

            def settle_close():
                if t.lost_called:
                    return
                if t.out.bytes_queued <= sockbuf or t.out.dropped:
                    t._connection_lost(None)
                else:
                    t.lingering = True

            net.loop.call_soon(settle_close)

        simnet.MemTransport.close = lingering_close
        inner_counting = counting

        def counting_linger(link):
            inner_counting(link)
            t = link.src
            if getattr(t, "lingering", False) and not t.lost_called and link.bytes_queued <= sockbuf:
                t.lingering = False
                t._connection_lost(None)

        simnet._orig_pump = counting_linger
        old_water = (simnet.LOW_WATER, simnet.HIGH_WATER)
        if case.get("water"):
            simnet.LOW_WATER, simnet.HIGH_WATER = case["water"]
        # observe the state abor() acts on: wrap the undecorated body (the decorators stay as they are)
        self.abor_obs = []
        unhook = lambda: None
        fn = aioftp.Server.abor
        cell = None
        for c in fn.__closure__ or ():
            v = c.cell_contents
            if inspect.isfunction(v) and v.__name__ == "abor":
                cell = c
        if cell is not None:
            body = cell.cell_contents

            async def spy_body(srv_, connection, rest, *a):
                run.abor_obs.append(run.observe())
                return await body(srv_, connection, rest, *a)

            cell.cell_contents = spy_body

            def unhook():
                cell.cell_contents = body

        else:
            bound = srv.commands_mapping["abor"]

            async def spy_bound(connection, rest):
                run.abor_obs.append(run.observe())
                return await bound(connection, rest)

            srv.commands_mapping["abor"] = spy_bound
        # observe the state the dispatcher's finally block starts from: its first statement logs "closing connection"
        self.end_obs = None
        srv_logger = logging.getLogger("aioftp.server")

        class EndSpy(logging.Handler):
            def emit(self_, record):
                try:
                    if isinstance(record.msg, str) and record.msg.startswith("closing connection") and run.end_obs is None:
                        if run.raw is not None and tuple(record.args or ())[1:2] == (run.client_port,):
                            run.end_obs = run.observe()
                except Exception as e:  # never disturb the server
                    run.spy_error = repr(e)

        spy_handler = EndSpy(level=logging.INFO)
        old_level, old_prop = srv_logger.level, srv_logger.propagate
        srv_logger.addHandler(spy_handler)
        srv_logger.setLevel(logging.INFO)
        srv_logger.propagate = False
        try:
            self.raw = await simnet.Raw.connect(net, MAIN_PORT)
            self.client_port = self.raw.writer.transport.get_extra_info("sockname")[1]
            self.ctrl_st = self.raw.writer.transport.peer
            tap(self.ctrl_st)
            if k_cut == 0:
                self.do_cut(case.get("cut_how", "rst"))
            lines = await self.raw.drain_replies()
            self.log.append({"step": ["connect"], "codes": codes(lines), "lines": lines, "ctrl_eof": self.raw.eof})
            for step in case["steps"]:
                if self.dead and step[0] not in ("snap", "sleep", "release", "bindrelease"):
                    continue
                if step[0] == "bindrelease":
                    self.bind_ev.set()
                    await net.settle()
                    continue
                await self.do_step(step)
            await net.settle()
            self.total_events = self.events
            if self.close_task is not None:
                # Server.close() must complete without further input
                self.close_completed = self.close_task.done()
            self.final = self.ledger()
            self.final_waiting = sorted(op for op, evs in CTL.waiting.items() if evs)
            self.store = {}
            for name in case.get("inspect", []):
                if self.tmpdir is not None:
                    q = pathlib.Path(self.tmpdir) / name
                    self.store[name] = q.read_bytes() if q.is_file() else None
                    continue
                p = pathlib.PurePosixPath("/" + name)
                node = pio.get_node(p)
                self.store[name] = None if node is None or node.type != "file" else node.content.getvalue()
            self.others_ok = []
            for o in self.others:
                ls = await o.send("PWD")
                self.others_ok.append(codes(ls) == [257])
        finally:
            simnet._orig_pump = orig
            simnet.MemTransport.close = orig_close
            simnet.LOW_WATER, simnet.HIGH_WATER = old_water
            srv_logger.removeHandler(spy_handler)
            srv_logger.setLevel(old_level)
            srv_logger.propagate = old_prop
            unhook()
            CTL.release(None)
            if bg:
                self.bind_ev.set()
            for d in self.data + self.actor_data:
                if d.task:
                    d.task.cancel()
            # shut the server down without relying on virtual timers (they do not fire while an executor job is
            # outstanding) and without ever blocking: a close() that does not come to an end is cancelled together
            # with whatever the implementation left behind (that it hangs has been observed and judged above)
            ct = asyncio.ensure_future(srv.close())
            for _ in range(3000):
                await asyncio.sleep(0)
                if ct.done():
                    break
                if self.tmpdir is not None and self.executor.inflight:
                    time.sleep(0.0002)
            me = asyncio.current_task()
            for _ in range(10):
                left = [t for t in asyncio.all_tasks() if t is not me and not t.done()]
                if not left:
                    break
                # an implementation that swallows cancellation would make simnet.run's epilogue wait for ever: cancel the
                # tasks AND the futures they are waiting on until nothing is left
                for t in left:
                    t.cancel()
                    fw = getattr(t, "_fut_waiter", None)
                    if fw is not None and not fw.done():
                        fw.cancel()
                for _ in range(20):
                    await asyncio.sleep(0)
            if ct.done() and not ct.cancelled():
                ct.exception()
            if self.tmpdir is not None:
                self.executor.shutdown(wait=True)
                shutil.rmtree(self.tmpdir, ignore_errors=True)


def run_case(case):
    """run one case on a fresh virtual loop; returns the Run object (plain data in .log, .final, .snaps …)"""
    global CTL
    CTL = Ctl(case.get("gates"))
    box = {}

    async def main(net):
        r = Run(net, case)
        box["run"] = r
        await r.main()

    simnet.run(main, wall_timeout=60)
    box["run"].slim()
    # tasks and transports of finished runs form reference cycles; collected regularly, asyncio.all_tasks() (a scan of
    # every task still alive in the process) and the collector itself stay cheap
    global _RUNS
    _RUNS += 1
    if _RUNS % 20 == 0:
        gc.collect()
    return box["run"]


_RUNS = 0


# ====================================================================== abstraction: real state -> model state
KINDS = {"retr_worker": 0, "stor_worker": 1, "list_worker": 2, "mlsd_worker": 3}
KIND_OF_VERB = {"RETR": 0, "STOR": 1, "APPE": 1, "LIST": 2, "MLSD": 3}
# event tags of Model/Transfer.v (event_of_sx)
GREET, LOGIN, PASV, LSTEP, DATA, SPAWN, WSTEP, WTHROW, WAITTO, ABOR, REAP, QUIT, PEEREOF, HERROR, IDLE, SCLOSE = range(16)
END_EVENT = {"rst": PEEREOF, "eof": PEEREOF, "ctrl_eof": PEEREOF, "close": SCLOSE, "quit": QUIT, "error": HERROR, "idle": IDLE}


def await_chain(task):
    """qualified names of the coroutines a task is suspended in, outermost first"""
    names = []
    co = task.get_coro()
    seen = 0
    while co is not None and seen < 64:
        seen += 1
        code = getattr(co, "cr_code", None) or getattr(co, "gi_code", None) or getattr(co, "ag_code", None)
        if code is not None:
            names.append(code.co_qualname)
        co = getattr(co, "cr_await", None) or getattr(co, "gi_yieldfrom", None) or getattr(co, "ag_await", None)
    return names


def worker_abs(task, conn, file_idx, dpeer, block):
    """model stage of a live transfer task, read off its coroutine stack"""
    co = task.get_coro()
    chain = await_chain(task)
    kind = None
    body_at = None
    for i, n in enumerate(chain):
        for w, k in KINDS.items():
            if n.endswith("." + w) and "wrapper" not in n.split(".")[-1]:
                kind, body_at = k, i
    if kind is None:
        # the wrappers carry the name of the wrapped function (functools.wraps) but their code objects do not
        fn = getattr(co, "__qualname__", "")
        for w, k in KINDS.items():
            if fn.endswith(w):
                kind = k
    if task.done():
        if task.cancelled():
            return kind, [11], None
        if task.exception() is not None:
            e = task.exception()
            code = 1 if isinstance(e, aioftp.PathIOError) else 2 if isinstance(e, (asyncio.TimeoutError, TimeoutError)) else 3
            return kind, [10, code], None
        return kind, [7], None
    if inspect.getcoroutinestate(co) == inspect.CORO_CREATED:
        return kind, [0], chain
    if body_at is None:
        return kind, [1, int(conn.future.data_connection.done())], chain
    rest = chain[body_at + 1 :]
    j = " ".join(rest)
    if "AsyncPathIOContext.__aenter__" in j:
        return kind, [3, "file"], chain
    if "AsyncPathIOContext.__aexit__" in j:
        return kind, [6, "file"], chain
    if "SpyIO.seek" in j:
        return kind, [4], chain
    return kind, [5, None], chain  # Loop k: k is filled in by the caller


def abstract(run):
    """abstract state of the session under test, or None when it is not (any more) in Server.connections"""
    srv, net = run.srv, run.net
    conns = [c for k, c in srv.connections.items() if k not in run.other_keys]
    if not conns:
        return None
    conn = conns[-1]
    fut = conn.future
    log = net.bind_log[run.bind_log_base :]
    names = [getattr(t.get_coro(), "__qualname__", "") for t in asyncio.all_tasks() if not t.done()]
    starting = any(n in ("Server.pasv", "Server.epsv") for n in names)
    if fut.passive_server.done():
        ls = conn.passive_server
        lst = ["set", int(bool(ls.sockets)) if hasattr(ls, "sockets") else 1]
    elif starting and any(e[0] == "bound" for e in log):
        lst = ["bound"]
    elif starting and any(e[0] == "attempt" for e in log):
        lst = ["taking"]
    else:
        lst = ["none"]
    def born(t):
        n = t.get_name()
        return int(n.split("-")[-1]) if n.split("-")[-1].isdigit() else 0

    workers = sorted(conn.extra_workers, key=born)
    return {"conn": conn, "greeted": bool(conn.acquired), "user": fut.user.done(), "lst": lst,
            "data": fut.data_connection.done(), "tasks": workers}


def model_trace(abs_, wabs, pool_unused=None):
    """canonical event trace of Model/Transfer.v leading to the abstract state.
    wabs: list of (kind, stage, moved_blocks, rest_blocks, ctx_len)"""
    evs = []
    if abs_["greeted"]:
        evs.append([GREET])
    if abs_["user"]:
        evs.append([LOGIN])
    lst = abs_["lst"][0]
    if lst == "taking":
        evs.append([PASV])
    elif lst == "bound":
        evs += [[PASV], [LSTEP]]
    elif lst == "set":
        evs += [[PASV], [LSTEP], [LSTEP]]
    if not wabs:
        if abs_["data"]:
            evs.append([DATA])
        return evs
    if len(wabs) > 1:
        # several transfers alive in one session: each got its own data connection, then ran to its stage
        for i, (kind, stage, moved, rest, n) in enumerate(w[:5] for w in wabs):
            tag = stage[0]
            if tag == 1 and not stage[1] and i == len(wabs) - 1:
                evs += [[SPAWN, kind, list(range(moved + rest))], [WSTEP, i]]
                continue
            if tag not in (3, 4, 5, 6, 7):
                raise ValueError(("several workers", stage))
            steps = {3: 2 + (stage[1] or 0), 4: 2 + n, 5: 3 + n + moved, 6: 3 + n + moved + 1 + (n - 1 - (stage[1] or 0)),
                     7: 3 + n + moved + 1 + n}[tag]
            evs += [[DATA], [SPAWN, kind, list(range(moved + rest))]] + [[WSTEP, i]] * steps
        if abs_["data"]:
            evs.append([DATA])
        return evs
    kind, stage, moved, rest, n = wabs[0][:5]
    payload = list(range(moved + rest))
    tag = stage[0]
    if tag == 0:  # Spawned
        if abs_["data"]:
            evs.append([DATA])
        evs.append([SPAWN, kind, payload])
    elif tag == 1:  # WaitingData
        evs += [[SPAWN, kind, payload], [WSTEP, 0]]
        if stage[1]:
            evs.append([DATA])
    elif tag in (8, 11) or (tag == 10 and wabs[0][5:] == (False,)):
        # finished without having run its body (425 / cancelled or failed while waiting)
        evs += [[SPAWN, kind, payload], [WSTEP, 0]]
        if tag == 8:
            evs.append([WAITTO, 0])
        elif tag == 11:
            evs.append([WTHROW, 0, 0])
        else:
            evs.append([WTHROW, 0, stage[1]])
    else:
        evs += [[DATA], [SPAWN, kind, payload]]
        if tag == 2:
            steps = 1
        elif tag == 3:
            steps = 2 + stage[1]
        elif tag == 4:
            steps = 2 + n
        elif tag in (5, 10):
            steps = 3 + n + moved
        elif tag == 6:
            steps = 3 + n + moved + 1 + (n - 1 - stage[1])
        elif tag == 7:
            steps = 3 + n + moved + 1 + n
        else:
            raise ValueError(stage)
        evs += [[WSTEP, 0]] * steps
        if tag == 10:  # failed inside the body: the exception, then the contexts are exited
            evs += [[WTHROW, 0, stage[1]]] + [[WSTEP, 0]] * (n + 1)
        if abs_["data"]:
            evs.append([DATA])
    return evs


# ====================================================================== model glue
def facts_of(ctx):
    """per worker kind: (items of the async with as 0=file 1=stream 2=other, index of the file item or None)"""
    out = ctx.model([(2, [])])[0]
    res = []
    for wf in out:
        items = wf[0]
        res.append({"ctx": items, "n": len(items), "file_idx": items.index(0) if 0 in items else None,
                    "wait_outside": bool(wf[2]), "done_code": wf[5], "wait_fail": wf[6]})
    return res


def resolve_workers(obs, facts, block, ever_data=True):
    """observed workers -> (kind, stage, moved, rest, ctx length) with the facts-dependent parts filled in"""
    res = []
    for w in obs["abs"]["workers"]:
        kind, stage = w["kind"], list(w["stage"])
        f = facts[kind]
        if kind == 1:
            moved = obs["done"].get("write", 0)
        elif kind == 0:
            moved = -(-(obs["wlog"][-1] if obs["wlog"] else 0) // block)
        else:
            moved = obs["lines"][-1] if obs["lines"] else 0
        if len(obs["abs"]["workers"]) > 1:
            moved = 0  # not attributable to one of several transfers; irrelevant for the predictions
        rest = 0
        if stage[0] in (3, 6):
            if f["file_idx"] is None:
                stage = [5, None]
            else:
                stage[1] = f["file_idx"]
        if stage[0] == 5:
            stage[1] = moved
            rest = 1
        if stage[0] in (0, 1, 3, 4):
            moved, rest = 0, 1
        if stage[0] == 7 and not ever_data:
            stage, moved = [8], 0
        if stage[0] == 10:
            rest = 1
        res.append((kind, stage, moved, rest, f["n"]) + ((False,) if stage[0] == 10 and not ever_data else ()))
    return res


def norm_real(led, base=None):
    """real ledger -> [ctrl, listener, port, data, files, tasks, slot, user, table] (booleans except files), minus baseline"""
    b = base or {"ctrl": 0, "listeners": [], "ports_out": 0, "data": 0, "files": 0, "tasks": [], "slot": 0, "user": 0, "table": 0}
    tasks = list(led["tasks"])
    for t in b["tasks"]:
        if t in tasks:
            tasks.remove(t)
    return [
        int(led["ctrl"] - b["ctrl"] > 0),
        int(len([p for p in led["listeners"] if p not in b["listeners"]]) > 0),
        int(led["ports_out"] - b["ports_out"] > 0),
        int(led["data"] - b["data"] > 0),
        led["files"] - b["files"],
        int(len(tasks) > 0),
        int(led["slot"] - b["slot"] > 0),
        int(led["user"] - b["user"] > 0),
        int(led["table"] - b["table"] > 0),
    ]


def norm_model(ml):
    """model ledger (10 slots) -> the same 9"""
    return [int(ml[0] > 0), int(ml[1] > 0), int(ml[2] > 0), int(ml[3] + ml[4] > 0), ml[5], int(ml[6] > 0), int(ml[7] > 0), int(ml[8] > 0), int(ml[9] > 0)]


SLOT_NAMES = ["control", "listener", "port", "data", "files", "tasks", "slot", "user-slot", "table"]


def strip_obs(o):
    """JSON-friendly copy of an observation (drops coroutine chains)"""
    if o is None:
        return None
    a = o.get("abs")
    if a is not None:
        a = dict(a)
        a["workers"] = [{"kind": w["kind"], "stage": w["stage"]} for w in a["workers"]]
    return {"ledger": o["ledger"], "abs": a, "waiting": o["waiting"], "done": o["done"], "wlog": o["wlog"]}


# ====================================================================== scripted transfers held at a chosen stage
BLOCK = 4
VERBS = ["RETR", "STOR", "APPE", "LIST", "MLSD"]
FILES = {"f": 10, "old": 6, "d/": 0, "d/a": 3, "d/b": 4, "d/c": 5}
LOGIN_STEPS = [["cmd", "USER anonymous"], ["cmd", "PASV"]]
DONE = {"RETR": 226, "STOR": 226, "APPE": 226, "LIST": 226, "MLSD": 200}


def cmd_of(verb):
    return {"RETR": "RETR f", "STOR": "STOR up", "APPE": "APPE old", "LIST": "LIST d", "MLSD": "MLSD d"}[verb]


def transfer_setup(verb, place, size=None, rest=None, listen="PASV"):
    """steps that bring a session to `place`:
         ("idle", "login"|"pasv"|"pasv_dconn")  no transfer
         ("bind", 1|2)                          PASV/EPSV suspended inside listener start-up (case["bind_gate"] = stage)
         ("nodata",)                            transfer command sent, 150, the peer has not connected
         ("handler_gate", op, n)                the command handler itself is suspended in the back-end (before 150)
         ("gate", op, n)                        data connection first; n-th back-end call `op` of the session suspended
         ("late_gate", op, n)                   the same, the data connection arrives after 150
         ("sent", j)                            upload: the peer has sent j bytes and pauses
         ("noread",)                            download against a peer that does not read (flow control)
         ("ticks", n) ("pipe",) ("pipe_nodata",)  ABOR n loop iterations after / in one segment with the command
         ("done",)                              the transfer has completed
       returns (steps, gates, files, block, payload size)"""
    files = dict(FILES)
    block = BLOCK
    payload = 10 if size is None else size
    if verb == "RETR" and size is not None:
        files["f"] = size
    steps = [["cmd", "USER anonymous"], ["cmd", listen]]
    gates = []
    c = cmd_of(verb) if verb else None
    if rest and verb == "STOR":
        c = "STOR old"  # a restarted upload needs the file to exist (r+b)
    pre = [["cmd", f"REST {rest}"]] if rest else []
    kind = place[0]
    if kind == "idle":
        steps = [["cmd", "USER anonymous"]]
        if place[1] in ("pasv", "pasv_dconn"):
            steps.append(["cmd", listen])
        if place[1] == "pasv_dconn":
            steps.append(["dconn"])
    elif kind == "bind":
        pass
    elif kind == "nodata":
        steps += pre + [["cmd", c]]
    elif kind == "gate":
        gates = [[place[1], place[2]]]
        steps += [["dconn"]] + pre + [["cmd", c]]
        if verb in ("STOR", "APPE"):
            steps += [["dsend", payload]]
            if place[1] == "close":
                steps += [["deof"]]
    elif kind == "tgate":
        # AsyncPathIO back-end (case["backend"] = "async"): the n-th blocking call `op` blocks INSIDE its executor job
        gates = [["t:" + place[1], place[2]]]
        steps += [["dconn"]] + pre + [["cmd", c]]
        if verb in ("STOR", "APPE"):
            steps += [["dsend", payload]]
            if place[1] == "close":
                steps += [["deof"]]
    elif kind == "handler_gate":
        gates = [[place[1], place[2]]]
        steps += [["dconn"]] + pre + [["cmd", c]]
    elif kind == "late_gate":
        gates = [[place[1], place[2]]]
        steps += pre + [["cmd", c], ["dconn"]]
        if verb in ("STOR", "APPE"):
            steps += [["dsend", payload]]
            if place[1] == "close":
                steps += [["deof"]]
    elif kind == "sent":
        steps += [["dconn"]] + pre + [["cmd", c], ["dsend", place[1]]]
    elif kind == "noread":
        files["f"] = 300000
        block = 65536
        steps += [["dconn_noread"], ["cmd", c]]
    elif kind == "stalled":
        # a download against a peer that is connected and does not read, the transport's write buffer full
        # (case["water"] lowers simnet's flow-control marks so that a small file is enough)
        files["f"] = 64
        steps += [["dconn_noread"]] + pre + [["cmd", c]]
    elif kind == "stalled_gate":
        # both at once: the data peer does not read (write buffer full after a few blocks) AND the n-th back-end
        # call `op` is slow.  Depending on n the transfer is held by the back-end (n small) or by the peer with the
        # back-end call still ahead of it - or, in an implementation that overlaps the two, by both at the same time
        files["f"] = 64
        gates = [[place[1], place[2]]]
        steps += [["dconn_noread"]] + pre + [["cmd", c]]
    elif kind == "two":
        # TWO transfers alive in one session: the first one is held by its peer, then PASV again, a second data
        # connection and a second transfer command.  place = ("two", first, second) with first/second in
        # "stor" (upload waiting for bytes) | "retr_stalled" (download, peer not reading) | "retr_gate" (back-end read suspended)
        def one(which, name):
            if which == "stor":
                return [["dconn"], ["cmd", f"STOR {name}"], ["dsend", 3]]
            if which == "retr_stalled":
                return [["dconn_noread"], ["cmd", "RETR f"]]
            if which == "retr_gate":
                return [["dconn"], ["cmd", "RETR f"]]
            if which == "list_gate":
                return [["dconn"], ["cmd", "LIST d"]]
            raise ValueError(which)

        if "retr_stalled" in place[1:]:
            files["f"] = 64
        if "retr_gate" in place[1:]:
            gates = [["read", 2]]
        if "list_gate" in place[1:]:
            gates = gates + [["stat", 2]]
        steps += one(place[1], "up") + [["cmd", listen]] + one(place[2], "up2")
    elif kind == "ticks":
        steps += [["dconn"]] + pre + [["ticksend", [c, place[1], "ABOR"]]]
    elif kind == "pipe":
        steps += [["dconn"]] + pre + [["pipe", [c, "ABOR"]]]
    elif kind == "pipe_nodata":
        steps += pre + [["pipe", [c, "ABOR"]]]
    elif kind == "done":
        steps += [["dconn"]] + pre + [["cmd", c]]
        if verb in ("STOR", "APPE"):
            steps += [["dsend", payload], ["deof"]]
    else:
        raise ValueError(place)
    return steps, gates, files, block, payload
